#!/bin/sh
# Offline setup: warm the cargo build cache (outside /repo) and sanity-check the runner.
set -e
cd "$(dirname "$0")"
export CARGO_NET_OFFLINE=true
mkdir -p .build evidence
/venv/bin/python -c "
import sys; sys.path.insert(0,'/verif'); sys.path.insert(0,'/repo')
from engines import common
p = common.rust_paths()
print('rust extensions built in', p['_build_s'], 's')
"
echo setup ok
