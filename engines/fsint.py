"""File-system interposition shared by E1 (sysched) and E2 (crashfs).

`install()` replaces, once per process, the os / builtins / io entry points through which dulwich
touches the file system by wrappers.  A wrapper is inert unless the *calling thread* has a
controller attached (`attach(ctl, actor)`) and the path lies under the controller's sandbox root.
For an interposed call the wrapper runs

    action = ctl.before(actor, op, path, info)     # may block (scheduler), raise (fault/crash)
    if action is SKIP: return a neutral value       # post-crash: mutation dropped
    result = real(...)
    ctl.after(actor, op, path, info, result)

Write visibility: files opened for writing under the sandbox (builtins.open, os.fdopen) are built
from LoggedFileIO so that every raw write(2)/truncate is an interposed op with its byte count.

Completeness is checked, not assumed: a sys audit hook records every open/rename/remove/mkdir/...
event under an active sandbox that did not pass through a wrapper (`uninterposed()`).
"""

from __future__ import annotations

import builtins
import io
import os
import sys
import threading

SKIP = object()

_tls = threading.local()
_installed = False
_real = {}
_uninterposed = []

MUTATING = {
    "open_w", "write", "truncate", "fsync", "replace", "rename", "remove", "rmdir", "mkdir",
    "chmod", "utime", "link", "symlink",
}


def attach(ctl, actor):
    _tls.ctl = ctl
    _tls.actor = actor
    _tls.inside = 0


def detach():
    _tls.ctl = None
    _tls.actor = None


def _ctl():
    return getattr(_tls, "ctl", None)


def real(name):
    if not _installed:
        install()
    return _real[name]


def _norm(path, dir_fd=None):
    try:
        p = os.fspath(path)
    except TypeError:
        return None
    if isinstance(p, bytes):
        p = os.fsdecode(p)
    if not isinstance(p, str):
        return None
    if dir_fd is not None and not p.startswith("/"):
        try:
            p = os.path.join(_real["readlink"]("/proc/self/fd/%d" % dir_fd), p)
        except OSError:
            return None
    if not p.startswith("/"):
        p = os.path.join(os.getcwd(), p)
    return os.path.normpath(p)


def _relevant(ctl, p):
    return p is not None and (p == ctl.root or p.startswith(ctl.root_slash))


class _Expect:
    """Marks 'the next audit events on this thread come from a wrapper'."""

    def __enter__(self):
        _tls.inside = getattr(_tls, "inside", 0) + 1

    def __exit__(self, *a):
        _tls.inside -= 1


_expect = _Expect()


def _call(opname, path, info, fn, args, kwargs, neutral=None):
    ctl = _ctl()
    if ctl is None or getattr(_tls, "inside", 0):
        return fn(*args, **kwargs)
    p = _norm(path, kwargs.get("dir_fd"))
    if not _relevant(ctl, p):
        return fn(*args, **kwargs)
    actor = _tls.actor
    action = ctl.before(actor, opname, p, info)
    if action is SKIP:
        return neutral
    with _expect:
        res = fn(*args, **kwargs)
    ctl.after(actor, opname, p, info, res)
    return res


# --------------------------------------------------------------------------- logged raw file


class LoggedFileIO(io.FileIO):
    """Raw file whose write()/truncate() are interposed ops (BufferedWriter calls them)."""

    _vpath = None

    def write(self, b):
        ctl = _ctl()
        if ctl is None or self._vpath is None or getattr(_tls, "inside", 0):
            return super().write(b)
        n = len(b) if not isinstance(b, memoryview) else b.nbytes
        action = ctl.before(_tls.actor, "write", self._vpath, {"n": n, "fd": self.fileno() if not self.closed else -1, "data": b, "file": self})
        if action is SKIP:
            return n
        with _expect:
            r = super().write(b)
        ctl.after(_tls.actor, "write", self._vpath, {"n": n}, r)
        return r

    def truncate(self, size=None):
        ctl = _ctl()
        if ctl is None or self._vpath is None or getattr(_tls, "inside", 0):
            return super().truncate(size)
        action = ctl.before(_tls.actor, "truncate", self._vpath, {"size": size})
        if action is SKIP:
            return size or 0
        with _expect:
            return super().truncate(size)

    def close(self):
        ctl = _ctl()
        if ctl is not None and not self.closed and self._vpath is not None:
            try:
                ctl.on_close_fd(self.fileno())
            except Exception:
                pass
        return super().close()


def raw_write(f, data):
    """Un-interposed write(2) on a LoggedFileIO (used to model a write that only partly happened)."""
    with _expect:
        return io.FileIO.write(f, data)


def _mode_writes(mode):
    return any(c in mode for c in "wax+")


def _wrap_raw(raw, mode, buffering):
    """Rebuild what io.open would have returned for a binary file around `raw`."""
    if buffering == 0:
        return raw
    # like io.open: default buffer size = the file's st_blksize (4096 on tmpfs, so raw write(2)s
    # are as fine-grained as in an uninterposed process; cross-checked by tools/strace_crosscheck.py)
    bs = buffering if buffering and buffering > 1 else getattr(raw, "_blksize", io.DEFAULT_BUFFER_SIZE)
    if "+" in mode:
        return io.BufferedRandom(raw, bs)
    if _mode_writes(mode):
        return io.BufferedWriter(raw, bs)
    return io.BufferedReader(raw, bs)


def _open(file, mode="r", buffering=-1, encoding=None, errors=None, newline=None, closefd=True, opener=None):
    ctl = _ctl()
    ropen = _real["open"]
    if ctl is None or getattr(_tls, "inside", 0):
        return ropen(file, mode, buffering, encoding, errors, newline, closefd, opener)
    if isinstance(file, int):
        # os.fdopen path: wrap write-mode fds that belong to the sandbox
        p = ctl.fd_path(file)
        if p is None or not _mode_writes(mode) or "b" not in mode:
            return ropen(file, mode, buffering, encoding, errors, newline, closefd, opener)
        raw = LoggedFileIO(file, mode.replace("b", ""), closefd=closefd)
        raw._vpath = p
        return _wrap_raw(raw, mode, buffering)
    p = _norm(file)
    if not _relevant(ctl, p):
        return ropen(file, mode, buffering, encoding, errors, newline, closefd, opener)
    actor = _tls.actor
    w = _mode_writes(mode)
    op = "open_w" if w else "open_r"
    action = ctl.before(actor, op, p, {"mode": mode})
    if action is SKIP:
        # post-crash open for write: hand back a sink
        return io.BytesIO() if "b" in mode else io.StringIO()
    if not w or "b" not in mode or opener is not None:
        with _expect:
            f = ropen(file, mode, buffering, encoding, errors, newline, closefd, opener)
        ctl.after(actor, op, p, {"mode": mode}, f)
        return f
    with _expect:
        raw = LoggedFileIO(file, mode.replace("b", ""))
    raw._vpath = p
    ctl.on_open_fd(raw.fileno(), p)
    ctl.after(actor, op, p, {"mode": mode}, raw)
    return _wrap_raw(raw, mode, buffering)


def _os_open(path, flags, mode=0o777, *, dir_fd=None):
    w = bool(flags & (os.O_WRONLY | os.O_RDWR | os.O_CREAT | os.O_TRUNC | os.O_APPEND))
    kw = {} if dir_fd is None else {"dir_fd": dir_fd}
    ctl = _ctl()
    if ctl is None or getattr(_tls, "inside", 0):
        return _real["os.open"](path, flags, mode, **kw)
    p = _norm(path, dir_fd)
    if not _relevant(ctl, p):
        return _real["os.open"](path, flags, mode, **kw)
    actor = _tls.actor
    op = "open_w" if w else "open_r"
    info = {"flags": flags, "excl": bool(flags & os.O_EXCL), "creat": bool(flags & os.O_CREAT)}
    action = ctl.before(actor, op, p, info)
    if action is SKIP:
        # post-crash: give a harmless fd
        return _real["os.open"]("/dev/null", os.O_RDWR)
    with _expect:
        fd = _real["os.open"](path, flags, mode, **kw)
    ctl.on_open_fd(fd, p)
    ctl.after(actor, op, p, info, fd)
    return fd


def _os_close(fd):
    ctl = _ctl()
    if ctl is not None:
        ctl.on_close_fd(fd)
    return _real["os.close"](fd)


def _fsync(fd):
    ctl = _ctl()
    if ctl is None or getattr(_tls, "inside", 0):
        return _real["fsync"](fd)
    if not isinstance(fd, int):
        fd = fd.fileno()
    p = ctl.fd_path(fd)
    if p is None:
        return _real["fsync"](fd)
    action = ctl.before(_tls.actor, "fsync", p, {"fd": fd})
    if action is SKIP:
        return None
    with _expect:
        r = _real["fsync"](fd)
    ctl.after(_tls.actor, "fsync", p, {"fd": fd}, r)
    return r


def _mk1(opname, realname, neutral=None):
    fn = _real[realname]

    def w(path, *a, **kw):
        return _call(opname, path, {}, fn, (path,) + a, kw, neutral)

    w.__name__ = realname
    return w


def _mk2(opname, realname):
    fn = _real[realname]

    def w(src, dst, *a, **kw):
        ctl = _ctl()
        if ctl is None or getattr(_tls, "inside", 0):
            return fn(src, dst, *a, **kw)
        ps, pd = _norm(src, kw.get("src_dir_fd")), _norm(dst, kw.get("dst_dir_fd"))
        if opname == "symlink":
            ps = None  # link target text is not a path we touch
        if not (_relevant(ctl, ps) or _relevant(ctl, pd)):
            return fn(src, dst, *a, **kw)
        actor = _tls.actor
        info = {"src": ps}
        action = ctl.before(actor, opname, pd, info)
        if action is SKIP:
            return None
        with _expect:
            r = fn(src, dst, *a, **kw)
        ctl.after(actor, opname, pd, info, r)
        return r

    w.__name__ = realname
    return w


def _stat(path, *a, **kw):
    if isinstance(path, int):
        return _real["stat"](path, *a, **kw)
    return _call("stat", path, {}, _real["stat"], (path,) + a, kw)


def _lstat(path, *a, **kw):
    return _call("lstat", path, {}, _real["lstat"], (path,) + a, kw)


def _scandir(path=".", *a, **kw):
    if isinstance(path, int):
        return _real["scandir"](path, *a, **kw)
    return _call("listdir", path, {}, _real["scandir"], (path,) + a, kw)


def _listdir(path=".", *a, **kw):
    if isinstance(path, int):
        return _real["listdir"](path, *a, **kw)
    return _call("listdir", path, {}, _real["listdir"], (path,) + a, kw)


_AUDIT_EVENTS = {
    "open": 0, "os.rename": 1, "os.remove": 0, "os.mkdir": 0, "os.rmdir": 0, "os.chmod": 0,
    "os.utime": 0, "os.link": 1, "os.symlink": 1, "os.truncate": 0, "os.scandir": 0, "os.listdir": 0,
}


def _audit(event, args):
    if event not in _AUDIT_EVENTS:
        return
    ctl = getattr(_tls, "ctl", None)
    if ctl is None or getattr(_tls, "inside", 0):
        return
    try:
        for a in args[:2]:
            if isinstance(a, (str, bytes)):
                p = _norm(a)
                if _relevant(ctl, p):
                    if event == "open" and not ctl.strict_reads and (len(args) < 2 or args[1] in ("r", "rb", None)):
                        continue
                    _uninterposed.append((event, p))
                    return
    except Exception:
        pass


def uninterposed():
    return list(_uninterposed)


def install():
    global _installed
    if _installed:
        return
    _installed = True
    _real.update({
        "open": builtins.open, "os.open": os.open, "os.close": os.close, "fsync": os.fsync,
        "replace": os.replace, "rename": os.rename, "remove": os.remove, "unlink": os.unlink,
        "rmdir": os.rmdir, "mkdir": os.mkdir, "chmod": os.chmod, "utime": os.utime, "link": os.link,
        "symlink": os.symlink, "readlink": os.readlink, "stat": os.stat, "lstat": os.lstat,
        "scandir": os.scandir, "listdir": os.listdir, "truncate": os.truncate, "access": os.access,
    })
    builtins.open = _open
    io.open = _open
    os.open = _os_open
    os.close = _os_close
    os.fsync = _fsync
    if hasattr(os, "fdatasync"):
        _real["fdatasync"] = os.fdatasync
    os.replace = _mk2("replace", "replace")
    os.rename = _mk2("rename", "rename")
    os.link = _mk2("link", "link")
    os.symlink = _mk2("symlink", "symlink")
    os.remove = _mk1("remove", "remove")
    os.unlink = _mk1("remove", "unlink")
    os.rmdir = _mk1("rmdir", "rmdir")
    os.mkdir = _mk1("mkdir", "mkdir")
    os.chmod = _mk1("chmod", "chmod")
    os.utime = _mk1("utime", "utime")
    os.truncate = _mk1("truncate", "truncate")
    os.readlink = _mk1("readlink", "readlink")
    os.access = _mk1("stat", "access", neutral=False)
    os.stat = _stat
    os.lstat = _lstat
    os.scandir = _scandir
    os.listdir = _listdir
    # os.fdopen is pure Python: `return io.open(fd, mode, buffering, ...)` -> io.open patched above.
    # tempfile uses _os.open/_os.unlink -> patched attributes.  shutil uses os.* attributes.
    import tempfile  # noqa: F401
    sys.addaudithook(_audit)


class BaseController:
    """Bookkeeping every controller needs: sandbox root, fd -> path map, inode pinning."""

    strict_reads = False

    def __init__(self, root):
        self.root = os.path.normpath(root)
        self.root_slash = self.root + "/"
        self._fd = {}
        self._pins = []

    def rel(self, p):
        return p[len(self.root_slash):] if p.startswith(self.root_slash) else p

    def on_open_fd(self, fd, path):
        self._fd[fd] = path

    def on_close_fd(self, fd):
        self._fd.pop(fd, None)

    def fd_path(self, fd):
        return self._fd.get(fd)

    def pin(self, path):
        """Keep the inode behind `path` alive so tmpfs cannot hand the same inode number to a
        new file within this execution (dulwich keys caches on st_ino, like git)."""
        try:
            fd = _real["os.open"](path, os.O_RDONLY | os.O_NOFOLLOW | os.O_NONBLOCK)
            self._pins.append(fd)
        except OSError:
            pass

    def release(self):
        for fd in self._pins:
            try:
                _real["os.close"](fd)
            except OSError:
                pass
        self._pins = []
        self._fd = {}

    def before(self, actor, op, path, info):
        return None

    def after(self, actor, op, path, info, res):
        return None
