"""E3 extension for confinement properties (C17): sandbox snapshots that keep *everything* a
confinement oracle needs (names, types, permission bits, contents, link targets — including symlinks
to directories, which os.walk-based snapshots file under "directories"), restore, structural diff,
and a mutation tracer that attributes a forbidden file-system effect to the dulwich function that
issued the system call (used only to *name* a violation; the snapshot comparison decides it).

Nothing here imports dulwich.
"""

from __future__ import annotations

import builtins
import io
import os
import shutil
import stat
import sys

# --------------------------------------------------------------------------- snapshots
#
# A snapshot is a sorted tuple of (relpath: bytes, kind: str, mode: int, payload: bytes)
#   kind 'd' directory (payload b""), 'f' regular file (payload = content), 'l' symlink
#   (payload = target, mode 0), 'o' anything else (payload = b"").  mode = st_mode & 0o7777.
# Volatile fields (times, inode numbers, owner) are not part of it.


def snap(root, prune=None):
    """Canonical image of the directory tree under root (root itself excluded).
    prune(rel) -> True: do not record / descend."""
    root = os.fsencode(root)
    out = []
    stack = [b""]
    while stack:
        rel = stack.pop()
        d = os.path.join(root, rel) if rel else root
        try:
            with os.scandir(d) as it:
                names = sorted(e.name for e in it)
        except PermissionError:  # unprivileged owner: open the directory up for the listing only
            m0 = stat.S_IMODE(os.lstat(d).st_mode)
            os.chmod(d, m0 | 0o700)
            try:
                with os.scandir(d) as it:
                    names = sorted(e.name for e in it)
            finally:
                os.chmod(d, m0)
        for n in names:
            r = rel + b"/" + n if rel else n
            if prune is not None and prune(r):
                continue
            p = os.path.join(root, r)
            st = os.lstat(p)
            m = stat.S_IMODE(st.st_mode)
            if stat.S_ISLNK(st.st_mode):
                out.append((r, "l", 0, os.readlink(p)))
            elif stat.S_ISDIR(st.st_mode):
                out.append((r, "d", m, b""))
                stack.append(r)
            elif stat.S_ISREG(st.st_mode):
                try:
                    with open(p, "rb") as f:
                        data = f.read()
                except PermissionError:  # e.g. mode 000 and we are not root
                    os.chmod(p, m | 0o400)
                    try:
                        with open(p, "rb") as f:
                            data = f.read()
                    finally:
                        os.chmod(p, m)
                out.append((r, "f", m, data))
            else:
                out.append((r, "o", m, b""))
    out.sort()
    return tuple(out)


def restore(snapshot, root):
    """Recreate a snapshot under root (root is emptied first)."""
    root = os.fsencode(root)
    if os.path.lexists(root):
        force_rmtree(root)
    os.makedirs(root)
    dirs = []
    for rel, kind, mode, payload in snapshot:  # sorted: parents come before children
        p = os.path.join(root, rel)
        if kind == "d":
            os.mkdir(p, 0o700)
            dirs.append((p, mode))
        elif kind == "l":
            os.symlink(payload, p)
        elif kind == "f":
            fd = os.open(p, os.O_WRONLY | os.O_CREAT | os.O_EXCL, 0o600)
            try:
                os.write(fd, payload)
            finally:
                os.close(fd)
            os.chmod(p, mode)
        else:
            raise ValueError("cannot restore entry of kind %r: %r" % (kind, rel))
    for p, mode in reversed(dirs):
        os.chmod(p, mode)


class Sandbox:
    """A directory whose current image is known (the last snapshot taken of it), so that moving it
    to another snapshot only touches what differs.  Any doubt -> invalidate() -> full restore."""

    def __init__(self, root):
        self.root = os.fsencode(root)
        self.image = None

    def invalidate(self):
        self.image = None

    def observed(self, snapshot):
        self.image = snapshot

    def sync(self, target):
        if self.image is None:
            restore(target, self.root)
        elif self.image is not target and self.image != target:
            try:
                self._apply(self.image, target)
            except OSError:
                restore(target, self.root)
        self.image = target

    def _apply(self, cur, tgt):
        b = {e[0]: e for e in cur}
        a = {e[0]: e for e in tgt}
        root = self.root
        gone = sorted((r for r in b if r not in a or a[r][1] != b[r][1]), reverse=True)  # children first
        for r in gone:
            p = os.path.join(root, r)
            if b[r][1] == "d":
                os.rmdir(p)
            else:
                os.unlink(p)
        dirmodes = []
        for r in sorted(a):
            e = a[r]
            old = b.get(r)
            if old == e:
                continue
            p = os.path.join(root, r)
            fresh = old is None or old[1] != e[1]
            if e[1] == "d":
                if fresh:
                    os.mkdir(p, 0o700)
                dirmodes.append((p, e[2]))
            elif e[1] == "l":
                if not fresh:
                    os.unlink(p)
                os.symlink(e[3], p)
            elif e[1] == "f":
                if not fresh and old[3] == e[3]:
                    os.chmod(p, e[2])
                    continue
                if not fresh:
                    os.unlink(p)  # never write through: a fresh inode, like restore()
                fd = os.open(p, os.O_WRONLY | os.O_CREAT | os.O_EXCL, 0o600)
                try:
                    os.write(fd, e[3])
                finally:
                    os.close(fd)
                os.chmod(p, e[2])
            else:
                raise OSError("cannot create entry of kind %r" % (e[1],))
        for p, mode in reversed(dirmodes):
            os.chmod(p, mode)


def force_rmtree(root):
    """rmtree that also works for an unprivileged owner when directories lack permissions."""
    def onerror(fn, path, exc):
        parent = os.path.dirname(path)
        for q in (parent, path):
            try:
                if not os.path.islink(q):
                    os.chmod(q, 0o700)
            except OSError:
                pass
        fn(path)

    shutil.rmtree(root, onerror=onerror)


def select(snapshot, pred):
    return tuple(e for e in snapshot if pred(e[0]))


def diff(before, after):
    """[(relpath, what)] with what in created:<kind> / deleted:<kind> / retyped:<k1>-><k2> /
    content / target / mode, sorted by path."""
    b = {e[0]: e for e in before}
    a = {e[0]: e for e in after}
    out = []
    for r in sorted(set(b) | set(a)):
        x, y = b.get(r), a.get(r)
        if x == y:
            continue
        if x is None:
            out.append((r, "created:" + y[1]))
        elif y is None:
            out.append((r, "deleted:" + x[1]))
        elif x[1] != y[1]:
            out.append((r, "retyped:%s->%s" % (x[1], y[1])))
        elif x[3] != y[3]:
            out.append((r, "target" if x[1] == "l" else "content"))
        else:
            out.append((r, "mode"))
    return out


# --------------------------------------------------------------------------- mutation tracer


def _b(p):
    try:
        p = os.fspath(p)
    except TypeError:
        return None
    return os.fsencode(p) if isinstance(p, str) else p if isinstance(p, bytes) else None


class MutationTracer:
    """Context manager.  While active, every mutating file-system call made through the os /
    builtins / shutil entry points dulwich uses is resolved to the object it really acts on
    (symlinks in the leading directories resolved; the final component too for calls that follow
    it) and handed to `is_protected(effective_path) -> bool`.  Hits are recorded as dicts:
      call, literal, effective, how ('through-symlinked-dir' | 'through-final-symlink' | 'direct'),
      frames (innermost-last list of 'module.function' for frames whose file lies under pkg_dir).
    The real call is always executed: the tracer observes, it does not protect."""

    FOLLOW_FINAL = {"open", "os.open", "chmod", "utime", "truncate"}

    def __init__(self, is_protected, pkg_dir):
        self.is_protected = is_protected
        self.pkg_dir = os.path.normpath(pkg_dir) + os.sep
        self.hits = []
        self._saved = []
        self._busy = False

    # -- classification
    def _effective(self, call, literal):
        lit = os.path.abspath(literal)  # lexical (normpath of cwd-joined path)
        raw = literal if os.path.isabs(literal) else os.path.join(os.getcwdb(), literal)
        d, base = os.path.split(raw.rstrip(b"/") or b"/")
        rd = os.path.realpath(d)
        eff = os.path.join(rd, base) if base not in (b"", b".", b"..") else os.path.realpath(raw)
        how = "direct"
        if os.path.normpath(rd) != os.path.dirname(lit) and base not in (b"", b".", b".."):
            how = "through-symlinked-dir"
        if call in self.FOLLOW_FINAL and os.path.islink(eff):
            eff = os.path.realpath(eff)
            how = "through-final-symlink" if how == "direct" else how
        return os.path.normpath(eff), how

    def _note(self, call, path):
        if self._busy:
            return
        p = _b(path)
        if p is None:
            return
        self._busy = True
        try:
            eff, how = self._effective(call, p)
            if self.is_protected(eff):
                frames = []
                f = sys._getframe(2)
                while f is not None:
                    fn = f.f_code.co_filename
                    if fn.startswith(self.pkg_dir):
                        mod = fn[len(self.pkg_dir):].rsplit(".", 1)[0].replace(os.sep, ".")
                        if mod.endswith(".__init__"):
                            mod = mod[: -len(".__init__")]
                        frames.append("%s.%s" % (mod, f.f_code.co_name))
                    f = f.f_back
                frames.reverse()
                self.hits.append({"call": call, "literal": p, "effective": eff, "how": how, "frames": frames})
        except OSError:
            pass
        finally:
            self._busy = False

    # -- patching
    def _patch(self, obj, name, new):
        self._saved.append((obj, name, getattr(obj, name)))
        setattr(obj, name, new)

    def __enter__(self):
        t = self

        def one(call, real):
            def w(path, *a, **kw):
                if kw.get("dir_fd") is None:
                    t._note(call, path)
                return real(path, *a, **kw)
            return w

        def two(call, real, both):
            def w(src, dst, *a, **kw):
                if both:
                    t._note(call, src)
                t._note(call, dst)
                return real(src, dst, *a, **kw)
            return w

        for name in ("unlink", "remove", "rmdir", "mkdir", "chmod", "utime", "truncate"):
            self._patch(os, name, one(name if name != "remove" else "unlink", getattr(os, name)))
        self._patch(os, "rename", two("rename", os.rename, True))
        self._patch(os, "replace", two("rename", os.replace, True))
        self._patch(os, "link", two("link", os.link, False))
        real_symlink = os.symlink
        self._patch(os, "symlink", two("symlink", real_symlink, False))
        real_os_open = os.open

        def os_open(path, flags, mode=0o777, *, dir_fd=None):
            if dir_fd is None and flags & (os.O_WRONLY | os.O_RDWR | os.O_CREAT | os.O_TRUNC | os.O_APPEND):
                t._note("os.open", path)
            return real_os_open(path, flags, mode) if dir_fd is None else real_os_open(path, flags, mode, dir_fd=dir_fd)

        self._patch(os, "open", os_open)
        real_open = builtins.open

        def open_(file, mode="r", *a, **kw):
            if not isinstance(file, int) and any(c in mode for c in "wax+"):
                t._note("open", file)
            return real_open(file, mode, *a, **kw)

        self._patch(builtins, "open", open_)
        self._patch(io, "open", open_)
        real_rmtree = shutil.rmtree

        def rmtree(path, *a, **kw):
            t._note("rmtree", path)
            return real_rmtree(path, *a, **kw)

        self._patch(shutil, "rmtree", rmtree)
        # modules that captured os.symlink under another name at import time
        for mod in list(sys.modules.values()):
            f = getattr(mod, "__file__", None)
            if f and f.startswith(self.pkg_dir) and getattr(mod, "symlink", None) is real_symlink:
                self._patch(mod, "symlink", os.symlink)
        return self

    def __exit__(self, *exc):
        for obj, name, old in reversed(self._saved):
            setattr(obj, name, old)
        self._saved = []
        return False


# --------------------------------------------------------------------------- privileges


def drop_privileges(owned_dir, uid=65534, gid=65534):
    """Belt and braces for pool workers running as root: give `owned_dir` to an unprivileged user
    and become that user, so that a confinement failure of the code under test can only ever
    touch the scratch area.  Returns True if privileges were dropped."""
    if os.getuid() != 0:
        return False
    try:
        os.chown(owned_dir, uid, gid)
        os.setgroups([])
        os.setgid(gid)
        os.setuid(uid)
        return True
    except OSError:
        return False
