"""Minimal reference reader/writer for version-2 pack streams (oracle plumbing only).

Written from Documentation/gitformat-pack.txt; independent of dulwich.  Used by C03 to
  * wrap deltas produced by dulwich's encoders into packs that C git's index-pack resolves, and
  * pull the deltas that C git's pack-objects produced out of its packs.
"""

from __future__ import annotations

import hashlib
import struct
import zlib

OBJ_BLOB = 3
OFS_DELTA = 6
REF_DELTA = 7


def _entry_header(type_num: int, size: int) -> bytes:
    c = (type_num << 4) | (size & 0x0F)
    size >>= 4
    out = bytearray()
    while size:
        out.append(c | 0x80)
        c = size & 0x7F
        size >>= 7
    out.append(c)
    return bytes(out)


def _ofs_encode(ofs: int) -> bytes:
    buf = [ofs & 0x7F]
    ofs >>= 7
    while ofs:
        ofs -= 1
        buf.insert(0, 0x80 | (ofs & 0x7F))
        ofs >>= 7
    return bytes(buf)


def blob_id(data: bytes) -> bytes:
    return hashlib.sha1(b"blob %d\x00" % len(data) + data).digest()


class Writer:
    """Build a pack of blobs and OFS/REF deltas; remembers the offset of every entry."""

    def __init__(self):
        self.body = []
        self.pos = 12
        self.offsets = []

    def _add(self, raw: bytes) -> int:
        off = self.pos
        self.body.append(raw)
        self.pos += len(raw)
        self.offsets.append(off)
        return off

    def add_blob(self, data: bytes) -> int:
        return self._add(_entry_header(OBJ_BLOB, len(data)) + zlib.compress(data, 1))

    def add_ofs_delta(self, base_offset: int, delta: bytes) -> int:
        return self._add(_entry_header(OFS_DELTA, len(delta)) + _ofs_encode(self.pos - base_offset) + zlib.compress(delta, 1))

    def add_ref_delta(self, base_id: bytes, delta: bytes) -> int:
        return self._add(_entry_header(REF_DELTA, len(delta)) + base_id + zlib.compress(delta, 1))

    def finish(self) -> bytes:
        data = b"PACK" + struct.pack(">LL", 2, len(self.offsets)) + b"".join(self.body)
        return data + hashlib.sha1(data).digest()


def parse(pack: bytes):
    """-> list of dicts {offset,type,size,data,base_offset|base_id} for every entry."""
    if pack[:4] != b"PACK":
        raise ValueError("not a pack")
    version, count = struct.unpack(">LL", pack[4:12])
    if version not in (2, 3):
        raise ValueError("pack version %d" % version)
    if hashlib.sha1(pack[:-20]).digest() != pack[-20:]:
        raise ValueError("pack trailer mismatch")
    pos = 12
    out = []
    for _ in range(count):
        start = pos
        c = pack[pos]
        pos += 1
        type_num = (c >> 4) & 7
        size = c & 0x0F
        shift = 4
        while c & 0x80:
            c = pack[pos]
            pos += 1
            size |= (c & 0x7F) << shift
            shift += 7
        e = {"offset": start, "type": type_num, "size": size}
        if type_num == OFS_DELTA:
            c = pack[pos]
            pos += 1
            ofs = c & 0x7F
            while c & 0x80:
                c = pack[pos]
                pos += 1
                ofs = ((ofs + 1) << 7) | (c & 0x7F)
            e["base_offset"] = start - ofs
        elif type_num == REF_DELTA:
            e["base_id"] = pack[pos:pos + 20]
            pos += 20
        z = zlib.decompressobj()
        data = z.decompress(pack[pos:len(pack) - 20])
        if not z.eof:
            raise ValueError("truncated zlib stream at %d" % pos)
        pos = len(pack) - 20 - len(z.unused_data)
        if len(data) != size:
            raise ValueError("size header %d != inflated %d" % (size, len(data)))
        e["data"] = data
        out.append(e)
    if pos != len(pack) - 20:
        raise ValueError("garbage after last entry")
    return out


def parse_show_index(text: bytes):
    """`git show-index` output -> {offset: hex id}."""
    out = {}
    for line in text.splitlines():
        parts = line.split()
        out[int(parts[0])] = parts[1].decode()
    return out
