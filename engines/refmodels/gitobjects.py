"""Reference serialiser / parser for git's canonical object grammar (oracle for C01).

Written from git's documentation (gitformat-signature(5), git-mktree(1), git-commit-tree(1),
git-mktag(1), Documentation/user-manual "object database") and from the behaviour of C git's own
writers (commit_tree_extended, build_tag_object, write_tree / mktree).  It deliberately shares no
code and no tricks with dulwich/objects.py; it is validated against C git on every object the
C01 check enumerates (a disagreement is a harness error, never a violation).

Logical values (plain tuples / dicts of bytes and ints so that they are JSON-able for replays):

  blob     bytes
  tree     tuple of (name: bytes, mode: int, hexid: bytes)            -- unordered set of entries
  ident    (who: bytes, time: int, tz: bytes)                          -- tz is the 5-byte spelling, e.g. b"-0000"
  commit   dict(tree, parents, author, committer, encoding, mergetags, extra, gpgsig, message)
             mergetags: tuple of raw tag texts (each ends with LF)
             extra:     tuple of (key, value) for headers git does not know
             message:   bytes, or None = "missing" (object ends after the last header, no blank line)
  tag      dict(object, type, name, tagger (ident or None), message, signature)
             message None and signature None = no blank line after the headers

Canonical layout emitted by C git (and required here):

  commit := "tree" SP hex LF ("parent" SP hex LF)* "author" SP ident LF "committer" SP ident LF
            ["encoding" SP enc LF] ("mergetag" SP folded LF)* (key SP folded LF)* ["gpgsig" SP folded LF]
            [LF message]
  tag    := "object" SP hex LF "type" SP typename LF "tag" SP name LF ["tagger" SP ident LF] [LF message signature]
  tree   := (octal-mode-without-leading-zero SP name NUL raw-id)*    sorted with base_name_compare
  folded := the value with every LF followed by one SP (continuation lines start with a space;
            an empty line inside a value is therefore " " LF)
"""

from __future__ import annotations

import functools
import hashlib

ALGOS = {"sha1": (hashlib.sha1, 20), "sha256": (hashlib.sha256, 32)}
TYPE_NAMES = (b"blob", b"tree", b"commit", b"tag")

S_IFMT = 0o170000
S_IFDIR = 0o040000

SIG_MARKERS = (
    b"-----BEGIN PGP SIGNATURE-----",
    b"-----BEGIN PGP MESSAGE-----",
    b"-----BEGIN SSH SIGNATURE-----",
    b"-----BEGIN SIGNED MESSAGE-----",
)


class RefError(Exception):
    """The bytes are not in the canonical grammar (reason in args[0])."""


# --------------------------------------------------------------------------- names


def object_id(algo: str, type_name: bytes, content: bytes) -> bytes:
    """hex( H( type SP decimal-length NUL content ) )"""
    if type_name not in TYPE_NAMES:
        raise RefError("unknown type %r" % (type_name,))
    h = ALGOS[algo][0]()
    h.update(type_name + b" " + str(len(content)).encode("ascii") + b"\x00")
    h.update(content)
    return h.hexdigest().encode("ascii")


def hexlen(algo: str) -> int:
    return ALGOS[algo][1] * 2


# --------------------------------------------------------------------------- time zones


def tz_seconds(tz: bytes):
    """b"+0530" -> (19800, False); b"-0000" -> (0, True).  Exactly sign + 4 digits."""
    if len(tz) != 5 or tz[:1] not in (b"+", b"-") or not tz[1:].isdigit():
        raise RefError("timezone spelling %r" % (tz,))
    hh = int(tz[1:3])
    mm = int(tz[3:5])
    secs = (hh * 60 + mm) * 60
    if tz[:1] == b"-":
        return (-secs, secs == 0)
    return (secs, False)


def tz_text(seconds: int, negative_zero: bool = False) -> bytes:
    """Inverse of tz_seconds for whole-minute offsets below 100 hours (integer arithmetic only)."""
    if seconds % 60:
        raise RefError("offset with seconds")
    sign = b"-" if (seconds < 0 or (seconds == 0 and negative_zero)) else b"+"
    minutes = abs(seconds) // 60
    hh, mm = divmod(minutes, 60)
    if hh > 99:
        raise RefError("offset too large")
    return sign + b"%02d%02d" % (hh, mm)


def ident_line(ident) -> bytes:
    who, when, tz = ident
    return who + b" " + str(int(when)).encode("ascii") + b" " + tz


def parse_ident(value: bytes):
    """'who SP time SP tz' -> (who, time, tz); who ends with '>'."""
    try:
        rest, tz = value.rsplit(b" ", 1)
        who, when = rest.rsplit(b" ", 1)
    except ValueError:
        raise RefError("ident line %r" % (value,))
    if not who.endswith(b">"):
        raise RefError("ident without closing '>' %r" % (value,))
    tz_seconds(tz)
    try:
        t = int(when)
    except ValueError:
        raise RefError("ident time %r" % (when,))
    if str(t).encode("ascii") != when:
        raise RefError("non-canonical time spelling %r" % (when,))
    return (who, t, tz)


# --------------------------------------------------------------------------- trees


def _base_name_compare(a, b) -> int:
    """git's base_name_compare(): memcmp on the common length, then ONE more byte where the end of
    a directory name counts as '/' and the end of any other name as NUL."""
    (n1, m1), (n2, m2) = a, b
    k = min(len(n1), len(n2))
    if n1[:k] != n2[:k]:
        return -1 if n1[:k] < n2[:k] else 1
    c1 = n1[k] if len(n1) > k else (0x2F if (m1 & S_IFMT) == S_IFDIR else 0)
    c2 = n2[k] if len(n2) > k else (0x2F if (m2 & S_IFMT) == S_IFDIR else 0)
    return (c1 > c2) - (c1 < c2)


def sort_entries(entries):
    return sorted(entries, key=functools.cmp_to_key(lambda x, y: _base_name_compare((x[0], x[1]), (y[0], y[1]))))


def serialize_tree(entries, algo: str = "sha1") -> bytes:
    out = []
    n = hexlen(algo)
    seen = set()
    for name, mode, hexid in sort_entries(entries):
        if not name or b"/" in name or b"\x00" in name:
            raise RefError("illegal entry name %r" % (name,))
        if name in seen:
            raise RefError("duplicate name %r" % (name,))
        seen.add(name)
        if len(hexid) != n:
            raise RefError("id length %d for %s" % (len(hexid), algo))
        out.append(b"%o" % mode + b" " + name + b"\x00" + bytes.fromhex(hexid.decode("ascii")))
    return b"".join(out)


def parse_tree(data: bytes, algo: str = "sha1"):
    """-> list of (name, mode, hexid) in file order.  Raises RefError unless canonical:
    no zero-padded mode, non-empty slash-free names, strictly ascending in git's order."""
    raw = ALGOS[algo][1]
    out = []
    pos = 0
    while pos < len(data):
        sp = data.find(b" ", pos)
        if sp < 0:
            raise RefError("mode not terminated")
        mtxt = data[pos:sp]
        if not mtxt or mtxt.startswith(b"0") or any(c not in b"01234567" for c in mtxt):
            raise RefError("mode spelling %r" % (mtxt,))
        nul = data.find(b"\x00", sp + 1)
        if nul < 0:
            raise RefError("name not terminated")
        name = data[sp + 1 : nul]
        if not name or b"/" in name:
            raise RefError("illegal entry name %r" % (name,))
        if nul + 1 + raw > len(data):
            raise RefError("truncated id")
        out.append((name, int(mtxt, 8), data[nul + 1 : nul + 1 + raw].hex().encode("ascii")))
        pos = nul + 1 + raw
    for a, b in zip(out, out[1:]):
        if a[0] == b[0]:
            raise RefError("duplicate name %r" % (a[0],))
        if _base_name_compare((a[0], a[1]), (b[0], b[1])) >= 0:
            raise RefError("entries not in git order: %r before %r" % (a[0], b[0]))
    return out


# --------------------------------------------------------------------------- header blocks


def fold(value: bytes) -> bytes:
    return value.replace(b"\n", b"\n ")


def header_block(headers) -> bytes:
    return b"".join(k + b" " + fold(v) + b"\n" for k, v in headers)


def parse_headers(data: bytes):
    """-> (headers: list of (key, value) in file order with continuation lines unfolded,
           body: bytes after the blank line, or None if the object ends after the last header)."""
    headers = []
    pos = 0
    n = len(data)
    while True:
        if pos == n:
            return headers, None
        eol = data.find(b"\n", pos)
        if eol < 0:
            raise RefError("unterminated header line")
        line = data[pos:eol]
        pos = eol + 1
        if line == b"":
            return headers, data[pos:]
        if line.startswith(b" "):
            if not headers:
                raise RefError("continuation line before any header")
            k, v = headers[-1]
            headers[-1] = (k, v + b"\n" + line[1:])
            continue
        if b" " not in line:
            raise RefError("header line without value %r" % (line,))
        k, v = line.split(b" ", 1)
        headers.append((k, v))


# --------------------------------------------------------------------------- commits

COMMIT_FIELDS = ("tree", "parents", "author", "committer", "encoding", "mergetags", "extra", "gpgsig", "message")
_KNOWN_COMMIT = (b"tree", b"parent", b"author", b"committer", b"encoding", b"mergetag", b"gpgsig")


def commit(tree, parents=(), author=None, committer=None, encoding=None, mergetags=(), extra=(), gpgsig=None,
           message=b""):
    return {
        "tree": tree,
        "parents": tuple(parents),
        "author": tuple(author),
        "committer": tuple(committer),
        "encoding": encoding,
        "mergetags": tuple(mergetags),
        "extra": tuple((k, v) for k, v in extra),
        "gpgsig": gpgsig,
        "message": message,
    }


def commit_headers(c):
    h = [(b"tree", c["tree"])]
    h += [(b"parent", p) for p in c["parents"]]
    h.append((b"author", ident_line(c["author"])))
    h.append((b"committer", ident_line(c["committer"])))
    if c["encoding"] is not None:
        h.append((b"encoding", c["encoding"]))
    for raw in c["mergetags"]:
        if not raw.endswith(b"\n"):
            raise RefError("mergetag text must end with LF")
        h.append((b"mergetag", raw[:-1]))
    for k, v in c["extra"]:
        if k in _KNOWN_COMMIT or not k or b" " in k or b"\n" in k:
            raise RefError("extra header key %r" % (k,))
        h.append((k, v))
    if c["gpgsig"] is not None:
        h.append((b"gpgsig", c["gpgsig"]))
    return h


def serialize_commit(c) -> bytes:
    out = header_block(commit_headers(c))
    if c["message"] is not None:
        out += b"\n" + c["message"]
    return out


def parse_commit(data: bytes):
    """Canonical layout only (see module doc); anything else raises RefError."""
    headers, body = parse_headers(data)
    i = 0

    def take(key):
        nonlocal i
        if i < len(headers) and headers[i][0] == key:
            i += 1
            return headers[i - 1][1]
        return None

    tree = take(b"tree")
    if tree is None:
        raise RefError("tree header first")
    parents = []
    while True:
        p = take(b"parent")
        if p is None:
            break
        parents.append(p)
    a = take(b"author")
    cm = take(b"committer")
    if a is None or cm is None:
        raise RefError("author/committer order")
    enc = take(b"encoding")
    mergetags = []
    while True:
        m = take(b"mergetag")
        if m is None:
            break
        mergetags.append(m + b"\n")
    extra = []
    while i < len(headers) and headers[i][0] not in _KNOWN_COMMIT:
        extra.append(headers[i])
        i += 1
    sig = take(b"gpgsig")
    if i != len(headers):
        raise RefError("header %r out of canonical order" % (headers[i][0],))
    return commit(tree, parents, parse_ident(a), parse_ident(cm), enc, mergetags, extra, sig, body)


# --------------------------------------------------------------------------- tags

TAG_FIELDS = ("object", "type", "name", "tagger", "message", "signature")


def tag(object, type, name, tagger=None, message=b"", signature=None):
    return {
        "object": object,
        "type": type,
        "name": name,
        "tagger": tuple(tagger) if tagger is not None else None,
        "message": message,
        "signature": signature,
    }


def serialize_tag(t) -> bytes:
    if t["type"] not in TYPE_NAMES:
        raise RefError("tag target type %r" % (t["type"],))
    h = [(b"object", t["object"]), (b"type", t["type"]), (b"tag", t["name"])]
    if t["tagger"] is not None:
        h.append((b"tagger", ident_line(t["tagger"])))
    out = header_block(h)
    if t["message"] is None and t["signature"] is None:
        return out
    return out + b"\n" + (t["message"] or b"") + (t["signature"] or b"")


def split_signature(body: bytes):
    """git's parse_signed_buffer(): the signature starts at the LAST line that begins with an
    armor marker.  -> (message, signature or None)"""
    match = None
    pos = 0
    while pos < len(body):
        if body.startswith(SIG_MARKERS, pos):
            match = pos
        eol = body.find(b"\n", pos)
        pos = len(body) if eol < 0 else eol + 1
    if match is None:
        return body, None
    return body[:match], body[match:]


def parse_tag(data: bytes):
    headers, body = parse_headers(data)
    keys = [k for k, _ in headers]
    if keys not in ([b"object", b"type", b"tag"], [b"object", b"type", b"tag", b"tagger"]):
        raise RefError("tag headers %r" % (keys,))
    tagger = parse_ident(headers[3][1]) if len(headers) == 4 else None
    if body is None:
        msg, sig = None, None
    else:
        msg, sig = split_signature(body)
    if headers[1][1] not in TYPE_NAMES:
        raise RefError("tag target type %r" % (headers[1][1],))
    return tag(headers[0][1], headers[1][1], headers[2][1], tagger, msg, sig)


# --------------------------------------------------------------------------- generic front end


def serialize(kind: str, value, algo: str = "sha1") -> bytes:
    if kind == "blob":
        return bytes(value)
    if kind == "tree":
        return serialize_tree(value, algo)
    if kind == "commit":
        return serialize_commit(value)
    if kind == "tag":
        return serialize_tag(value)
    raise RefError(kind)


def parse(kind: str, data: bytes, algo: str = "sha1"):
    if kind == "blob":
        return bytes(data)
    if kind == "tree":
        return tuple(parse_tree(data, algo))
    if kind == "commit":
        return parse_commit(data)
    if kind == "tag":
        return parse_tag(data)
    raise RefError(kind)


# --------------------------------------------------------------------------- difference classes


def _hname(kind, k):
    known = _KNOWN_COMMIT if kind == "commit" else (b"object", b"type", b"tag", b"tagger")
    return k.decode("ascii", "replace") if k in known else "extra"


def diff_class(kind: str, got: bytes, want: bytes, algo: str = "sha1") -> str:
    """A short stable *class* describing how `got` deviates from `want` (never the input itself)."""
    if got == want:
        return "same"
    if kind == "blob":
        return "content-differs"
    if kind == "tree":
        try:
            g = _lenient_tree(got, algo)
        except RefError as e:
            return "unparsable-" + e.args[0].split(" ")[0]
        w = _lenient_tree(want, algo)
        if [e[:1] + e[2:] for e in g] == [e[:1] + e[2:] for e in w]:
            return "mode-spelling"
        if sorted(g) == sorted(w):
            return "entry-order"
        if sorted(e[0] for e in g) != sorted(e[0] for e in w):
            return "entry-names-differ"
        return "entry-mode-or-id-differs"
    try:
        gh, gb = parse_headers(got)
    except RefError as e:
        return "unparsable-headers"
    wh, wb = parse_headers(want)
    gk = [k for k, _ in gh]
    wk = [k for k, _ in wh]
    if gk != wk:
        if sorted(gk) == sorted(wk):
            return "header-order"
        for k in wk:
            if gk.count(k) < wk.count(k):
                return "header-%s-lost" % _hname(kind, k)
        for k in gk:
            if gk.count(k) > wk.count(k):
                return "header-%s-added" % _hname(kind, k)
    for (k, gv), (_, wv) in zip(gh, wh):
        if gv != wv:
            return "header-%s-value" % _hname(kind, k)
    if gb != wb:
        if wb is None and gb == b"":
            return "blank-line-added-after-headers"
        if gb is None and wb == b"":
            return "blank-line-after-headers-lost"
        if gb is None or wb is None:
            return "body-presence"
        return "body-bytes"
    return "header-folding"


def _lenient_tree(data, algo):
    raw = ALGOS[algo][1]
    out = []
    pos = 0
    while pos < len(data):
        sp = data.find(b" ", pos)
        nul = data.find(b"\x00", sp + 1) if sp >= 0 else -1
        if sp < 0 or nul < 0 or nul + 1 + raw > len(data):
            raise RefError("truncated entry")
        out.append((data[sp + 1 : nul], data[pos:sp], data[nul + 1 : nul + 1 + raw]))
        pos = nul + 1 + raw
    return out
