"""Independent reference model of the git index file (Documentation/gitformat-index.txt).

Written from the format documentation only; deliberately boring.  Nothing here imports dulwich.

    header   "DIRC" | u32 version (2,3,4) | u32 number of entries
    entry    u32 ctime.s ctime.ns mtime.s mtime.ns dev ino mode uid gid size | 20-byte object name |
             u16 flags = assume-valid(1) extended(1) stage(2) namelen(12: length, 0xFFF if >= 0xFFF) |
             [v3+, extended=1: u16 = reserved(1) skip-worktree(1) intent-to-add(1) unused(13, zero)] |
             v2/v3: path, then 1-8 NUL so that the entry is a multiple of 8 bytes (name stays
                    NUL-terminated);
             v4:    N in the OFS_DELTA *offset* varint encoding, then NUL-terminated S; the path is
                    previous_path[:len-N] + S; no padding.
    entries  sorted by name (memcmp, shorter first), then by stage; no duplicates.
    ext      4-byte signature | u32 size | data     (signature[0] in 'A'..'Z' => optional)
    trailer  SHA-1 over everything before it (all-zero when index.skipHash is in force)

`parse` is a *reader*: it accepts whatever the documented layout lets a reader decode and reports
deviations in two lists, `problems` (the statement-level ones: order, checksum, name-length
field, extended flag in v2, unused bits) and `pedantic` (things a reader can ignore, e.g. padding
bytes that are not NUL).  A layout that cannot be decoded raises IndexFormatError(code, offset).
`build` is the canonical *writer*.
"""

from __future__ import annotations

import hashlib
import struct

HASH_LEN = 20
NAMEMASK = 0x0FFF
STAGEMASK = 0x3000
STAGESHIFT = 12
F_EXTENDED = 0x4000
F_VALID = 0x8000
X_SKIP_WORKTREE = 0x4000
X_INTENT_TO_ADD = 0x2000
X_KNOWN = X_SKIP_WORKTREE | X_INTENT_TO_ADD
U32 = 0xFFFFFFFF
FIXED = 62  # 10 * 4 + 20 + 2


class IndexFormatError(Exception):
    def __init__(self, code, offset, detail=""):
        Exception.__init__(self, "%s at %d %s" % (code, offset, detail))
        self.code = code
        self.offset = offset


# ------------------------------------------------------------------ varint (OFS_DELTA offset flavour)


def varint_encode(n: int) -> bytes:
    """git varint.c encode_varint: big-endian 7-bit groups, each continuation adds 1."""
    if n < 0:
        raise ValueError(n)
    out = [n & 0x7F]
    n >>= 7
    while n:
        n -= 1
        out.append(0x80 | (n & 0x7F))
        n >>= 7
    return bytes(reversed(out))


def varint_decode(data: bytes, pos: int):
    """-> (value, new_pos); raises IndexFormatError when the data ends inside the number."""
    if pos >= len(data):
        raise IndexFormatError("truncated-varint", pos)
    c = data[pos]
    pos += 1
    val = c & 0x7F
    while c & 0x80:
        if pos >= len(data):
            raise IndexFormatError("truncated-varint", pos)
        val += 1
        c = data[pos]
        pos += 1
        val = (val << 7) + (c & 0x7F)
    return val, pos


# ------------------------------------------------------------------ data


class Entry:
    """One index entry in on-disk terms.  All stat fields are the 32-bit on-disk values."""

    __slots__ = ("ctime", "mtime", "dev", "ino", "mode", "uid", "gid", "size", "sha", "flags", "xflags",
                 "name", "offset", "end", "strip", "name_off")

    def __init__(self, name, ctime=(0, 0), mtime=(0, 0), dev=0, ino=0, mode=0o100644, uid=0, gid=0, size=0,
                 sha=b"\0" * 20, stage=0, assume_valid=False, xflags=0, extended=None, flags=None):
        self.name = name
        self.ctime = tuple(ctime)
        self.mtime = tuple(mtime)
        self.dev, self.ino, self.mode, self.uid, self.gid, self.size = dev, ino, mode, uid, gid, size
        self.sha = sha
        self.xflags = xflags
        if flags is None:
            flags = (F_VALID if assume_valid else 0) | (stage << STAGESHIFT)
            if extended if extended is not None else bool(xflags):
                flags |= F_EXTENDED
        self.flags = flags & ~NAMEMASK  # high four bits only; the length field is derived
        self.offset = self.end = self.strip = self.name_off = None

    @property
    def stage(self):
        return (self.flags & STAGEMASK) >> STAGESHIFT

    @property
    def assume_valid(self):
        return bool(self.flags & F_VALID)

    @property
    def extended(self):
        return bool(self.flags & F_EXTENDED)

    def key(self):
        """Everything a reader must deliver (name, stage, fields)."""
        return (self.name, self.stage, self.ctime, self.mtime, self.dev, self.ino, self.mode, self.uid,
                self.gid, self.size, self.sha, self.flags & (F_VALID | F_EXTENDED), self.xflags)

    def __repr__(self):
        n = self.name if len(self.name) <= 24 else self.name[:10] + b"..%d.." % len(self.name) + self.name[-6:]
        return "<E %r st=%d fl=%04x x=%04x mode=%o>" % (n, self.stage, self.flags, self.xflags, self.mode)


def sort_key(name: bytes, stage: int):
    # python compares bytes like memcmp with "shorter is smaller" on a common prefix
    return (name, stage)


class Parsed:
    def __init__(self):
        self.version = None
        self.count = None
        self.entries = []
        self.extensions = []  # (signature, data, offset)
        self.entries_end = None
        self.trailer = None
        self.trailer_kind = None  # 'sha' | 'zero' | 'bad'
        self.order_ok = True
        self.problems = []  # (code, offset)
        self.pedantic = []  # (code, offset)
        self.regions = []  # (start, end, label)

    @property
    def clean(self):
        return not self.problems and not self.pedantic

    def codes(self):
        return sorted(set(c for c, _ in self.problems))


# ------------------------------------------------------------------ reader


def parse(data: bytes) -> Parsed:
    r = Parsed()
    n = len(data)
    if n < 12 + HASH_LEN:
        raise IndexFormatError("too-short", n)
    if data[:4] != b"DIRC":
        raise IndexFormatError("bad-signature", 0)
    version, count = struct.unpack(">LL", data[4:12])
    if version not in (2, 3, 4):
        raise IndexFormatError("bad-version", 4, str(version))
    r.version, r.count = version, count
    r.regions.append((0, 12, "header"))
    body_end = n - HASH_LEN
    pos = 12
    prev = b""
    prev_key = None
    for i in range(count):
        start = pos
        if pos + FIXED > body_end:
            raise IndexFormatError("truncated-entry", pos, "entry %d" % i)
        f = struct.unpack(">LLLLLLLLLL20sH", data[pos : pos + FIXED])
        pos += FIXED
        flags = f[11]
        xflags = 0
        if flags & F_EXTENDED:
            if version < 3:
                r.problems.append(("extended-flag-in-v2", start + 60))
                # a v2 reader has no extended word to skip: decode as documented for v2
            else:
                if pos + 2 > body_end:
                    raise IndexFormatError("truncated-entry", pos, "entry %d" % i)
                (xflags,) = struct.unpack(">H", data[pos : pos + 2])
                pos += 2
                if xflags & ~X_KNOWN:
                    r.problems.append(("extended-unused-bits-set", pos - 2))
        e = Entry(b"", ctime=(f[0], f[1]), mtime=(f[2], f[3]), dev=f[4], ino=f[5], mode=f[6], uid=f[7], gid=f[8],
                  size=f[9], sha=f[10], xflags=xflags, flags=flags)
        lenfield = flags & NAMEMASK
        e.name_off = pos
        if version == 4:
            strip, p2 = varint_decode(data[:body_end], pos)
            if strip > len(prev):
                raise IndexFormatError("v4-strip-exceeds-previous", pos, "%d > %d (entry %d)" % (strip, len(prev), i))
            z = data.find(b"\0", p2, body_end)
            if z < 0:
                raise IndexFormatError("name-not-terminated", p2, "entry %d" % i)
            name = prev[: len(prev) - strip] + data[p2:z]
            e.strip = strip
            pos = z + 1
            r.regions.append((start, e.name_off, "entry-fixed"))
            r.regions.append((e.name_off, pos, "entry-name"))
        else:
            if lenfield < NAMEMASK:
                if pos + lenfield + 1 > body_end:
                    raise IndexFormatError("truncated-entry", pos, "name of entry %d" % i)
                name = data[pos : pos + lenfield]
                if b"\0" in name:
                    r.problems.append(("nul-inside-name", pos))
            else:
                z = data.find(b"\0", pos, body_end)
                if z < 0:
                    raise IndexFormatError("name-not-terminated", pos, "entry %d" % i)
                name = data[pos:z]
            name_end = pos + len(name)
            size = (name_end - start + 8) & ~7  # 1..8 bytes of padding
            pad_end = start + size
            if pad_end > body_end:
                raise IndexFormatError("truncated-entry", name_end, "padding of entry %d" % i)
            pad = data[name_end:pad_end]
            if pad[:1] != b"\0":
                r.problems.append(("name-not-nul-terminated", name_end))
            elif pad.strip(b"\0"):
                r.pedantic.append(("padding-not-nul", name_end))
            pos = pad_end
            r.regions.append((start, e.name_off, "entry-fixed"))
            r.regions.append((e.name_off, name_end, "entry-name"))
            r.regions.append((name_end, pad_end, "entry-pad"))
        e.name = name
        if lenfield != min(len(name), NAMEMASK):
            r.problems.append(("namelen-field-mismatch", start + 60))
        e.offset, e.end = start, pos
        k = sort_key(name, e.stage)
        if prev_key is not None and not (prev_key < k):
            r.order_ok = False
            r.problems.append(("unsorted-or-duplicate", start))
        prev_key = k
        prev = name
        r.entries.append(e)
    r.entries_end = pos
    # stage-0 entry next to higher stages of the same name is not a valid index state
    names0 = set(e.name for e in r.entries if e.stage == 0)
    for e in r.entries:
        if e.stage and e.name in names0:
            r.problems.append(("merged-and-unmerged-same-name", e.offset))
            break
    # extensions
    while pos < body_end:
        if pos + 8 > body_end:
            raise IndexFormatError("truncated-extension-header", pos)
        sig = data[pos : pos + 4]
        (size,) = struct.unpack(">L", data[pos + 4 : pos + 8])
        if pos + 8 + size > body_end:
            raise IndexFormatError("extension-overruns-file", pos, "%r size %d" % (sig, size))
        r.extensions.append((sig, data[pos + 8 : pos + 8 + size], pos))
        r.regions.append((pos, pos + 8 + size, "extension"))
        pos += 8 + size
    r.trailer = data[body_end:]
    r.regions.append((body_end, n, "trailer"))
    if r.trailer == hashlib.sha1(data[:body_end]).digest():
        r.trailer_kind = "sha"
    elif r.trailer == b"\0" * HASH_LEN:
        r.trailer_kind = "zero"
    else:
        r.trailer_kind = "bad"
        r.problems.append(("trailer-checksum-mismatch", body_end))
    return r


def region_at(regions, pos):
    for a, b, label in regions:
        if a <= pos < b:
            return label
    return "eof"


def optional_extension(sig: bytes) -> bool:
    return len(sig) == 4 and 65 <= sig[0] <= 90


# ------------------------------------------------------------------ writer


def common_prefix_len(a: bytes, b: bytes) -> int:
    n = min(len(a), len(b))
    i = 0
    while i < n and a[i] == b[i]:
        i += 1
    return i


def build(version, entries, extensions=(), trailer="sha", v4_prefix="max", sort=True) -> bytes:
    """Canonical serialisation.  entries: Entry objects (32-bit field values); extensions:
    (signature, data) pairs; trailer: 'sha' | 'zero' | 20 raw bytes; v4_prefix: 'max' (longest
    common prefix, what git writes) or 'none' (strip the whole previous path)."""
    ents = sorted(entries, key=lambda e: sort_key(e.name, e.stage)) if sort else list(entries)
    out = bytearray(b"DIRC" + struct.pack(">LL", version, len(ents)))
    prev = b""
    for e in ents:
        start = len(out)
        flags = (e.flags & ~NAMEMASK) | min(len(e.name), NAMEMASK)
        if e.xflags:
            flags |= F_EXTENDED
        if flags & F_EXTENDED and version < 3:
            raise ValueError("extended flags need version >= 3")
        out += struct.pack(">LLLLLLLLLL20sH", e.ctime[0], e.ctime[1], e.mtime[0], e.mtime[1], e.dev, e.ino, e.mode,
                           e.uid, e.gid, e.size, e.sha, flags)
        if flags & F_EXTENDED:
            out += struct.pack(">H", e.xflags)
        if version == 4:
            keep = common_prefix_len(prev, e.name) if v4_prefix == "max" else 0
            out += varint_encode(len(prev) - keep) + e.name[keep:] + b"\0"
        else:
            out += e.name
            size = (len(out) - start + 8) & ~7
            out += b"\0" * (start + size - len(out))
        prev = e.name
    for sig, data in extensions:
        assert len(sig) == 4
        out += sig + struct.pack(">L", len(data)) + data
    if trailer == "sha":
        out += hashlib.sha1(bytes(out)).digest()
    elif trailer == "zero":
        out += b"\0" * HASH_LEN
    else:
        assert len(trailer) == HASH_LEN
        out += trailer
    return bytes(out)


# ------------------------------------------------------------------ extension payloads (valid per the doc)


def tree_extension(nodes) -> bytes:
    """nodes: depth-first list of (path_component, entry_count, subtree_count, oid20 or None)."""
    out = bytearray()
    for comp, count, subtrees, oid in nodes:
        out += comp + b"\0" + b"%d %d\n" % (count, subtrees)
        if count >= 0:
            out += oid
    return bytes(out)


def reuc_extension(items) -> bytes:
    """items: list of (path, [(mode, oid20) or None] * 3)."""
    out = bytearray()
    for path, stages in items:
        out += path + b"\0"
        for st in stages:
            out += (b"%o" % st[0] if st else b"0") + b"\0"
        for st in stages:
            if st:
                out += st[1]
    return bytes(out)


def diff_fields(a: Entry, b: Entry):
    """Names of the fields in which two entries differ (for diagnosis)."""
    out = []
    for f in ("name", "ctime", "mtime", "dev", "ino", "mode", "uid", "gid", "size", "sha", "xflags"):
        if getattr(a, f) != getattr(b, f):
            out.append(f)
    if a.stage != b.stage:
        out.append("stage")
    if a.assume_valid != b.assume_valid:
        out.append("assume-valid")
    if a.extended != b.extended:
        out.append("extended-bit")
    return out
