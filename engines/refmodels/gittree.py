"""Independent reference model for git tree objects, flat listings and raw tree diffs.

Written from git's documentation (gitformat / git-mktree(1) / git-diff-tree(1) "RAW OUTPUT FORMAT")
and from the description of the canonical entry order in fsck / read-cache ("entries are sorted by
name with directories compared as if their name ended in '/'").  Nothing here imports dulwich.

Vocabulary
    listing   tuple of (path, mode, hexid) with distinct paths, no path a proper directory prefix of
              another ("consistent"), never a directory mode: the flat content of a tree
    node      nested form {name: (mode, hexid) | node}
    built     result of build(): root id + every tree object (path -> (hexid, raw bytes, entries))
    record    one line of a raw diff: (path, old, new) with old/new = (mode, hexid) | None
"""

from __future__ import annotations

import functools
import hashlib

DIR = 0o040000
IFMT = 0o170000
NULL = b"0" * 40
EMPTY_TREE = b"4b825dc642cb6eb9a060e54bf8d69288fbee4904"


# --------------------------------------------------------------------------- listings


def is_dir_mode(mode):
    return (mode & IFMT) == DIR


def consistent(listing):
    """True iff the paths are distinct, non-empty, have no empty component and no path is a
    proper directory prefix of another one."""
    paths = [e[0] for e in listing]
    if len(set(paths)) != len(paths):
        return False
    ps = set(paths)
    for p in paths:
        parts = p.split(b"/")
        if any(x == b"" for x in parts):
            return False
        for i in range(1, len(parts)):
            if b"/".join(parts[:i]) in ps:
                return False
    return True


def nest(listing):
    root = {}
    for path, mode, hexid in listing:
        parts = path.split(b"/")
        d = root
        for comp in parts[:-1]:
            nxt = d.get(comp)
            if nxt is None:
                nxt = d[comp] = {}
            elif not isinstance(nxt, dict):
                raise ValueError("inconsistent listing at %r" % (path,))
            d = nxt
        if parts[-1] in d:
            raise ValueError("inconsistent listing at %r" % (path,))
        d[parts[-1]] = (mode, hexid)
    return root


# --------------------------------------------------------------------------- canonical order


def base_name_compare(name1, isdir1, name2, isdir2):
    """git's tree entry order: compare byte by byte over the common length; at the first
    position where one name has ended, that name contributes '/' if it is a directory and
    NUL otherwise."""
    n = min(len(name1), len(name2))
    for i in range(n):
        if name1[i] != name2[i]:
            return -1 if name1[i] < name2[i] else 1
    c1 = name1[n] if len(name1) > n else (0x2F if isdir1 else 0)
    c2 = name2[n] if len(name2) > n else (0x2F if isdir2 else 0)
    if c1 != c2:
        return -1 if c1 < c2 else 1
    return 0


def _cmp_entries(a, b):
    return base_name_compare(a[0], is_dir_mode(a[1]), b[0], is_dir_mode(b[1]))


def canonical_order(entries):
    """entries: iterable of (name, mode, hexid) -> list in git's canonical order."""
    return sorted(entries, key=functools.cmp_to_key(_cmp_entries))


def is_canonically_ordered(entries):
    entries = list(entries)
    for x, y in zip(entries, entries[1:]):
        if _cmp_entries(x, y) >= 0:
            return False
    return True


# --------------------------------------------------------------------------- objects


def serialize(entries):
    """Raw tree object body for entries already in canonical order."""
    out = []
    for name, mode, hexid in entries:
        out.append(b"%o %s\0" % (mode, name) + bytes.fromhex(hexid.decode("ascii")))
    return b"".join(out)


def object_id(kind, body):
    return hashlib.sha1(b"%s %d\0" % (kind, len(body)) + body).hexdigest().encode("ascii")


def parse_raw(body):
    """Raw tree body -> [(name, mode, hexid)] in stored order (20-byte ids)."""
    out = []
    i = 0
    while i < len(body):
        sp = body.index(b" ", i)
        nul = body.index(b"\0", sp)
        mode = int(body[i:sp], 8)
        name = body[sp + 1 : nul]
        raw = body[nul + 1 : nul + 21]
        if len(raw) != 20:
            raise ValueError("short id")
        out.append((name, mode, raw.hex().encode("ascii")))
        i = nul + 21
    return out


class Built:
    __slots__ = ("root", "trees", "order")

    def __init__(self):
        self.root = None
        self.trees = {}  # dir path (b"" for the root) -> (hexid, raw body, entries)
        self.order = []  # dir paths, children before parents


def build(listing):
    """Build every tree object of a consistent listing."""
    b = Built()

    def rec(node, path):
        entries = []
        for name, v in node.items():
            if isinstance(v, dict):
                sub = rec(v, path + b"/" + name if path else name)
                entries.append((name, DIR, sub))
            else:
                entries.append((name, v[0], v[1]))
        entries = canonical_order(entries)
        body = serialize(entries)
        oid = object_id(b"tree", body)
        b.trees[path] = (oid, body, entries)
        b.order.append(path)
        return oid

    b.root = rec(nest(listing), b"")
    return b


def mktree_text(entries):
    """Input for `git mktree` (ls-tree format) for one tree."""
    out = []
    for name, mode, hexid in entries:
        kind = b"tree" if is_dir_mode(mode) else (b"commit" if (mode & IFMT) == 0o160000 else b"blob")
        out.append(b"%06o %s %s\t%s\n" % (mode, kind, hexid, name))
    return b"".join(out)


# --------------------------------------------------------------------------- flat views


def flat(listing):
    """path -> (mode, hexid) for the files of a listing."""
    return {p: (m, s) for p, m, s in listing}


def flat_with_trees(listing, built=None):
    """path -> (mode, hexid) for the files AND the directories (mode 040000, tree id)."""
    built = built or build(listing)
    d = flat(listing)
    for path, (oid, _body, _entries) in built.trees.items():
        if path:
            d[path] = (DIR, oid)
    return d


def ls_tree_r_order(listing):
    """Paths of the files in the order `git ls-tree -r` prints them (tree order, recursively)."""
    out = []

    def rec(node, prefix):
        ents = [(n, DIR if isinstance(v, dict) else v[0], n) for n, v in node.items()]
        for name, mode, _ in canonical_order(ents):
            v = node[name]
            p = prefix + name
            if isinstance(v, dict):
                rec(v, p + b"/")
            else:
                out.append(p)

    rec(nest(listing), b"")
    return out


# --------------------------------------------------------------------------- raw diff


def matches(path, filters, is_tree=False):
    """git pathspec semantics for literal paths: a path matches if it equals a filter or lies
    below it; a *tree* entry additionally matches if a filter lies below it (it leads there)."""
    if filters is None:
        return True
    for f in filters:
        if path == f or path.startswith(f + b"/"):
            return True
        if is_tree and f.startswith(path + b"/"):
            return True
    return False


def _side(entry, path, with_trees, filters):
    """One side of one path as the diff sees it: None if absent, if it is a directory and
    directories are not reported, or if the path filter does not select it.  (A directory is
    selected when a filter equals it, contains it, or lies below it; a non-directory only when a
    filter equals or contains it - so for a file <-> directory change at one path a filter below
    that path selects only the directory side, exactly as `git diff-tree -t -- <path>` does.)"""
    if entry is None:
        return None
    d = is_dir_mode(entry[0])
    if d and not with_trees:
        return None
    if not matches(path, filters, d):
        return None
    return entry


def raw_diff(a, b, with_trees=False, filters=None):
    """a, b: path -> (mode, hexid) maps (flat() or flat_with_trees()).  -> sorted records
    (path, old, new); a file<->directory change at one path is ONE record here (git prints
    it as D + A; see status())."""
    out = []
    for p in sorted(set(a) | set(b)):
        o = a.get(p)
        n = b.get(p)
        if o == n:
            continue
        o = _side(o, p, with_trees, filters)
        n = _side(n, p, with_trees, filters)
        if o is None and n is None:
            continue
        out.append((p, o, n))
    return out


def unchanged(a, b, with_trees=False, filters=None):
    out = []
    for p in sorted(set(a) & set(b)):
        if a[p] != b[p]:
            continue
        if _side(a[p], p, with_trees, filters) is None:
            continue
        out.append((p, a[p], a[p]))
    return out


def status(old, new):
    """Status letters git prints for one path: 'A', 'D', 'M', 'T' (type change between
    non-directories) or 'DA' (file <-> directory: two lines)."""
    if old is None:
        return "A"
    if new is None:
        return "D"
    if (old[0] & IFMT) == (new[0] & IFMT):
        return "M"
    if is_dir_mode(old[0]) or is_dir_mode(new[0]):
        return "DA"
    return "T"


def parse_diff_tree_z(data):
    """Output of `git diff-tree -r --raw -z --stdin` for tree pairs ->
    [((tree1, tree2), [(status, score, old_mode, new_mode, old_id, new_id, path, path2 | None)])]."""
    out = []
    i = 0
    n = len(data)
    cur = None
    while i < n:
        if data[i : i + 1] == b":":
            j = data.index(b"\0", i)
            meta = data[i + 1 : j].split(b" ")
            om, nm, oi, ni, st = meta
            k = data.index(b"\0", j + 1)
            path = data[j + 1 : k]
            letter = st[:1].decode("ascii")
            score = int(st[1:]) if len(st) > 1 else None
            path2 = None
            if letter in ("R", "C"):
                k2 = data.index(b"\0", k + 1)
                path2 = data[k + 1 : k2]
                k = k2
            cur.append((letter, score, int(om, 8), int(nm, 8), oi, ni, path, path2))
            i = k + 1
        else:
            j = data.index(b"\n", i)
            hdr = data[i:j].split(b" ")
            if len(hdr) != 2 or len(hdr[0]) != 40 or len(hdr[1]) != 40:
                raise ValueError("unexpected diff-tree header %r" % data[i:j])
            cur = []
            out.append(((hdr[0], hdr[1]), cur))
            i = j + 1
    return out


def records_from_git(lines):
    """Plain (no-rename) git lines -> ({path: (old, new)}, {path: sorted status letters}).
    D + A on one path (file <-> directory with -t) are merged into one record."""
    rec = {}
    st = {}
    for letter, _score, om, nm, oi, ni, path, _p2 in lines:
        old = None if letter == "A" else (om, oi)
        new = None if letter == "D" else (nm, ni)
        if path in rec:
            po, pn = rec[path]
            if old is not None and po is not None or new is not None and pn is not None:
                raise ValueError("git mentions %r twice on one side" % path)
            rec[path] = (po if old is None else old, pn if new is None else new)
            st[path] = "".join(sorted(st[path] + letter, reverse=True))
        else:
            rec[path] = (old, new)
            st[path] = letter
    return rec, st


# --------------------------------------------------------------------------- patching


def apply_records(flat_a, records):
    """Apply plain records (path, old, new) to a flat map.  Raises ValueError when a record does
    not fit (old side absent / different, new side already there)."""
    d = dict(flat_a)
    for p, o, n in records:
        if o is not None and not is_dir_mode(o[0]):
            if d.get(p) != o:
                raise ValueError("old side of %r is not in the listing" % (p,))
            del d[p]
    for p, o, n in records:
        if n is not None and not is_dir_mode(n[0]):
            if p in d:
                raise ValueError("new side of %r already in the listing" % (p,))
            d[p] = n
    return d
