"""Independent reference model: which tree paths are unsafe to materialise in a work tree.

Written from git's documentation of the checks (git-config(1) core.protectNTFS / core.protectHFS,
git-fsck(1) msg ids hasDot / hasDotdot / hasDotgit / emptyName / fullPathname, the release notes of
git 1.8.5.6-2.2.1 (CVE-2014-9390), 2.24.1 (CVE-2019-1352/1353/1354) and the commentary on
verify_path / is_ntfs_dotgit / is_hfs_dotgit).  Nothing here imports dulwich.

A path is a '/'-separated byte string as obtained by joining the names on the way from the root
tree to the entry with '/'.  unsafe(path, ntfs, hfs) returns None for a path that may be written and
otherwise a short class name:

    always (every platform, every configuration)
      'empty'        the path or one of its components is empty (this covers absolute paths, names
                     that start or end with '/', and '//')
      'dot'          a component is '.'
      'dotdot'       a component is '..'
      'dotgit'       a component is '.git' in any ASCII letter case
    core.protectNTFS (git default: on, on every platform)
      'dotgit-ntfs'  a component, or a backslash-separated segment of it, is '.git' or 'git~1'
                     (any case) followed only by spaces and dots and then the end of the segment
                     or a ':' (alternate data stream).  ('.' / '..' after a backslash are only
                     refused on Windows itself.)
    core.protectHFS (git default: on on macOS)
      'dotgit-hfs'   after deleting the 16 code points HFS+ ignores, the component equals '.git' in
                     any letter case
Not modelled (not unsafe on this platform): DOS drive prefixes ('C:'), reserved device names.
"""

from __future__ import annotations

HFS_IGNORABLE = (
    0x200C, 0x200D, 0x200E, 0x200F, 0x202A, 0x202B, 0x202C, 0x202D, 0x202E,
    0x206A, 0x206B, 0x206C, 0x206D, 0x206E, 0x206F, 0xFEFF,
)
_HFS_BYTES = tuple(chr(c).encode("utf-8") for c in HFS_IGNORABLE)


def _ntfs_dotgit(seg: bytes) -> bool:
    low = seg.lower()
    for head in (b".git", b"git~1"):
        if low.startswith(head):
            rest = seg[len(head):]
            for i in range(len(rest)):
                c = rest[i:i + 1]
                if c == b":":
                    return True
                if c not in (b" ", b"."):
                    break
            else:
                return True
    return False


def _hfs_fold(comp: bytes) -> bytes:
    for seq in _HFS_BYTES:
        comp = comp.replace(seq, b"")
    return comp.lower()


def unsafe_component(comp: bytes, ntfs: bool, hfs: bool):
    if comp == b"":
        return "empty"
    if comp == b".":
        return "dot"
    if comp == b"..":
        return "dotdot"
    if comp.lower() == b".git":
        return "dotgit"
    if ntfs:
        for seg in comp.split(b"\\"):
            if _ntfs_dotgit(seg):
                return "dotgit-ntfs"
    if hfs and _hfs_fold(comp) == b".git":
        return "dotgit-hfs"
    return None


def unsafe(path: bytes, ntfs: bool, hfs: bool):
    if path == b"":
        return "empty"
    for comp in path.split(b"/"):
        why = unsafe_component(comp, ntfs, hfs)
        if why:
            return why
    return None
