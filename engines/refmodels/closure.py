"""Reference object closure for C05 (oracle only; independent of dulwich).

The check builds every history itself, so the object graph is known *by construction*: while the
objects are created the builder records, for every object id, the ids it refers to

    commit -> its tree and its parents
    tree   -> every entry except gitlinks (mode 160000 names a commit of ANOTHER repository; git
              never follows it for reachability, gitglossary(7) "gitlink")
    tag    -> its target (whatever type)
    blob   -> nothing

``edges`` below is that dict.  Nothing here parses an object, looks into a store or calls dulwich.
"""

from __future__ import annotations


def closure(edges, roots, cut=()):
    """All ids reachable from ``roots`` (roots included).  ``cut``: commits whose *parents* are not
    followed (a shallow boundary); their trees still are."""
    seen = set()
    stack = list(roots)
    while stack:
        o = stack.pop()
        if o in seen:
            continue
        seen.add(o)
        kids = edges[o]
        if o in cut:
            kids = kids[:1]  # commit edges are (tree, parent, parent, ...)
        stack.extend(kids)
    return seen


def peel(tag_target, ids):
    """Follow tag -> target until a non-tag is reached; -> list of final ids."""
    out = []
    for o in ids:
        while o in tag_target:
            o = tag_target[o]
        out.append(o)
    return out


def depth_levels(parents, tips, depth):
    """git's --depth=N: commits whose shortest parent-distance from a tip is < N.
    -> (inside, frontier): ``inside`` all such commits, ``frontier`` those at distance N-1 that
    have at least one parent (the commits a correct receiver records as shallow unless it holds
    their parents anyway)."""
    dist = {}
    level = [t for t in dict.fromkeys(tips) if t in parents]
    d = 0
    while level and d < depth:
        nxt = []
        for c in level:
            if c in dist:
                continue
            dist[c] = d
            nxt.extend(parents[c])
        level = nxt
        d += 1
    inside = set(dist)
    frontier = {c for c, k in dist.items() if k == depth - 1 and parents[c]}
    return inside, frontier
