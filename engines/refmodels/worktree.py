"""Independent reference model of the HEAD / index / working-directory triangle.

Written from git-status(1) ("Short Format", "Porcelain Format Version 1", --untracked-files),
git-add(1), git-rm(1), git-restore(1) and gitrepository-layout(5).  Nothing here imports dulwich.

Vocabulary
    tree map   {path: (mode, hexid)}  with mode in {0o100644, 0o100755, 0o120000}; the flat content
               of a tree or of a (conflict-free, stage-0) index
    wd map     {path: ('f', data, executable) | ('l', target) | ('d',)}  — ('d',) only for EMPTY
               directories (non-empty ones are implied by the paths below them).  Computed by
               walk(), the harness's own directory walk.
    paths      bytes, '/'-separated, relative to the work tree root
"""

from __future__ import annotations

import hashlib
import os
import stat
import zlib

REG = 0o100644
EXE = 0o100755
LNK = 0o120000


# --------------------------------------------------------------------------- objects (loose store)


def object_id(kind: bytes, body: bytes) -> bytes:
    return hashlib.sha1(b"%s %d\0" % (kind, len(body)) + body).hexdigest().encode("ascii")


def blob_id(data: bytes) -> bytes:
    return object_id(b"blob", data)


_zcache = {}


def loose_bytes(kind: bytes, body: bytes):
    """(hexid, zlib stream) of a loose object; cached (the 70 000-byte blob is deflated once)."""
    k = (kind, body)
    v = _zcache.get(k)
    if v is None:
        raw = b"%s %d\0" % (kind, len(body)) + body
        v = _zcache[k] = (hashlib.sha1(raw).hexdigest().encode("ascii"), zlib.compress(raw, 1))
    return v


def write_loose(objdir: str, kind: bytes, body: bytes) -> bytes:
    hexid, z = loose_bytes(kind, body)
    h = hexid.decode("ascii")
    d = os.path.join(objdir, h[:2])
    p = os.path.join(d, h[2:])
    if not os.path.exists(p):
        os.makedirs(d, exist_ok=True)
        with open(p, "wb") as f:
            f.write(z)
    return hexid


def commit_body(tree_hex: bytes, msg: bytes = b"m\n") -> bytes:
    who = b"A <a@example.com> 1000000000 +0000"
    return b"tree " + tree_hex + b"\nauthor " + who + b"\ncommitter " + who + b"\n\n" + msg


# --------------------------------------------------------------------------- working directory


def walk(root: bytes, skip=(b".git",)):
    """The harness's own walk: {path: entry}; never follows symlinks; anything that is neither a
    regular file, a symlink nor a directory is reported as ('?', st_mode)."""
    out = {}

    def rec(d, rel):
        names = sorted(os.listdir(d))
        if rel and not names:
            out[rel] = ("d",)
        for n in names:
            if not rel and n in skip:
                continue
            p = os.path.join(d, n)
            r = rel + b"/" + n if rel else n
            st = os.lstat(p)
            if stat.S_ISLNK(st.st_mode):
                out[r] = ("l", os.readlink(p))
            elif stat.S_ISDIR(st.st_mode):
                rec(p, r)
            elif stat.S_ISREG(st.st_mode):
                with open(p, "rb") as f:
                    out[r] = ("f", f.read(), bool(st.st_mode & 0o100))
            else:
                out[r] = ("?", st.st_mode)

    rec(root, b"")
    return out


def wd_of_tree(tree, blobs):
    """The work tree a checkout of `tree` must produce.  blobs: hexid -> data."""
    out = {}
    for p, (mode, h) in tree.items():
        if mode == LNK:
            out[p] = ("l", blobs[h])
        else:
            out[p] = ("f", blobs[h], mode == EXE)
    return out


def entry_of(e):
    """(mode, hexid) a file or symlink in the work tree would be staged as; None for anything else."""
    if e is None:
        return None
    if e[0] == "f":
        return (EXE if e[2] else REG, blob_id(e[1]))
    if e[0] == "l":
        return (LNK, blob_id(e[1]))
    return None


def prefixes(p: bytes):
    parts = p.split(b"/")
    return [b"/".join(parts[:i]) for i in range(1, len(parts))]


def wd_lookup(wd, p: bytes):
    """What `lstat(p)` finds, as git sees it: the file/symlink entry, 'dir' when p is a directory,
    None when p does not exist or a leading component is not a real directory."""
    for q in prefixes(p):
        if q in wd and wd[q][0] != "d":
            return None  # a leading component is a file or a symlink
    e = wd.get(p)
    if e is not None:
        return "dir" if e[0] == "d" else e
    pre = p + b"/"
    for q in wd:
        if q.startswith(pre):
            return "dir"
    return None


def is_dir(wd, p):
    return wd_lookup(wd, p) == "dir"


# --------------------------------------------------------------------------- status


def _xy(old, new):
    """One status letter for the pair (old, new) of (mode, id) | None."""
    if old == new:
        return " "
    if old is None:
        return "A"
    if new is None:
        return "D"
    if (old[0] == LNK) != (new[0] == LNK):
        return "T"
    return "M"


def untracked_all(index, wd):
    return sorted(p for p, e in wd.items() if e[0] in ("f", "l", "?") and p not in index)


def untracked_normal(index, wd):
    """--untracked-files=normal: a directory without any tracked file below it is shown once, as
    'dir/'; empty directories are never shown.  A directory standing where the index has a *file*
    of the same name is not shown at all (wt-status drops names for which the index has an entry
    once the trailing slash is removed) — observed with git 2.39.5, and only in this mode."""
    out = set()
    for p in untracked_all(index, wd):
        shown = p
        for q in prefixes(p):
            pre = q + b"/"
            if not any(n.startswith(pre) for n in index):
                shown = pre
                break
        if shown.endswith(b"/") and shown[:-1] in index:
            continue
        out.add(shown)
    return sorted(out)


def untracked_normal_hidden(index, wd):
    """The directories git's normal mode hides although they hold untracked files (see above).  The
    property statement ("exactly the paths that differ") and git disagree here, so an implementation
    may list them or not."""
    out = set()
    for p in untracked_all(index, wd):
        for q in prefixes(p):
            pre = q + b"/"
            if not any(n.startswith(pre) for n in index):
                if q in index:
                    out.add(pre)
                break
    return sorted(out)


def porcelain(head, index, wd, mode="all"):
    """The set of (XY, path) records `git status --porcelain=v1 -z --no-renames -u<mode>` prints."""
    out = set()
    for p in set(head) | set(index):
        x = _xy(head.get(p), index.get(p))
        y = " "
        if p in index:
            e = wd_lookup(wd, p)
            cur = entry_of(e) if e not in (None, "dir") else None
            y = _xy(index[p], cur)
            if y == "A":
                raise AssertionError("unreachable")
        if x != " " or y != " ":
            out.add((x + y, p))
    unt = untracked_all(index, wd) if mode == "all" else untracked_normal(index, wd)
    for p in unt:
        out.add(("??", p))
    return out


def parse_porcelain_z(data: bytes):
    out = set()
    for rec in data.split(b"\0"):
        if not rec:
            continue
        if len(rec) < 4 or rec[2:3] != b" ":
            raise ValueError("unparseable porcelain record %r" % rec)
        out.add((rec[:2].decode("ascii"), rec[3:]))
    return out


def status_from_porcelain(recs):
    """(staged {'add','delete','modify'}, unstaged, untracked) — the shape dulwich reports."""
    staged = {"add": [], "delete": [], "modify": []}
    unstaged = []
    untracked = []
    for xy, p in sorted(recs, key=lambda t: t[1]):
        if xy == "??":
            untracked.append(p)
            continue
        x, y = xy[0], xy[1]
        if x == "A":
            staged["add"].append(p)
        elif x == "D":
            staged["delete"].append(p)
        elif x in "MT":
            staged["modify"].append(p)
        if y != " ":
            unstaged.append(p)
    return staged, unstaged, untracked


# --------------------------------------------------------------------------- index operations


def m_stage(index, wd, p):
    """git add -- p   (p a file, a symlink, a directory or a path that no longer exists)."""
    new = dict(index)
    e = wd_lookup(wd, p)
    pre = p + b"/"
    if e == "dir":
        # everything below: add/update what exists, drop what is gone
        new.pop(p, None)
        for q in list(new):
            if q.startswith(pre) and wd_lookup(wd, q) in (None, "dir"):
                del new[q]
        for q, we in wd.items():
            if q.startswith(pre) and we[0] in ("f", "l"):
                _put(new, q, entry_of(we))
        return new
    if e is None:
        new.pop(p, None)
        for q in list(new):
            if q.startswith(pre):
                del new[q]
        return new
    _put(new, p, entry_of(e))
    return new


def _put(index, p, ent):
    """Adding a path replaces whatever conflicts with it (file vs directory)."""
    pre = p + b"/"
    for q in list(index):
        if q.startswith(pre):
            del index[q]
    for q in prefixes(p):
        index.pop(q, None)
    index[p] = ent


def m_stage_all(index, wd):
    """git add -A ."""
    new = {}
    for q, we in wd.items():
        if we[0] in ("f", "l"):
            new[q] = entry_of(we)
    return new


def m_unstage(index, head, p):
    """git restore --staged -- p : everything the index has at or below p goes, everything HEAD has at
    or below p comes back (and displaces a file staged where one of its leading directories must be)."""
    pre = p + b"/"
    new = {q: v for q, v in index.items() if q != p and not q.startswith(pre)}
    for q, v in head.items():
        if q == p or q.startswith(pre):
            _put(new, q, v)
    return new


def m_rm_cached(index, p):
    new = dict(index)
    del new[p]
    return new
