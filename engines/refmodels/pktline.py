"""Independent reference codec for git pkt-line framing (Documentation/technical/protocol-common.txt).

    pkt-line  = data-pkt / flush-pkt / delim-pkt
    data-pkt  = pkt-len pkt-payload          ; pkt-len = 4*(HEXDIG), total length incl. the 4 bytes
    flush-pkt = "0000" ; delim-pkt = "0001"
    max total length 65520 (65516 bytes of payload)
"""

MAX_PKT = 65520
MAX_PAYLOAD = 65516
_HEX = b"0123456789abcdefABCDEF"


class _Delim:
    def __repr__(self):
        return "DELIM"


DELIM = _Delim()


def encode(payload):
    if payload is None:
        return b"0000"
    if payload is DELIM:
        return b"0001"
    n = len(payload) + 4
    if n > MAX_PKT:
        raise ValueError("payload too large for one pkt-line")
    return b"%04x" % n + payload


def encode_all(frames):
    return b"".join(encode(f) for f in frames)


def decode_prefixwise(stream: bytes, delim_ok=True):
    """Decode as many complete frames as possible.

    Returns (frames, status): status 'ok' (stream consumed exactly), 'short' (ends inside a
    frame or inside a length prefix), 'bad' (a length prefix is not 4 hex digits / is 2 or 3 /
    is 1 when delim is not accepted).  Frames decoded before the problem are returned."""
    out = []
    i = 0
    n = len(stream)
    while i < n:
        if n - i < 4:
            # a complete-but-invalid prefix cannot be detected yet: short
            return out, "short"
        p = stream[i : i + 4]
        if any(c not in _HEX for c in p):
            return out, "bad"
        ln = int(p, 16)
        if ln == 0:
            out.append(None)
            i += 4
            continue
        if ln == 1 and delim_ok:
            out.append(DELIM)
            i += 4
            continue
        if ln < 4:
            return out, "bad"
        if i + ln > n:
            return out, "short"
        out.append(stream[i + 4 : i + ln])
        i += ln
    return out, "ok"
