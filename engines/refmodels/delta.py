"""Reference model of git's delta format (oracle only; independent of dulwich).

Written from Documentation/gitformat-pack.txt ("Deltified representation"):

    delta   := varint(size of base) varint(size of result) instruction*
    varint  := little-endian base-128, bit 7 = "more bytes follow"
    copy    := 1sssoooo  [offset byte 0..3 as selected by bits 0-3] [size byte 0..2 by bits 4-6]
               size 0 means 0x10000; copies base[offset : offset+size]
    insert  := 0nnnnnnn  (n = 1..127) followed by n literal bytes
    0x00    := reserved

The model is deliberately boring: it parses the instruction list, says for every instruction
whether it is well formed and executable against a base of the given length, and derives from
that (1) the unique result when the delta is entirely valid, (2) the set of outputs a decoder may
return without contradicting the *statement* of C03 ("output whose length equals the size the
delta declares and that consists only of slices of the base and literal inserts"), and (3) stable
feature names used to build narrow violation keys.
"""

from __future__ import annotations

MAX_COPY = 0x10000
# patch-delta.c: "the smallest possible delta size is 4 bytes" — C git refuses anything shorter
# before looking at it (DELTA_SIZE_MIN), although the grammar above allows e.g. 00 00.
GIT_MIN_DELTA = 4


def encode_varint(n: int) -> bytes:
    out = bytearray()
    while True:
        c = n & 0x7F
        n >>= 7
        if n:
            out.append(c | 0x80)
        else:
            out.append(c)
            return bytes(out)


def pad_varint(n: int, length: int) -> bytes:
    """Non-canonical encoding of n in exactly `length` bytes (n must fit in 7*length bits)."""
    assert n < 1 << (7 * length)
    out = bytearray()
    for i in range(length):
        c = (n >> (7 * i)) & 0x7F
        out.append(c | (0x80 if i < length - 1 else 0))
    return bytes(out)


def read_varint(data: bytes, pos: int):
    """-> (value, new position, number of bytes) or None when the varint is cut short."""
    val = 0
    shift = 0
    start = pos
    while True:
        if pos >= len(data):
            return None
        c = data[pos]
        pos += 1
        val |= (c & 0x7F) << shift
        shift += 7
        if not c & 0x80:
            return val, pos, pos - start


class Op:
    __slots__ = ("kind", "pos", "end", "off", "size", "data", "problem", "cmd")

    def __init__(self, kind, pos, end, cmd, off=0, size=0, data=b"", problem=None):
        self.kind = kind  # "copy" | "insert" | "zero"
        self.pos = pos
        self.end = end
        self.cmd = cmd
        self.off = off
        self.size = size
        self.data = data
        self.problem = problem  # None or a stable name

    def __repr__(self):
        if self.kind == "copy":
            return "copy(%#x: off=%d size=%d%s)" % (self.cmd, self.off, self.size, " !" + self.problem if self.problem else "")
        if self.kind == "insert":
            return "insert(%d%s)" % (self.size, " !" + self.problem if self.problem else "")
        return "zero"


class Analysis:
    """Everything the oracle needs to know about (len(base), delta)."""

    def __init__(self, base_len: int, delta: bytes):
        self.base_len = base_len
        self.delta = delta
        self.header_ok = False
        self.src = self.dest = None
        self.src_bytes = self.dest_bytes = 0
        self.ops: list[Op] = []
        self._parse()

    def _parse(self):
        d = self.delta
        r = read_varint(d, 0)
        if r is None:
            self.src_bytes = len(d)
            return
        self.src, pos, self.src_bytes = r
        r = read_varint(d, pos)
        if r is None:
            self.dest_bytes = len(d) - pos
            return
        self.dest, pos, self.dest_bytes = r
        self.header_ok = True
        n = len(d)
        while pos < n:
            start = pos
            cmd = d[pos]
            pos += 1
            if cmd & 0x80:
                off = size = 0
                cut = False
                for i in range(4):
                    if cmd & (1 << i):
                        if pos >= n:
                            cut = True
                            break
                        off |= d[pos] << (8 * i)
                        pos += 1
                if not cut:
                    for i in range(3):
                        if cmd & (0x10 << i):
                            if pos >= n:
                                cut = True
                                break
                            size |= d[pos] << (8 * i)
                            pos += 1
                if cut:
                    self.ops.append(Op("copy", start, n, cmd, problem="copy-truncated"))
                    return
                if size == 0:
                    size = MAX_COPY
                problem = None
                if off + size > self.base_len:
                    problem = "copy-beyond-base"
                self.ops.append(Op("copy", start, pos, cmd, off=off, size=size, problem=problem))
            elif cmd:
                if pos + cmd > n:
                    self.ops.append(Op("insert", start, n, cmd, size=cmd, data=d[pos:], problem="insert-truncated"))
                    return
                self.ops.append(Op("insert", start, pos + cmd, cmd, size=cmd, data=d[pos:pos + cmd]))
                pos += cmd
            else:
                self.ops.append(Op("zero", start, pos, 0, problem="opcode-zero"))
                # what follows a reserved opcode has no defined meaning; keep parsing for the trace only

    # ------------------------------------------------------------------ derived facts

    def first_problem(self):
        """(index, Op) of the first instruction that cannot be executed as written, taking the
        declared result size into account; None when every instruction is executable and the sizes
        add up."""
        if not self.header_ok:
            return (-1, None)
        produced = 0
        for k, op in enumerate(self.ops):
            if op.problem:
                return (k, op)
            if produced + op.size > self.dest:
                return (k, op)
            produced += op.size
        return None

    def valid(self):
        """Entirely valid in git's sense: header complete, declared base size matches, every
        instruction executable, the results add up to the declared size exactly."""
        if not self.header_ok or self.src != self.base_len:
            return False
        if any(op.problem for op in self.ops):
            return False
        return sum(op.size for op in self.ops) == self.dest

    def result(self, base: bytes) -> bytes:
        assert self.valid()
        return b"".join(base[op.off:op.off + op.size] if op.kind == "copy" else op.data for op in self.ops)

    def admissible_output(self, base: bytes):
        """The only byte string a decoder may *return* for this input without contradicting the
        statement: the concatenation of the results of a prefix of executable instructions whose
        total length is exactly the declared size.  None when no such prefix exists (then the
        decoder has to fail)."""
        if not self.header_ok:
            return None
        out = []
        total = 0
        if total == self.dest:
            return b""
        for op in self.ops:
            if op.problem:
                return None
            out.append(base[op.off:op.off + op.size] if op.kind == "copy" else op.data)
            total += op.size
            if total == self.dest:
                return b"".join(out)
            if total > self.dest:
                return None
        return None

    def prefix_ops_used(self):
        """Number of instructions that make up admissible_output (for classification)."""
        total = 0
        if self.dest == 0:
            return 0
        for k, op in enumerate(self.ops):
            total += op.size
            if total == self.dest:
                return k + 1
        return None

    def features(self):
        """Stable names describing what is unusual about this delta (most specific first).
        Used in violation keys, never in verdicts."""
        f = []
        if max(self.src_bytes, self.dest_bytes) >= 11:
            f.append("size-varint>=11-bytes")
        elif max(self.src_bytes, self.dest_bytes) == 10:
            f.append("size-varint-10-bytes")
        if not self.header_ok:
            f.append("header-truncated")
            return f
        if self.dest >= 1 << 64:
            f.append("declared-size>=2^64")
        elif self.dest >= 1 << 63:
            f.append("declared-size>=2^63")
        elif self.dest >= 1 << 26:
            f.append("declared-size>=64MiB")
        if self.src != self.base_len:
            f.append("base-size-mismatch")
        fp = self.first_problem()
        if fp is not None and fp[1] is not None:
            k, op = fp
            name = op.problem
            if name is None:
                name = "%s-overflows-declared-size" % op.kind
                if op.size > self.dest:
                    name = "%s-larger-than-declared-size" % op.kind
            last = "last" if k == len(self.ops) - 1 else "inner"
            f.append("%s-%s-op" % (name, last))
        elif fp is None and sum(op.size for op in self.ops) < self.dest:
            f.append("result-shorter-than-declared")
        total = sum(op.size for op in self.ops if not op.problem)
        if total > self.dest and total > 4 * (self.base_len + len(self.delta)) + (1 << 20):
            f.append("copies-exceed-declared-size")
        return f or ["plain"]


def analyse(base_len: int, delta: bytes) -> Analysis:
    return Analysis(base_len, delta)


def decode(base: bytes, delta: bytes):
    """Strict reference decode: bytes, or None if the delta is not entirely valid."""
    a = Analysis(len(base), delta)
    return a.result(base) if a.valid() else None
