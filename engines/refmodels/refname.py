"""Independent transcription of the rules of git-check-ref-format(1) (no --allow-onelevel, no
--refspec-pattern, no --normalize), numbered as in the manual page."""


def why(name: bytes):
    """None if valid, else the first rule (manual numbering) the name breaks."""
    comps = name.split(b"/")
    # 1. no slash-separated component can begin with a dot or end with the sequence .lock
    for c in comps:
        if c.startswith(b"."):
            return "1:component-begins-with-dot"
        if c.endswith(b".lock"):
            return "1:component-ends-with-.lock"
    # 2. must contain at least one /
    if b"/" not in name:
        return "2:no-slash"
    # 3. cannot have two consecutive dots anywhere
    if b".." in name:
        return "3:dotdot"
    # 4. no ASCII control characters (< 0x20 or 0x7f), space, tilde, caret, colon anywhere
    for ch in name:
        if ch < 0x20 or ch == 0x7F or ch in b" ~^:":
            return "4:control-space-tilde-caret-colon"
    # 5. no question-mark, asterisk, open bracket anywhere
    for ch in name:
        if ch in b"?*[":
            return "5:glob-character"
    # 6. cannot begin or end with a slash or contain multiple consecutive slashes
    if name.startswith(b"/") or name.endswith(b"/") or b"//" in name:
        return "6:slash-at-end-or-doubled"
    # 7. cannot end with a dot
    if name.endswith(b"."):
        return "7:ends-with-dot"
    # 8. cannot contain a sequence @{
    if b"@{" in name:
        return "8:at-brace"
    # 9. cannot be the single character @
    if name == b"@":
        return "9:single-at"
    # 10. cannot contain a backslash
    if b"\\" in name:
        return "10:backslash"
    return None


def valid(name: bytes) -> bool:
    return why(name) is None
