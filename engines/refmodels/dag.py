"""Reference model for commit-graph questions: brute force on an explicit DAG.

Deliberately boring: everything is derived from the reflexive-transitive closure, computed by
repeated relaxation until nothing changes (no reliance on node numbering, no priority queue,
no timestamps).  A DAG is a sequence ``P`` where ``P[i]`` is the collection of parents of node
``i``.  Sets are returned as ``frozenset`` of node numbers.

    closure(P)                     -> list of frozensets: anc*(i) (i itself included)
    reachable(C, S)                -> union of anc*(s) for s in S
    is_ancestor(C, a, b)           -> a in anc*(b)            (git merge-base --is-ancestor a b)
    maximal(C, S)                  -> elements of S that are not a proper ancestor of another
    merge_bases(C, a, others)      -> maximal(anc*(a) & U anc*(o))       (git merge-base --all a o1 o2 ..)
    octopus_bases(C, S)            -> maximal(intersection of anc*(s))   (git merge-base --octopus --all)
    independent(C, S)              -> members of S not reachable from another member
                                                                          (git merge-base --independent)
    clock_class(P, t)              -> 'strict' | 'ties' | 'skew' (timestamps along the edges)
    topo_ok(P, seq)                -> no parent listed before one of its children
"""

from __future__ import annotations


def closure(P):
    n = len(P)
    anc = [{i} for i in range(n)]
    changed = True
    while changed:
        changed = False
        for i in range(n):
            for p in P[i]:
                new = anc[p] - anc[i]
                if new:
                    anc[i] |= new
                    changed = True
    return [frozenset(a) for a in anc]


def reachable(C, S):
    out = set()
    for s in S:
        out |= C[s]
    return frozenset(out)


def is_ancestor(C, a, b):
    """True iff a is b or an ancestor of b."""
    return a in C[b]


def maximal(C, S):
    """Elements x of S such that no other y in S has x among its ancestors."""
    S = set(S)
    return frozenset(x for x in S if not any(y != x and x in C[y] for y in S))


def merge_bases(C, a, others):
    """Best common ancestors of ``a`` and the hypothetical merge of ``others``."""
    if not others:
        return frozenset([a])
    return maximal(C, C[a] & reachable(C, others))


def octopus_bases(C, S):
    """Best common ancestors of *all* members of S."""
    S = list(S)
    if not S:
        return frozenset()
    common = set(C[S[0]])
    for s in S[1:]:
        common &= C[s]
    return maximal(C, common)


def independent(C, S):
    """Members of S that cannot be reached from any other member of S."""
    S = set(S)
    return frozenset(x for x in S if not any(y != x and x in C[y] for y in S))


def clock_class(P, t):
    """'strict' if every parent is strictly older than its child, 'ties' if never newer but
    somewhere equal, 'skew' if some parent is newer than its child."""
    cls = "strict"
    for i, ps in enumerate(P):
        for p in ps:
            if t[p] > t[i]:
                return "skew"
            if t[p] == t[i]:
                cls = "ties"
    return cls


def topo_ok(P, seq):
    """True iff in ``seq`` (a list of nodes) no node appears after one of its parents that is
    also in ``seq``... i.e. never a parent before its child."""
    pos = {}
    for k, x in enumerate(seq):
        pos.setdefault(x, k)
    for c in pos:
        for p in P[c]:
            if p in pos and pos[p] < pos[c]:
                return False
    return True
