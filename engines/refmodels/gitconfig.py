"""Independent reference for git's configuration file format.

Written from git-config(1), section "CONFIGURATION FILE / Syntax", as implemented by git 2.39:

* a file is a sequence of lines; CR LF counts as LF; end of file ends the last line
* `#` or `;` outside a quoted value starts a comment that runs to the end of the line
* `[section]`, `[section "subsection"]`; section characters: alphanumerics, `-`, `.`, case-insensitive;
  inside the quoted subsection `\\x` stands for `x` (so `\\"` and `\\\\` are the way to write `"` and `\\`),
  a newline is not allowed, everything else is verbatim and case-sensitive; the old `[section.subsection]`
  form lower-cases everything
* `name = value` / `name` (no value: boolean true); names: alphanumerics and `-`, first an alphabetic
  character, case-insensitive
* value: leading and trailing whitespace (SP, TAB, CR) is dropped; inside the value, unquoted whitespace
  characters each become one SP (git 2.39; later versions keep them verbatim); double quotes switch
  quoting on and off and are not part of the value; `\\n` `\\t` `\\b` `\\"` `\\\\` are the only escapes,
  backslash-newline continues the value on the next line, any other backslash sequence makes the
  line invalid; an unterminated quote makes the line invalid

and the writer of `git config <name> <value>`:

* `[section]` / `[section "subsection"]` with `"` and `\\` of the subsection backslash-escaped
* TAB name SP = SP value LF; the value is wrapped in double quotes when it begins or ends with SP or
  contains `;`, `#` or CR (CR since the fix for CVE-2025-48384, which Debian's 2.39.5 carries);
  LF -> `\\n`, TAB -> `\\t`, `"` -> `\\"`, `\\` -> `\\\\`, everything else verbatim.

Only used as an oracle; C git is run on the same files and must agree (HarnessError otherwise).
"""

BOM = b"\xef\xbb\xbf"
LF = 0x0A
CR = 0x0D
_SPACE = (0x20, 0x09, 0x0A, 0x0D)  # what git treats as whitespace
_ALPHA = frozenset(b"abcdefghijklmnopqrstuvwxyzABCDEFGHIJKLMNOPQRSTUVWXYZ")
_KEYCHAR = _ALPHA | frozenset(b"0123456789-")
_ESC = {ord("n"): 0x0A, ord("t"): 0x09, ord("b"): 0x08, ord('"'): ord('"'), ord("\\"): ord("\\")}


class BadConfig(Exception):
    """The file is not a valid configuration file; .reason is a stable short class."""

    def __init__(self, reason):
        Exception.__init__(self, reason)
        self.reason = reason


def _lower(c):
    return c + 32 if 0x41 <= c <= 0x5A else c


class _Src:
    def __init__(self, data):
        if data.startswith(BOM):
            data = data[len(BOM):]
        self.d = data
        self.i = 0
        self.eof = False

    def next(self):
        d = self.d
        if self.i >= len(d):
            self.eof = True
            return LF
        c = d[self.i]
        self.i += 1
        if c == CR and self.i < len(d) and d[self.i] == LF:
            self.i += 1
            c = LF
        return c


def _value(src):
    out = bytearray()
    quote = False
    comment = False
    space = 0
    while True:
        c = src.next()
        if c == LF:
            if quote:
                raise BadConfig("unterminated-quote")
            return bytes(out)
        if comment:
            continue
        if c in _SPACE and not quote:
            if out:
                space += 1
            continue
        if not quote and c in (ord(";"), ord("#")):
            comment = True
            continue
        if space:
            out += b" " * space
            space = 0
        if c == ord("\\"):
            c = src.next()
            if c == LF:
                continue  # continuation line (at end of file the next read ends the value)
            if c not in _ESC:
                raise BadConfig("unknown-escape-%s" % (chr(c) if chr(c).isalnum() and c < 0x80 else byte_name(c)))
            out.append(_ESC[c])
            continue
        if c == ord('"'):
            quote = not quote
            continue
        out.append(c)


def _header(src):
    """After '['.  Returns the flat section prefix (without trailing dot)."""
    name = bytearray()
    while True:
        c = src.next()
        if src.eof:
            raise BadConfig("header-eof")
        if c == ord("]"):
            if not name:
                raise BadConfig("header-empty")
            return bytes(name)
        if c in _SPACE:
            break
        if c not in _KEYCHAR and c != ord("."):
            raise BadConfig("header-bad-section-char")
        name.append(_lower(c))
    # extended form: whitespace, then "subsection"]
    while True:
        if c == LF:
            raise BadConfig("header-newline")
        c = src.next()
        if c not in _SPACE:
            break
    if c != ord('"'):
        raise BadConfig("header-subsection-not-quoted")
    name.append(ord("."))
    while True:
        c = src.next()
        if c == LF:
            raise BadConfig("header-newline")
        if c == ord('"'):
            break
        if c == ord("\\"):
            c = src.next()
            if c == LF:
                raise BadConfig("header-newline")
        name.append(c)
    if src.next() != ord("]"):
        raise BadConfig("header-garbage-after-subsection")
    return bytes(name)


def parse(data: bytes):
    """-> [(flat_name, value_or_None)] in file order, as `git config --list` reports them.

    flat_name = lower(section) ['.' subsection] '.' lower(name).  Raises BadConfig."""
    src = _Src(data)
    out = []
    prefix = b""
    comment = False
    while True:
        c = src.next()
        if c == LF:
            if src.eof:
                return out
            comment = False
            continue
        if comment or c in _SPACE:
            continue
        if c in (ord("#"), ord(";")):
            comment = True
            continue
        if c == ord("["):
            prefix = _header(src) + b"."
            continue
        if c not in _ALPHA:
            raise BadConfig("bad-variable-start")
        name = bytearray([_lower(c)])
        while True:
            c = src.next()
            if src.eof or c not in _KEYCHAR:
                break
            name.append(_lower(c))
        while c in (0x20, 0x09):
            c = src.next()
        if c == LF:
            out.append((prefix + bytes(name), None))
            continue
        if c != ord("="):
            raise BadConfig("bad-variable-line")
        out.append((prefix + bytes(name), _value(src)))


# ------------------------------------------------------------------------------ names


def valid_section(name: bytes) -> bool:
    """Section name accepted by `git config <section>.<name>` (no dots: a dot starts the subsection)."""
    return len(name) > 0 and all(c in _KEYCHAR for c in name)


def valid_header_section(name: bytes) -> bool:
    """Section name accepted inside `[...]` in a file (dots allowed: deprecated subsection form)."""
    return all(c in _KEYCHAR or c == ord(".") for c in name)


def valid_subsection(name: bytes) -> bool:
    return b"\n" not in name and b"\0" not in name


def valid_key(name: bytes) -> bool:
    return len(name) > 0 and name[0] in _ALPHA and all(c in _KEYCHAR for c in name)


def flat(section: bytes, subsection, key: bytes) -> bytes:
    """Canonical variable name the way git reports it."""
    if subsection is None:
        return section.lower() + b"." + key.lower()
    return section.lower() + b"." + subsection + b"." + key.lower()


# ------------------------------------------------------------------------------ writer


def format_value(value: bytes) -> bytes:
    q = b""
    if value[:1] == b" " or value[-1:] == b" " or b";" in value or b"#" in value or b"\r" in value:
        q = b'"'
    body = (
        value.replace(b"\\", b"\\\\").replace(b'"', b'\\"').replace(b"\n", b"\\n").replace(b"\t", b"\\t")
    )
    return q + body + q


def format_header(section: bytes, subsection) -> bytes:
    if subsection is None:
        return b"[" + section + b"]\n"
    return b"[" + section + b' "' + subsection.replace(b"\\", b"\\\\").replace(b'"', b'\\"') + b'"]\n'


def format_new_file(section: bytes, subsection, key: bytes, value: bytes) -> bytes:
    """What `git config --file F <name> <value>` writes into a new file."""
    return format_header(section, subsection) + b"\t" + key + b" = " + format_value(value) + b"\n"


# ------------------------------------------------------------------------------ naming of bytes

_NAMES = {
    0x20: "SP", 0x09: "TAB", 0x0A: "LF", 0x0D: "CR", 0x0B: "VT", 0x0C: "FF", 0x08: "BS",
    ord('"'): "DQUOTE", ord("\\"): "BACKSLASH", ord("#"): "HASH", ord(";"): "SEMICOLON",
    ord("]"): "RBRACKET", ord("["): "LBRACKET", ord("="): "EQUALS", ord("."): "DOT", 0x00: "NUL",
}


def byte_name(c: int) -> str:
    if c in _NAMES:
        return _NAMES[c]
    if c < 0x20 or c == 0x7F:
        return "CTRL"
    if c >= 0x80:
        return "HIGH"
    if chr(c).isalpha():
        return "LETTER"
    if chr(c).isdigit():
        return "DIGIT"
    return "PUNCT"
