"""Reference model of git pack files and pack index files (oracle only; independent of dulwich).

Written from gitformat-pack(5) (Documentation/gitformat-pack.txt of git 2.39):

  pack     := "PACK" u32(version = 2|3) u32(count) entry{count} trailer
  entry    := header [ofs-varint | base-name] zlib-stream
  header   := first byte: MSB = "more", 3 bits type, 4 bits size0; then 7 bits per byte, least
              significant group first ("size encoding" with a 4-bit first group)
  types    := 1 commit 2 tree 3 blob 4 tag 6 ofs-delta 7 ref-delta   (0 invalid, 5 reserved)
  ofs      := "offset encoding": big-endian base-128, MSB = "more", and for n >= 2 bytes the value
              2^7 + 2^14 + .. + 2^(7(n-1)) is added; a negative offset from the delta entry's
              first header byte
  delta    := size-encoding(base size) size-encoding(result size) instruction*
              copy   1sssoooo [offset1..4 by bits 0-3] [size1..3 by bits 4-6], size 0 => 0x10000
              insert 0nnnnnnn (n = 1..127) n literal bytes;  0x00 reserved
  trailer  := hash of everything before it (20 bytes SHA-1, 32 bytes SHA-256)

  idx v1   := fanout[256] (u32 each) { u32 offset, name }{N sorted by name} pack-checksum idx-checksum
  idx v2   := "\\377tOc" u32(2) fanout[256] name{N} u32 crc32{N} u32 ofs32{N} u64 ofs64{L}
              pack-checksum idx-checksum; an ofs32 with the msbit set is an index into ofs64
  CRC32    := of the packed object data = every byte of the entry (header, base reference, deflated
              payload)

idx "version 3" is NOT a git format (git 2.39.5 knows v1 and v2 only; the v3 sketched in
hash-function-transition.txt is a different, multi-hash layout).  dulwich defines its own:
  "\\377tOc" u32(3) u32(hash id 1|2) u32(shortened oid length) + the v2 tables.
parse_idx() decodes it from that definition (dulwich/pack.py write_pack_index_v3 docstring/reader
header) so that round trip and internal consistency can be checked; there is no second oracle.

The model is deliberately boring: everything is parsed eagerly into plain tuples, every
consistency rule is a separate named problem (stable strings used in violation keys).
"""

from __future__ import annotations

import hashlib
import struct
import zlib
from collections import namedtuple

OBJ_COMMIT, OBJ_TREE, OBJ_BLOB, OBJ_TAG, OFS_DELTA, REF_DELTA = 1, 2, 3, 4, 6, 7
TYPE_NAMES = {1: b"commit", 2: b"tree", 3: b"blob", 4: b"tag"}
TYPE_NUMS = {v: k for k, v in TYPE_NAMES.items()}
IDX_MAGIC = b"\xfftOc"
MAX_COPY = 0x10000

HASHES = {"sha1": (hashlib.sha1, 20), "sha256": (hashlib.sha256, 32)}


class FormatError(ValueError):
    """The artefact violates the format; .code is a stable short name."""

    def __init__(self, code, detail=""):
        super().__init__("%s%s" % (code, (": " + detail) if detail else ""))
        self.code = code
        self.detail = detail


def hasher(hash_name):
    return HASHES[hash_name][0]


def hash_len(hash_name):
    return HASHES[hash_name][1]


def object_name(type_num: int, data: bytes, hash_name="sha1") -> bytes:
    h = hasher(hash_name)()
    h.update(TYPE_NAMES[type_num] + b" %d\x00" % len(data))
    h.update(data)
    return h.digest()


# --------------------------------------------------------------------------- varints


def encode_entry_header(type_num: int, size: int) -> bytes:
    c = (type_num << 4) | (size & 0x0F)
    size >>= 4
    out = bytearray()
    while size:
        out.append(c | 0x80)
        c = size & 0x7F
        size >>= 7
    out.append(c)
    return bytes(out)


def entry_header_len(size: int) -> int:
    """Number of header bytes of the canonical (shortest) encoding of `size`."""
    n = 1
    size >>= 4
    while size:
        n += 1
        size >>= 7
    return n


def encode_ofs(distance: int) -> bytes:
    assert distance > 0
    buf = [distance & 0x7F]
    distance >>= 7
    while distance:
        distance -= 1
        buf.insert(0, 0x80 | (distance & 0x7F))
        distance >>= 7
    return bytes(buf)


def ofs_len(distance: int) -> int:
    return len(encode_ofs(distance))


def encode_size(n: int) -> bytes:
    out = bytearray()
    while True:
        c = n & 0x7F
        n >>= 7
        if n:
            out.append(c | 0x80)
        else:
            out.append(c)
            return bytes(out)


# --------------------------------------------------------------------------- delta


def apply_delta(base: bytes, delta: bytes) -> bytes:
    """Strict decoder for well-formed deltas (raises FormatError otherwise)."""
    pos = 0

    def size():
        nonlocal pos
        v = shift = 0
        while True:
            if pos >= len(delta):
                raise FormatError("delta-truncated-size")
            c = delta[pos]
            pos += 1
            v |= (c & 0x7F) << shift
            shift += 7
            if not c & 0x80:
                return v

    src = size()
    dst = size()
    if src != len(base):
        raise FormatError("delta-base-size-mismatch", "%d != %d" % (src, len(base)))
    out = bytearray()
    while pos < len(delta):
        c = delta[pos]
        pos += 1
        if c & 0x80:
            off = sz = 0
            for i in range(4):
                if c & (1 << i):
                    if pos >= len(delta):
                        raise FormatError("delta-truncated-copy")
                    off |= delta[pos] << (8 * i)
                    pos += 1
            for i in range(3):
                if c & (0x10 << i):
                    if pos >= len(delta):
                        raise FormatError("delta-truncated-copy")
                    sz |= delta[pos] << (8 * i)
                    pos += 1
            if sz == 0:
                sz = MAX_COPY
            if off + sz > len(base):
                raise FormatError("delta-copy-out-of-range")
            out += base[off:off + sz]
        elif c:
            if pos + c > len(delta):
                raise FormatError("delta-truncated-insert")
            out += delta[pos:pos + c]
            pos += c
        else:
            raise FormatError("delta-opcode-0")
    if len(out) != dst:
        raise FormatError("delta-result-size-mismatch", "%d != %d" % (len(out), dst))
    return bytes(out)


def delta_ops(delta: bytes):
    """[(kind, offset, size)] of a well-formed delta (for the vacuity guard: which copy sizes occur)."""
    pos = 0
    for _ in range(2):
        while delta[pos] & 0x80:
            pos += 1
        pos += 1
    ops = []
    while pos < len(delta):
        c = delta[pos]
        pos += 1
        if c & 0x80:
            off = sz = 0
            for i in range(4):
                if c & (1 << i):
                    off |= delta[pos] << (8 * i)
                    pos += 1
            for i in range(3):
                if c & (0x10 << i):
                    sz |= delta[pos] << (8 * i)
                    pos += 1
            ops.append(("copy", off, sz or MAX_COPY))
        else:
            ops.append(("insert", 0, c))
            pos += c
    return ops


def make_delta(base: bytes, target: bytes) -> bytes:
    """A simple valid delta: longest common prefix and suffix are copied, the middle is inserted."""
    p = 0
    m = min(len(base), len(target))
    while p < m and base[p] == target[p]:
        p += 1
    s = 0
    while s < m - p and base[len(base) - 1 - s] == target[len(target) - 1 - s]:
        s += 1
    out = bytearray(encode_size(len(base)) + encode_size(len(target)))

    def copy(off, n):
        while n:
            k = min(n, MAX_COPY)
            op = bytearray([0x80])
            for i in range(4):
                b = (off >> (8 * i)) & 0xFF
                if b:
                    op[0] |= 1 << i
                    op.append(b)
            kk = 0 if k == MAX_COPY else k
            for i in range(3):
                b = (kk >> (8 * i)) & 0xFF
                if b:
                    op[0] |= 0x10 << i
                    op.append(b)
            out.extend(op)
            off += k
            n -= k

    copy(0, p)
    mid = target[p:len(target) - s]
    for i in range(0, len(mid), 127):
        ch = mid[i:i + 127]
        out.append(len(ch))
        out += ch
    copy(len(base) - s, s)
    return bytes(out)


# --------------------------------------------------------------------------- pack parsing

Entry = namedtuple(
    "Entry",
    "offset end type size header_len canonical_header base_offset base_name ofs_len payload crc32 zlen",
)
Resolved = namedtuple("Resolved", "offset name type data depth kind base_offset")
PackInfo = namedtuple("PackInfo", "version count entries trailer hash_name size")


def _inflate(buf: bytes, pos: int, limit: int):
    """Inflate one zlib stream starting at buf[pos]; -> (data, end position)."""
    z = zlib.decompressobj()
    out = []
    p = pos
    while not z.eof:
        if p >= limit:
            raise FormatError("zlib-truncated", "stream starting at %d" % pos)
        chunk = buf[p:min(p + 65536, limit)]
        try:
            out.append(z.decompress(chunk))
        except zlib.error as e:
            raise FormatError("zlib-error", "at %d: %s" % (pos, e))
        p += len(chunk)
    return b"".join(out), p - len(z.unused_data)


def parse_pack(data: bytes, hash_name="sha1") -> PackInfo:
    hl = hash_len(hash_name)
    if len(data) < 12 + hl:
        raise FormatError("pack-too-short", "%d bytes" % len(data))
    if data[:4] != b"PACK":
        raise FormatError("pack-bad-signature", repr(data[:4]))
    version, count = struct.unpack(">LL", data[4:12])
    if version not in (2, 3):
        raise FormatError("pack-bad-version", str(version))
    body_end = len(data) - hl
    trailer = data[body_end:]
    if hasher(hash_name)(data[:body_end]).digest() != trailer:
        raise FormatError("pack-trailer-mismatch")
    pos = 12
    entries = []
    for k in range(count):
        start = pos
        if pos >= body_end:
            raise FormatError("pack-fewer-entries-than-declared", "%d of %d" % (k, count))
        c = data[pos]
        pos += 1
        type_num = (c >> 4) & 7
        size = c & 0x0F
        shift = 4
        while c & 0x80:
            if pos >= body_end:
                raise FormatError("entry-header-truncated", "at %d" % start)
            c = data[pos]
            pos += 1
            size |= (c & 0x7F) << shift
            shift += 7
        header_len = pos - start
        if type_num not in (1, 2, 3, 4, 6, 7):
            raise FormatError("entry-bad-type", "type %d at %d" % (type_num, start))
        base_offset = base_name = None
        olen = 0
        if type_num == OFS_DELTA:
            p0 = pos
            c = data[pos]
            pos += 1
            ofs = c & 0x7F
            while c & 0x80:
                if pos >= body_end:
                    raise FormatError("entry-ofs-truncated", "at %d" % start)
                c = data[pos]
                pos += 1
                ofs = ((ofs + 1) << 7) | (c & 0x7F)
            olen = pos - p0
            if ofs <= 0 or ofs > start - 12:
                raise FormatError("entry-ofs-out-of-range", "entry %d distance %d" % (start, ofs))
            base_offset = start - ofs
        elif type_num == REF_DELTA:
            base_name = data[pos:pos + hl]
            pos += hl
            if len(base_name) != hl:
                raise FormatError("entry-ref-truncated", "at %d" % start)
        payload, end = _inflate(data, pos, body_end)
        if len(payload) != size:
            raise FormatError("entry-size-mismatch", "entry %d declares %d, inflates to %d" % (start, size, len(payload)))
        entries.append(
            Entry(start, end, type_num, size, header_len, header_len == entry_header_len(size), base_offset,
                  base_name, olen, payload, zlib.crc32(data[start:end]) & 0xFFFFFFFF, end - pos)
        )
        pos = end
    if pos != body_end:
        raise FormatError("pack-garbage-after-last-entry", "%d byte(s)" % (body_end - pos))
    return PackInfo(version, count, entries, trailer, hash_name, len(data))


def resolve_pack(info: PackInfo, external=None):
    """Resolve every entry to (name, type, data).  external: {name: (type_num, data)} for thin
    packs.  Returns a list of Resolved in pack order.  Delta bases may appear anywhere in the pack
    (REF_DELTA) or earlier (OFS_DELTA)."""
    external = external or {}
    by_offset = {e.offset: e for e in info.entries}
    done = {}  # offset -> Resolved
    by_name = {}
    pending = [e for e in info.entries]
    # full objects first
    for e in info.entries:
        if e.type in TYPE_NAMES:
            r = Resolved(e.offset, object_name(e.type, e.payload, info.hash_name), e.type, e.payload, 0, "full", None)
            done[e.offset] = r
            by_name.setdefault(r.name, r)
    pending = [e for e in info.entries if e.offset not in done]
    while pending:
        progressed = False
        rest = []
        for e in pending:
            base = None
            if e.type == OFS_DELTA:
                if e.base_offset not in by_offset:
                    raise FormatError("ofs-base-not-an-entry-start", "entry %d -> %d" % (e.offset, e.base_offset))
                base = done.get(e.base_offset)
                kind = "ofs"
            else:
                base = by_name.get(e.base_name)
                kind = "ref"
                if base is None and e.base_name in external:
                    t, d = external[e.base_name]
                    base = Resolved(None, e.base_name, t, d, 0, "external", None)
            if base is None:
                rest.append(e)
                continue
            data = apply_delta(base.data, e.payload)
            r = Resolved(e.offset, object_name(base.type, data, info.hash_name), base.type, data, base.depth + 1, kind,
                         base.offset)
            done[e.offset] = r
            by_name.setdefault(r.name, r)
            progressed = True
        if not progressed:
            raise FormatError("delta-base-unresolvable", "%d entr(ies), first at %d" % (len(rest), rest[0].offset))
        pending = rest
    return [done[e.offset] for e in info.entries]


# --------------------------------------------------------------------------- pack writing (reference)


class PackWriter:
    """Builds a version-2 pack from full objects and deltas; all choices explicit."""

    def __init__(self, hash_name="sha1", level=6):
        self.hash_name = hash_name
        self.level = level
        self.chunks = []
        self.pos = 12
        self.offsets = []

    def _add(self, raw: bytes) -> int:
        off = self.pos
        self.chunks.append(raw)
        self.pos += len(raw)
        self.offsets.append(off)
        return off

    def add_full(self, type_num, data):
        return self._add(encode_entry_header(type_num, len(data)) + zlib.compress(data, self.level))

    def add_ofs(self, base_offset, delta):
        return self._add(encode_entry_header(OFS_DELTA, len(delta)) + encode_ofs(self.pos - base_offset)
                         + zlib.compress(delta, self.level))

    def add_ref(self, base_name, delta):
        assert len(base_name) == hash_len(self.hash_name)
        return self._add(encode_entry_header(REF_DELTA, len(delta)) + base_name + zlib.compress(delta, self.level))

    def finish(self, count=None) -> bytes:
        body = b"PACK" + struct.pack(">LL", 2, len(self.offsets) if count is None else count) + b"".join(self.chunks)
        return body + hasher(self.hash_name)(body).digest()


# --------------------------------------------------------------------------- idx

IdxInfo = namedtuple("IdxInfo", "version hash_name fanout entries pack_checksum idx_checksum large_table problems size")


def parse_idx(data: bytes, hash_name="sha1") -> IdxInfo:
    """Decode an index of any of the three versions.  Structural impossibilities raise FormatError;
    consistency rules that can be evaluated on a decodable file are collected in .problems
    (stable names)."""
    hl = hash_len(hash_name)
    problems = []
    if data[:4] == IDX_MAGIC:
        if len(data) < 8:
            raise FormatError("idx-too-short")
        (version,) = struct.unpack(">L", data[4:8])
        if version == 2:
            pos = 8
        elif version == 3:
            if len(data) < 16:
                raise FormatError("idx-too-short")
            hash_id, short_len = struct.unpack(">LL", data[8:16])
            want_id = {"sha1": 1, "sha256": 2}[hash_name]
            if hash_id != want_id:
                problems.append("v3-hash-id-wrong")
            if not (0 < short_len <= hl):
                problems.append("v3-shortened-length-out-of-range")
            pos = 16
        else:
            raise FormatError("idx-unknown-version", str(version))
    else:
        version = 1
        pos = 0
        if hash_name != "sha1":
            problems.append("v1-with-non-sha1-names")
    if len(data) < pos + 1024 + 2 * hl:
        raise FormatError("idx-too-short", "%d bytes" % len(data))
    fanout = list(struct.unpack(">256L", data[pos:pos + 1024]))
    pos += 1024
    n = fanout[255]
    if any(fanout[i] > fanout[i + 1] for i in range(255)):
        problems.append("fanout-not-monotone")
    trailer_at = len(data) - 2 * hl
    large = []
    if version == 1:
        need = pos + n * (4 + hl)
        if need != trailer_at:
            raise FormatError("idx-size-inconsistent", "v1: %d entries need %d bytes before the trailer, have %d"
                              % (n, need, trailer_at))
        entries = []
        for i in range(n):
            (ofs,) = struct.unpack(">L", data[pos:pos + 4])
            entries.append((data[pos + 4:pos + 4 + hl], ofs, None))
            pos += 4 + hl
    else:
        names_at = pos
        crc_at = names_at + n * hl
        ofs_at = crc_at + 4 * n
        large_at = ofs_at + 4 * n
        if large_at > trailer_at:
            raise FormatError("idx-size-inconsistent", "v%d: tables for %d entries end at %d, trailer at %d"
                              % (version, n, large_at, trailer_at))
        if (trailer_at - large_at) % 8:
            raise FormatError("idx-size-inconsistent", "64-bit table of %d bytes" % (trailer_at - large_at))
        large = list(struct.unpack(">%dQ" % ((trailer_at - large_at) // 8), data[large_at:trailer_at]))
        entries = []
        used = []
        for i in range(n):
            name = data[names_at + i * hl:names_at + (i + 1) * hl]
            (crc,) = struct.unpack(">L", data[crc_at + 4 * i:crc_at + 4 * i + 4])
            (o32,) = struct.unpack(">L", data[ofs_at + 4 * i:ofs_at + 4 * i + 4])
            if o32 & 0x80000000:
                k = o32 & 0x7FFFFFFF
                if k >= len(large):
                    raise FormatError("idx-large-offset-index-out-of-range", "entry %d -> slot %d of %d" % (i, k, len(large)))
                used.append(k)
                ofs = large[k]
            else:
                ofs = o32
            entries.append((name, ofs, crc))
        if sorted(used) != list(range(len(large))):
            problems.append("large-offset-table-slots-unused-or-shared")
        # (a 31-bit offset stored through the 64-bit table, or slots not in entry order, are
        # decodable and consistent: git's own --index-version=2,<limit> produces the former)
    names = [e[0] for e in entries]
    if any(names[i] >= names[i + 1] for i in range(len(names) - 1)):
        problems.append("names-not-strictly-ascending")
    want_fanout = [0] * 256
    for nm in names:
        want_fanout[nm[0]] += 1
    for i in range(1, 256):
        want_fanout[i] += want_fanout[i - 1]
    if want_fanout != fanout:
        problems.append("fanout-does-not-count-first-bytes")
    pack_checksum = data[trailer_at:trailer_at + hl]
    idx_checksum = data[trailer_at + hl:]
    if hasher(hash_name)(data[:trailer_at + hl]).digest() != idx_checksum:
        problems.append("idx-trailer-mismatch")
    return IdxInfo(version, hash_name, fanout, entries, pack_checksum, idx_checksum, large, problems, len(data))


def build_idx(version: int, entries, pack_checksum: bytes, hash_name="sha1", force_large=()) -> bytes:
    """Reference writer.  entries: iterable of (name, offset, crc32); offsets >= 2^31 (and those
    listed in force_large) go through the 64-bit table (v2/v3)."""
    hl = hash_len(hash_name)
    entries = sorted(entries)
    fanout = [0] * 256
    for name, _, _ in entries:
        assert len(name) == hl
        fanout[name[0]] += 1
    for i in range(1, 256):
        fanout[i] += fanout[i - 1]
    out = bytearray()
    if version == 1:
        out += struct.pack(">256L", *fanout)
        for name, ofs, _ in entries:
            out += struct.pack(">L", ofs) + name
    else:
        out += IDX_MAGIC + struct.pack(">L", version)
        if version == 3:
            out += struct.pack(">LL", {"sha1": 1, "sha256": 2}[hash_name], hl)
        out += struct.pack(">256L", *fanout)
        for name, _, _ in entries:
            out += name
        for _, _, crc in entries:
            out += struct.pack(">L", crc or 0)
        large = []
        for _, ofs, _ in entries:
            if ofs >= 0x80000000 or ofs in force_large:
                out += struct.pack(">L", 0x80000000 | len(large))
                large.append(ofs)
            else:
                out += struct.pack(">L", ofs)
        for ofs in large:
            out += struct.pack(">Q", ofs)
    out += pack_checksum
    out += hasher(hash_name)(bytes(out)).digest()
    return bytes(out)


def check_pair(pinfo: PackInfo, resolved, iinfo: IdxInfo):
    """Consistency of an index with the pack it claims to describe -> list of problem names."""
    problems = list(iinfo.problems)
    if iinfo.pack_checksum != pinfo.trailer:
        problems.append("idx-pack-checksum-differs-from-pack-trailer")
    want = sorted((r.name, r.offset) for r in resolved)
    got = sorted((e[0], e[1]) for e in iinfo.entries)
    if len(iinfo.entries) != pinfo.count:
        problems.append("idx-entry-count-differs-from-pack")
    if [w[0] for w in want] != [g[0] for g in got]:
        problems.append("idx-names-differ-from-pack-objects")
    elif want != got:
        problems.append("idx-offsets-differ-from-pack-entries")
    if iinfo.version >= 2:
        crc = {e.offset: e.crc32 for e in pinfo.entries}
        if any(crc.get(ofs) != c for _, ofs, c in iinfo.entries if ofs in crc):
            problems.append("idx-crc32-differs-from-packed-entry-bytes")
    return problems


# --------------------------------------------------------------------------- C git output parsers


def parse_verify_pack(text: bytes):
    """`git verify-pack -v` -> [(hexname, typename, size, size_in_pack, offset, depth|0, base hex|None)]"""
    out = []
    for line in text.splitlines():
        parts = line.split()
        if len(parts) in (5, 7) and len(parts[0]) in (40, 64) and parts[1] in TYPE_NUMS:
            depth = int(parts[5]) if len(parts) == 7 else 0
            base = parts[6].decode() if len(parts) == 7 else None
            out.append((parts[0].decode(), parts[1], int(parts[2]), int(parts[3]), int(parts[4]), depth, base))
    return out


def parse_show_index(text: bytes):
    """`git show-index` -> [(offset, hexname, crc|None)] in file order."""
    out = []
    for line in text.splitlines():
        parts = line.split()
        crc = None
        if len(parts) >= 3:
            crc = int(parts[2].strip(b"()"), 16)
        out.append((int(parts[0]), parts[1].decode(), crc))
    return out
