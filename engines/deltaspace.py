"""Enumerated input spaces for the delta codec (shared by C03 and C15) and the functions that are
executed *inside* the E6 sandbox for them.

Everything here is a declared finite set in a fixed order; nothing samples.

Byte-string specs (JSON-able, so that replays stay small even for 16 MiB inputs):

    bytes                       literal
    ("cyc", n, start)           bytes((start+i) % 256 for i in range(n))   -- no byte value is "popular"
    ("zeros", n)                n NUL bytes
    ("cat", spec, spec, ...)    concatenation
    ("base", name)              entry of BASES
"""

from __future__ import annotations

import hashlib
import itertools

from engines.refmodels import delta as refdelta

# --------------------------------------------------------------------------- specs


def build(spec) -> bytes:
    if isinstance(spec, (bytes, bytearray)):
        return bytes(spec)
    spec = tuple(spec)
    kind = spec[0]
    if kind == "cyc":
        n, start = spec[1], spec[2]
        period = bytes((start + i) % 256 for i in range(256))
        return (period * (n // 256 + 1))[:n]
    if kind == "zeros":
        return bytes(spec[1])
    if kind == "cat":
        return b"".join(build(s) for s in spec[1:])
    if kind == "base":
        return base(spec[1])
    raise ValueError("bad spec %r" % (spec,))


def _freeze(spec):
    if isinstance(spec, (bytes, bytearray)):
        return bytes(spec)
    return tuple(_freeze(s) if isinstance(s, (list, tuple, bytes, bytearray)) else s for s in spec)


_BUILT = {}


def resolve(spec) -> bytes:
    """build() with a small cache for the big generated strings."""
    if isinstance(spec, (bytes, bytearray)):
        return bytes(spec)
    key = _freeze(spec)
    v = _BUILT.get(key)
    if v is None:
        v = build(key)
        if len(_BUILT) > 8:
            _BUILT.clear()
        _BUILT[key] = v
    return v


def spec_len(spec) -> int:
    if isinstance(spec, (bytes, bytearray)):
        return len(spec)
    spec = tuple(spec)
    if spec[0] in ("cyc", "zeros"):
        return spec[1]
    if spec[0] == "cat":
        return sum(spec_len(s) for s in spec[1:])
    return len(resolve(spec))


def describe(spec) -> str:
    if isinstance(spec, (bytes, bytearray)):
        return repr(bytes(spec)) if len(spec) <= 24 else "<%d bytes %r...>" % (len(spec), bytes(spec[:12]))
    return repr(_freeze(spec))


# --------------------------------------------------------------------------- bases for hostile deltas

BASES = {
    "B0": b"",
    "B3": b"abc",
    "B5": b"abcde",
    "BL": ("cyc", 0x10005, 1),  # 65541 bytes: offsets and sizes that need 2 and 3 bytes
    "BA": ("cyc", 0x10001, 3),  # 65537 bytes: base of the copy-amplification family
    "B1": b"z",
    "BK": ("cyc", 0x10000, 2),  # exactly 64 KiB: the largest base a size-0 copy from offset 0 fits in exactly
}
_BASE = {}


def base(name: str) -> bytes:
    v = _BASE.get(name)
    if v is None:
        v = _BASE[name] = build(BASES[name])
    return v


def base_of(ref) -> bytes:
    """A hostile-delta input names its base either literally or as a BASES key."""
    return base(ref) if isinstance(ref, str) else resolve(ref)


# --------------------------------------------------------------------------- (a) pairs

PAIR_ALPHA = (b"a", b"b", b"\x00")


def strings(alphabet, max_len):
    for n in range(max_len + 1):
        for t in itertools.product(alphabet, repeat=n):
            yield b"".join(t)


def small_pairs(max_len):
    ss = list(strings(PAIR_ALPHA, max_len))
    for b in ss:
        for t in ss:
            yield (b, t)


def boundary_pairs(thorough: bool):
    """(tag, base spec, target spec) — the boundary family of DESIGN §3 C03(a)."""
    out = []
    X = ("cyc", 1000, 11)
    out += [("identical", b"", b""), ("identical", b"a", b"a"), ("identical", X, X)]
    out += [("empty-base", b"", b"a"), ("empty-base", b"", X), ("empty-target", b"a", b""), ("empty-target", X, b"")]
    # literal inserts around the 127-byte limit of one insert instruction
    for n in (126, 127, 128, 253, 254, 255, 381, 382):
        out.append(("insert-%d" % n, b"", ("cyc", n, 5)))
        out.append(("insert-%d-after-copy" % n, ("cyc", 300, 9), ("cat", ("cyc", 300, 9), ("cyc", n, 131))))
    # sizes around the 1/2/3-byte size-varint limits
    for n in (127, 128, 16383, 16384):
        out.append(("size-%d" % n, ("cyc", n, 0), ("cyc", n, 0)))
        out.append(("size-%d-shrunk" % n, ("cyc", n, 0), ("cyc", n - 1, 0)))
    # common runs: copy lengths around the 1-byte / 2-byte length encodings and the 64 KiB split
    runs = [255, 256, 257, 511, 512, 4095, 4096, 65535, 65536, 65537]
    if thorough:
        runs += [65536 + 255, 65536 + 256, 131071, 131073]
    for r in runs:
        out.append(("run-%d" % r, ("cat", b"<base-head>", ("cyc", r, 17), b"<base-tail>"),
                    ("cat", b"{target}", ("cyc", r, 17), b"!")))
    # copy offsets that need 1, 2, 3 (and in the thorough tier 4) bytes; suffix aligned so that both
    # encoders finish quickly
    offs = [0, 1, 255, 256, 257, 65535, 65536, 65537]
    if thorough:
        offs += [0xFFFFFF, 0x1000000, 0x1000001]
    mark = ("cyc", 300, 7)
    for o in offs:
        out.append(("offset-%d" % o, ("cat", ("zeros", o), mark), mark))
    # offset and length bytes that are zero in the middle (0x10000 + small, 0x100 multiples)
    out.append(("offset-0x10100", ("cat", ("zeros", 0x10100), mark), mark))
    # two copies whose order is swapped in the target.  (The gap is kept small on purpose: the Rust encoder
    # uses Myers' O(N*D) diff without a deadline and needs ~110 s for a 70 000-byte gap.)
    out.append(("two-copies", ("cat", mark, ("zeros", 1000), ("cyc", 400, 99)), ("cat", ("cyc", 400, 99), mark)))
    # a length-changing edit inside a long repeated region with distinct bytes on both sides (head and
    # tail of base and target overlap when trimmed independently), below and above 32 KiB / 64 KiB
    for n in (100, 16384, 40000) + ((65536, 70000) if thorough else ()):
        for head, tail in ((b"ab", b"cd"), (b"", b"cd"), (b"ab", b"")):
            big = ("cat", head, ("zeros", n), tail)
            for d in (1, 2):
                small = ("cat", head, ("zeros", n - d), tail)
                out.append(("repeat-%d-shrink-%d" % (n, d), big, small))
                out.append(("repeat-%d-grow-%d" % (n, d), small, big))
    # one of two identical adjacent lines removed / duplicated in a text of > 32 KiB
    line = b"the same line again and again\n"
    body = ("cyc", 33000, 13)
    out.append(("dup-line-removed", ("cat", body, line, line, b"end\n"), ("cat", body, line, b"end\n")))
    out.append(("dup-line-added", ("cat", body, line, b"end\n"), ("cat", body, line, line, b"end\n")))
    return out


# --------------------------------------------------------------------------- (b) hostile deltas

HOSTILE_ALPHA = bytes([0x00, 0x01, 0x02, 0x03, 0x05, 0x7F, 0x80, 0x81, 0x90, 0x91, 0xB0, 0xFF])
HOSTILE_BASES = ("B0", "B3", "B5")
PREFIX_LEN = 2


def hostile_prefixes():
    """Work units of the exhaustive space: None = all strings shorter than PREFIX_LEN, else a
    PREFIX_LEN-symbol prefix p standing for {p + t : len(t) <= max_len - PREFIX_LEN}."""
    yield None
    for t in itertools.product(HOSTILE_ALPHA, repeat=PREFIX_LEN):
        yield bytes(t)


def hostile_strings(prefix, max_len):
    if prefix is None:
        for n in range(min(PREFIX_LEN, max_len + 1)):
            for t in itertools.product(HOSTILE_ALPHA, repeat=n):
                yield bytes(t)
        return
    for n in range(max_len - len(prefix) + 1):
        for t in itertools.product(HOSTILE_ALPHA, repeat=n):
            yield prefix + bytes(t)


def hostile_count(max_len):
    return sum(len(HOSTILE_ALPHA) ** n for n in range(max_len + 1))


V = refdelta.encode_varint
PAD = refdelta.pad_varint

DECLARED = [2**31 - 1, 2**31, 2**32 - 1, 2**32, 2**40, 2**62, 2**63 - 1, 2**63, 2**64 - 1, 2**64, 2**70]


def structured_varints():
    """Size varints of 1..11 bytes in both header positions."""
    out = []
    for bname in ("B0", "B3"):
        n = len(BASES[bname])
        body = b"\x02xy"
        for L in range(1, 12):
            ones = b"\xff" * (L - 1) + b"\x7f"
            top = b"\x80" * (L - 1) + b"\x01"
            out.append(("varint-src-padded-%d" % L, bname, PAD(n, L) + V(2) + body))
            out.append(("varint-dest-padded-%d" % L, bname, V(n) + PAD(2, L) + body))
            out.append(("varint-both-padded-%d" % L, bname, PAD(n, L) + PAD(2, L) + body))
            out.append(("varint-src-ones-%d" % L, bname, ones + V(2) + body))
            out.append(("varint-dest-ones-%d" % L, bname, V(n) + ones))
            out.append(("varint-dest-ones-%d+op" % L, bname, V(n) + ones + body))
            out.append(("varint-dest-top-%d" % L, bname, V(n) + top))
            out.append(("varint-dest-top-%d+op" % L, bname, V(n) + top + body))
            out.append(("varint-src-top-%d" % L, bname, top + V(0)))
            out.append(("varint-dest-unterminated-%d" % L, bname, V(n) + b"\x80" * L))
    return out


def structured_declared():
    """Declared sizes far beyond the data supplied."""
    out = []
    for bname in ("B0", "B3"):
        n = len(BASES[bname])
        tails = [b"", b"\x01x", b"\x05ab"]
        if n:
            tails.append(b"\x90" + bytes([n]))
        for d in DECLARED:
            for t in tails:
                out.append(("declared-dest-%d" % d.bit_length(), bname, V(n) + V(d) + t))
            out.append(("declared-src-%d" % d.bit_length(), bname, V(d) + V(0)))
            out.append(("declared-both-%d" % d.bit_length(), bname, V(d) + V(d)))
    return out


def structured_copy(cmds, values):
    """Copy instructions (all masks in `cmds`) at, inside and beyond the end of the base, alone,
    before and after an insert, with a declared size that fits or not."""
    out = []
    for bname in ("B5", "BL"):
        n = spec_len(BASES[bname])
        for cmd in cmds:
            sel = [i for i in range(7) if cmd & (1 << i)]
            for vals in itertools.product(values, repeat=len(sel)):
                off = size = 0
                for i, v in zip(sel, vals):
                    if i < 4:
                        off |= v << (8 * i)
                    else:
                        size |= v << (8 * (i - 4))
                size = size or 0x10000
                op = bytes([cmd]) + bytes(vals)
                hdr = V(n)
                out.append(("copy-alone", bname, hdr + V(size) + op))
                out.append(("copy-alone-dest1", bname, hdr + V(1) + op))
                out.append(("copy-then-insert", bname, hdr + V(size + 1) + op + b"\x01x"))
                out.append(("insert-then-copy", bname, hdr + V(size + 1) + b"\x01x" + op))
                out.append(("insert-then-copy-full", bname, hdr + V(1) + b"\x01x" + op))
    return out


WIDTH_VALUES = (0x00, 0x01, 0x7F, 0x80, 0xFF)
WIDTH_BASES = ("B0", "B1", "BK", "BA")  # 0, 1, 0x10000, 0x10001 bytes


def copy_width_ops(cmd):
    """Copy instructions at the width boundaries of their fields: for the offset/size bytes selected
    by `cmd`, every background (offset bytes all 00 or all ff) x (size bytes all 00 or all ff), and on
    top of each background every single present byte set to each of WIDTH_VALUES.  Reaches offsets
    and offset+size sums around 2^8, 2^16, 2^24, 2^31 and 2^32 and sizes up to 2^24-1.
    -> sorted list of (instruction bytes, offset, size)."""
    sel = [i for i in range(7) if cmd & (1 << i)]
    seen = {}
    for off_bg in (0x00, 0xFF):
        for size_bg in (0x00, 0xFF):
            bg = [off_bg if i < 4 else size_bg for i in sel]
            variants = [bg]
            for k in range(len(sel)):
                for v in WIDTH_VALUES:
                    variants.append(bg[:k] + [v] + bg[k + 1:])
            for vals in variants:
                off = size = 0
                for i, v in zip(sel, vals):
                    if i < 4:
                        off |= v << (8 * i)
                    else:
                        size |= v << (8 * (i - 4))
                seen[bytes([cmd]) + bytes(vals)] = (off, size or 0x10000)
    return [(op,) + seen[op] for op in sorted(seen)]


def structured_copy_widths(cmds):
    """copy_width_ops x bases of 0, 1, 0x10000 and 0x10001 bytes x {only instruction, before / after a
    one-byte insert} x declared size {consistent, one less, one more; and "insert only", which makes the
    copy a trailing instruction that no longer fits}."""
    out = []
    for bname in WIDTH_BASES:
        hdr = V(spec_len(BASES[bname]))
        for cmd in cmds:
            for op, off, size in copy_width_ops(cmd):
                out.append(("width-alone", bname, hdr + V(size) + op))
                out.append(("width-alone-short", bname, hdr + V(size - 1) + op))
                out.append(("width-alone-long", bname, hdr + V(size + 1) + op))
                out.append(("width-then-insert", bname, hdr + V(size + 1) + op + b"\x01x"))
                out.append(("width-then-insert-short", bname, hdr + V(size) + op + b"\x01x"))
                out.append(("width-insert-then", bname, hdr + V(size + 1) + b"\x01x" + op))
                out.append(("width-insert-then-full", bname, hdr + V(1) + b"\x01x" + op))
    return out


def copy_width_count():
    return sum(len(copy_width_ops(cmd)) for cmd in range(0x80, 0x100)) * len(WIDTH_BASES) * 7


def _mut_seeds():
    """Hand-made valid deltas (built with the reference encoder helpers, not with dulwich)."""
    seeds = []
    # abcde -> abXde
    seeds.append(("B5", V(5) + V(5) + b"\x90\x02" + b"\x01X" + b"\x91\x03\x02"))
    # abcde -> abcdeabcde + "!!"
    seeds.append(("B5", V(5) + V(12) + b"\x90\x05" + b"\x90\x05" + b"\x02!!"))
    # empty base, two inserts
    seeds.append(("B0", V(0) + V(4) + b"\x03xyz" + b"\x01w"))
    # large base: 64 KiB copy (size 0 form), explicit 3-byte size form, offset with a zero middle byte
    seeds.append(("BL", V(0x10005) + V(0x10000 + 3 + 5) + b"\x80" + b"\x03new" + b"\x95\x00\x01\x05"))
    seeds.append(("BL", V(0x10005) + V(0x10004) + b"\xf1\x01\x04\x00\x01"))
    return seeds


def structured_mutations():
    """Every truncation, byte substitutions, opcode 0 / trailing bytes / duplicated instructions."""
    out = []
    for bname, d in _mut_seeds():
        n = spec_len(BASES[bname])
        a = refdelta.analyse(n, d)
        assert a.valid(), (bname, d)
        out.append(("mut-seed", bname, d))
        for k in range(len(d)):
            out.append(("mut-truncate", bname, d[:k]))
        for k in range(len(d)):
            for nb in sorted({0x00, 0xFF, d[k] ^ 0x80, (d[k] + 1) & 0xFF, (d[k] - 1) & 0xFF} - {d[k]}):
                out.append(("mut-subst", bname, d[:k] + bytes([nb]) + d[k + 1:]))
        bounds = [op.pos for op in a.ops] + [len(d)]
        for p in bounds:
            out.append(("mut-opcode0", bname, d[:p] + b"\x00" + d[p:]))
        for t in HOSTILE_ALPHA:
            out.append(("mut-trailing", bname, d + bytes([t])))
        for t in (b"\x01x", b"\x90\x01", b"\x02x", b"\x80"):
            out.append(("mut-trailing", bname, d + t))
        for op in a.ops:
            out.append(("mut-dup-op", bname, d[:op.end] + d[op.pos:op.end] + d[op.end:]))
            out.append(("mut-drop-op", bname, d[:op.pos] + d[op.end:]))
    return out


AMP_COUNTS = (1, 2, 15, 16, 17, 256, 4096, 16384)


def structured_amplification():
    """Many 1-byte copy instructions (0x80 = copy 64 KiB from offset 0) whose results add up to far
    more than the declared size: a decoder must not build what it is going to reject."""
    out = []
    n = spec_len(BASES["BA"])
    for declared in (0x10000, 1 << 20):
        for k in AMP_COUNTS:
            out.append(("amplify-%dx64KiB-declared-%d" % (k, declared), "BA", V(n) + V(declared) + b"\x80" * k))
    return out


def copy_values(thorough: bool):
    return (0x00, 0x01, 0x05, 0x06, 0xFF) if thorough else (0x00, 0x01, 0x05)


def structured_small():
    """All structured families except the copy-mask family (which is enumerated per opcode, see
    structured_copy, because it is large)."""
    out = []
    out += structured_varints()
    out += structured_declared()
    out += structured_mutations()
    out += structured_amplification()
    return out


# --------------------------------------------------------------------------- sandbox-side functions


def summarise(data: bytes):
    """Compact, comparable form of a decoder result."""
    if len(data) <= 256:
        return ("b", data)
    return ("h", len(data), hashlib.sha1(data).hexdigest())


def sb_setup(arg):
    """Runs once in the sandbox template: bind dulwich, pre-build the named bases."""
    import dulwich.pack  # noqa: F401

    for name in arg or ():
        base(name)
    return {"bases": sorted(_BASE)}


def _chunks(data: bytes, how: int):
    if how == 0:
        return data
    if how == 1:  # list of 1-byte chunks
        return [data[i:i + 1] for i in range(len(data))]
    return [data[:1], data[1:]]  # how == 2


def sb_decode(x):
    """x = (base ref, delta, form): form 0 = bytes/bytes, 1 = base in two chunks + delta in 1-byte
    chunks (the pack reader hands chunk lists to apply_delta)."""
    from dulwich.pack import apply_delta

    bref, delta, form = x
    b = base_of(bref)
    if form:
        out = apply_delta(_chunks(b, 2), _chunks(delta, 1))
    else:
        out = apply_delta(b, delta)
    if not isinstance(out, list) or any(type(c) is not bytes for c in out):
        return ("badtype", repr(type(out)))
    return summarise(b"".join(out))


def sb_encode(x):
    """x = (base spec, target spec, form) -> delta bytes from the public create_delta."""
    from dulwich.pack import create_delta

    bspec, tspec, form = x
    b = resolve(bspec)
    t = resolve(tspec)
    if form:
        chunks = create_delta(_chunks(b, 2), _chunks(t, 2))
    else:
        chunks = create_delta(b, t)
    parts = list(chunks)
    if any(type(c) is not bytes for c in parts):
        return ("badtype", repr([type(c).__name__ for c in parts][:5]))
    return ("d", b"".join(parts))
