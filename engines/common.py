"""Common services for the dulwich bounded-exhaustive checks.

* scratch root under /dev/shm (never /tmp, /repo or /verif), removed on exit
* Acc: mergeable accumulator (counters, distinct outcome classes, samples, violations)
* fork-based worker pool with long-lived workers
* known-findings matcher, replay files, evidence writer, exit codes
* cargo rebuild of the Rust extensions from /repo's working tree + preload
"""

from __future__ import annotations

import atexit
import hashlib
import importlib.util
import json
import os
import random
import re
import shutil
import signal
import subprocess
import sys
import time
import traceback

VERIF = os.path.dirname(os.path.dirname(os.path.abspath(__file__)))
REPO = os.environ.get("VERIF_REPO", "/repo")
SHM = "/dev/shm" if os.path.isdir("/dev/shm") else None
GUARD = "DULWICH_VERIF"

LEVELS = (
    "exploration",
    "fault_enumeration",
    "model_checking",
    "proof",
    "translation_validation",
    "other",
)


class HarnessError(Exception):
    """The machinery itself is wrong (exit 2) — never reported as a violation."""


# --------------------------------------------------------------------------- scratch

_scratch_root = None
_scratch_owner = None


def scratch_root() -> str:
    global _scratch_root, _scratch_owner
    if _scratch_root is None or _scratch_owner != os.getpid():
        base = SHM or os.path.join(VERIF, ".scratch")
        if _scratch_root is None:
            top = os.path.join(base, "dulwich-verif-%d" % os.getpid())
            os.makedirs(top, exist_ok=True)
            _scratch_root = top
            _scratch_owner = os.getpid()
            atexit.register(_cleanup_scratch, top, os.getpid())
        else:
            # forked worker: private sub-directory of the parent's root
            top = os.path.join(_scratch_root, "w%d" % os.getpid())
            os.makedirs(top, exist_ok=True)
            _scratch_root = top
            _scratch_owner = os.getpid()
    return _scratch_root


def _cleanup_scratch(path, pid):
    if os.getpid() == pid:
        shutil.rmtree(path, ignore_errors=True)


_counter = [0]


def fresh_dir(prefix="d") -> str:
    _counter[0] += 1
    p = os.path.join(scratch_root(), "%s%d" % (prefix, _counter[0]))
    if os.path.exists(p):
        shutil.rmtree(p)
    os.makedirs(p)
    return p


def rmtree(p):
    shutil.rmtree(p, ignore_errors=True)


# --------------------------------------------------------------------------- accumulator


class Acc:
    """Mergeable result of (part of) an enumeration."""

    MAX_PER_KEY = 5

    def __init__(self):
        self.n = {}  # counters
        self.classes = {}  # outcome class -> count
        self.samples = []
        self.viol = {}  # key -> [count, [cases...]]
        self.notes = {}

    def count(self, name, k=1):
        self.n[name] = self.n.get(name, 0) + k

    def outcome(self, cls, k=1):
        cls = cls if isinstance(cls, str) else repr(cls)
        self.classes[cls] = self.classes.get(cls, 0) + k

    def sample(self, s, cap=6):
        if len(self.samples) < cap:
            self.samples.append(s)

    def violation(self, key, summary, replay=None):
        """key: stable class of the failure (matched against known findings);
        summary: one line; replay: JSON-able dict sufficient to re-run this one case."""
        v = self.viol.setdefault(key, [0, []])
        v[0] += 1
        if len(v[1]) < self.MAX_PER_KEY:
            v[1].append({"summary": summary, "replay": replay})

    def note(self, k, v):
        self.notes[k] = v

    def merge(self, other: "Acc"):
        for k, v in other.n.items():
            self.n[k] = self.n.get(k, 0) + v
        for k, v in other.classes.items():
            self.classes[k] = self.classes.get(k, 0) + v
        for s in other.samples:
            if len(self.samples) < 12:
                self.samples.append(s)
        for k, (c, cases) in other.viol.items():
            v = self.viol.setdefault(k, [0, []])
            v[0] += c
            for case in cases:
                if len(v[1]) < self.MAX_PER_KEY:
                    v[1].append(case)
        self.notes.update(other.notes)
        return self


# --------------------------------------------------------------------------- pool

_WORKER_FN = {}


def _worker_entry(args):
    fname, modname, task = args
    try:
        mod = sys.modules.get(modname) or __import__(modname, fromlist=["x"])
        fn = getattr(mod, fname)
        return ("ok", fn(task))
    except BaseException as e:  # harness error inside a worker
        return ("err", "%s\n%s" % (repr(e), traceback.format_exc()))


def _pool_init():
    # workers must die on pool.terminate() (SIGTERM), not run the parent's handler
    signal.signal(signal.SIGTERM, signal.SIG_DFL)


def _pool_worker(conn):
    _pool_init()
    try:
        while True:
            msg = conn.recv()
            if msg is None:
                break
            idx, packed = msg
            conn.send((idx,) + _worker_entry(packed))
    except (EOFError, OSError, KeyboardInterrupt):
        pass
    finally:
        try:
            sys.stdout.flush()
            sys.stderr.flush()
        except Exception:
            pass
        os._exit(0)


def pmap(fn, tasks, jobs=None, chunksize=1, ordered=False):
    """Run module-level fn over tasks in a fork pool of long-lived workers.

    Yields results.  A worker exception is a HarnessError in the parent; so is a worker that dies (killed, out of
    memory, crashed interpreter) or a task that exceeds VERIF_TASK_TIMEOUT seconds (default 7200) — the run never
    waits for ever on a lost task (multiprocessing.Pool does)."""
    tasks = list(tasks)
    jobs = jobs or int(os.environ.get("VERIF_JOBS", "0")) or min(16, os.cpu_count() or 1)
    jobs = max(1, min(jobs, len(tasks) or 1))
    packed = [(fn.__name__, fn.__module__, t) for t in tasks]
    if jobs == 1:
        for p in packed:
            st, r = _worker_entry(p)
            if st == "err":
                raise HarnessError("worker failed: " + r)
            yield r
        return
    import multiprocessing as mp
    from multiprocessing.connection import wait

    limit = float(os.environ.get("VERIF_TASK_TIMEOUT", "7200"))
    ctx = mp.get_context("fork")
    scratch_root()  # before forking, so that every worker uses (and the parent removes) the same root
    sys.stdout.flush()
    sys.stderr.flush()
    workers = {}  # parent connection -> [process, index of the task it is running | None, start time]
    nxt = 0
    done = 0
    buffered = {}
    emit = 0

    def describe(i):
        return "task %d of %s.%s: %s" % (i, fn.__module__, fn.__name__, repr(tasks[i])[:400])

    try:
        for _ in range(jobs):
            pc, cc = ctx.Pipe()
            pr = ctx.Process(target=_pool_worker, args=(cc,), daemon=True)
            pr.start()
            cc.close()
            workers[pc] = [pr, None, 0.0]
        for pc, w in workers.items():
            if nxt < len(packed):
                pc.send((nxt, packed[nxt]))
                w[1], w[2] = nxt, time.time()
                nxt += 1
        while done < len(packed):
            busy = [pc for pc, w in workers.items() if w[1] is not None]
            ready = wait(busy, timeout=5.0)
            for pc in ready:
                w = workers[pc]
                try:
                    idx, st, r = pc.recv()
                except (EOFError, OSError):
                    w[0].join(2)
                    raise HarnessError("a worker process died (exit code %r) while running %s" % (w[0].exitcode, describe(w[1])))
                if st == "err":
                    raise HarnessError("worker failed in %s: %s" % (describe(idx), r))
                done += 1
                if nxt < len(packed):
                    pc.send((nxt, packed[nxt]))
                    w[1], w[2] = nxt, time.time()
                    nxt += 1
                else:
                    w[1] = None
                if ordered:
                    buffered[idx] = r
                    while emit in buffered:
                        yield buffered.pop(emit)
                        emit += 1
                else:
                    yield r
            now = time.time()
            for pc, w in workers.items():
                if w[1] is not None and now - w[2] > limit:
                    raise HarnessError("no answer within %.0f s (VERIF_TASK_TIMEOUT) from %s" % (limit, describe(w[1])))
    finally:
        for pc, w in workers.items():
            try:
                if w[1] is None and w[0].is_alive():
                    pc.send(None)
            except Exception:
                pass
        deadline = time.time() + 2
        for pc, w in workers.items():
            if w[1] is None:
                w[0].join(max(0.0, deadline - time.time()))
            if w[0].is_alive():
                w[0].kill()
                w[0].join(5)
            try:
                pc.close()
            except Exception:
                pass


def pmap_acc(fn, tasks, acc=None, **kw):
    acc = acc or Acc()
    for r in pmap(fn, tasks, **kw):
        acc.merge(r)
    return acc


def split(seq, n):
    """Deterministic split of a list into <= n interleaved parts (all non-empty)."""
    seq = list(seq)
    parts = [seq[i::n] for i in range(n)]
    return [p for p in parts if p]


# --------------------------------------------------------------------------- rust build

_RUST = {}


def rust_paths(release=False):
    """cargo build --offline of /repo/crates into a cache dir outside /repo; returns
    {'_pack': path, '_objects': path, '_diff_tree': path}.  Incremental: a no-op takes <1 s."""
    key = "release" if release else "debug"
    if key in _RUST:
        return _RUST[key]
    target = os.environ.get("VERIF_CARGO_TARGET") or os.path.join(VERIF, ".build", "cargo-target")
    os.makedirs(target, exist_ok=True)
    env = dict(os.environ, CARGO_NET_OFFLINE="true", CARGO_TARGET_DIR=target)
    cmd = ["cargo", "build", "--offline", "--quiet"] + (["--release"] if release else [])
    t0 = time.time()
    p = subprocess.run(cmd, cwd=REPO, env=env, capture_output=True, text=True)
    if p.returncode != 0:
        raise HarnessError("cargo build failed:\n" + p.stdout[-2000:] + p.stderr[-4000:])
    d = os.path.join(target, key)
    out = {
        "_pack": os.path.join(d, "libpack_py.so"),
        "_objects": os.path.join(d, "libobjects_py.so"),
        "_diff_tree": os.path.join(d, "libdiff_tree_py.so"),
    }
    for v in out.values():
        if not os.path.exists(v):
            raise HarnessError("missing build product " + v)
    out["_build_s"] = round(time.time() - t0, 2)
    _RUST[key] = out
    return out


def preload_rust(release=False):
    """Make `import dulwich.*` bind the extensions freshly built from the working tree
    (the in-tree .so files are git-ignored build leftovers and may be stale)."""
    paths = rust_paths(release)
    for short in ("_pack", "_objects", "_diff_tree"):
        name = "dulwich." + short
        if name in sys.modules:
            continue
        import dulwich  # noqa: F401  (package first)

        spec = importlib.util.spec_from_file_location(name, paths[short])
        mod = importlib.util.module_from_spec(spec)
        spec.loader.exec_module(mod)
        sys.modules[name] = mod
        setattr(sys.modules["dulwich"], short, mod)
    return paths


def block_rust():
    """Make the extension imports fail so that dulwich binds its pure-Python fallbacks.
    Must be called before dulwich.objects/pack/diff_tree are imported."""
    for short in ("_pack", "_objects", "_diff_tree"):
        sys.modules["dulwich." + short] = None


# --------------------------------------------------------------------------- git


def git_env(extra=None):
    env = {
        "PATH": os.environ.get("PATH", "/usr/bin:/bin"),
        "HOME": scratch_root(),
        "GIT_CONFIG_NOSYSTEM": "1",
        "GIT_CONFIG_GLOBAL": "/dev/null",
        "GIT_AUTHOR_NAME": "A",
        "GIT_AUTHOR_EMAIL": "a@example.com",
        "GIT_COMMITTER_NAME": "C",
        "GIT_COMMITTER_EMAIL": "c@example.com",
        "GIT_AUTHOR_DATE": "1000000000 +0000",
        "GIT_COMMITTER_DATE": "1000000000 +0000",
        "LC_ALL": "C",
        "TZ": "UTC",
        "GIT_TERMINAL_PROMPT": "0",
    }
    if extra:
        env.update(extra)
    return env


def git(args, cwd=None, input=None, check=True, env=None, timeout=120):
    kw = {"input": input} if input is not None else {"stdin": subprocess.DEVNULL}  # never inherit the runner's stdin
    p = subprocess.run(["git"] + list(args), cwd=cwd, capture_output=True, env=git_env(env), timeout=timeout, **kw)
    if check and p.returncode != 0:
        raise HarnessError("git %s failed (%d): %s" % (" ".join(map(str, args)), p.returncode, p.stderr[-2000:]))
    return p


# --------------------------------------------------------------------------- known findings


def load_known(prop):
    path = os.path.join(VERIF, "known_findings.json")
    if not os.path.exists(path):
        return []
    with open(path) as f:
        data = json.load(f)
    return [e for e in data.get("findings", []) if e.get("property") == prop]


def match_known(entries, key):
    for e in entries:
        if e.get("status") != "finding":
            continue  # "fixed" entries suppress nothing
        if "key" in e and e["key"] == key:
            return e
        if "key_regex" in e and re.fullmatch(e["key_regex"], key):
            return e
    return None


# --------------------------------------------------------------------------- context / runner


class Ctx:
    def __init__(self, prop, tier, seed, jobs):
        self.prop = prop
        self.tier = tier
        self.seed = seed
        self.jobs = jobs
        self.quick = tier == "quick"
        self.rng = random.Random(seed)  # ONLY for enumeration order / worker assignment
        self.coverage = {}
        self.assumptions = []
        self.level = "exploration"
        self.acc = Acc()
        self.t0 = time.time()

    def order(self, seq):
        """Permute enumeration order by VERIF_SEED (never the set explored)."""
        seq = list(seq)
        if self.seed:
            self.rng.shuffle(seq)
        return seq

    def elapsed(self):
        return time.time() - self.t0


def _slug(s):
    s = re.sub(r"[^A-Za-z0-9_.-]+", "_", s)[:80]
    return s or "v"


def write_evidence(ctx, nviol):
    cov = dict(ctx.coverage)
    acc = ctx.acc
    cov.setdefault("counters", dict(sorted(acc.n.items())))
    cov.setdefault("outcome_classes", dict(sorted(acc.classes.items())[:60]))
    cov.setdefault("distinct_outcome_classes", len(acc.classes))
    if "samples" not in cov:
        cov["samples"] = acc.samples[:12] or ["(none)"]
    if acc.notes:
        cov.setdefault("notes", acc.notes)
    ev = {
        "property_id": ctx.prop,
        "tier": ctx.tier,
        "seed": ctx.seed,
        "level": ctx.level,
        "coverage": cov,
        "assumptions": ctx.assumptions,
        "wall_s": round(time.time() - ctx.t0, 2),
        "violations": nviol,
    }
    evdir = os.environ.get("VERIF_EVIDENCE_DIR") or os.path.join(VERIF, "evidence")
    os.makedirs(evdir, exist_ok=True)
    path = os.path.join(evdir, ctx.prop + ".json")
    tmp = path + ".tmp%d" % os.getpid()
    with open(tmp, "w") as f:
        json.dump(ev, f, indent=1, sort_keys=True, default=_jsonable)
        f.write("\n")
    os.replace(tmp, path)
    return path


def _jsonable(o):
    if isinstance(o, (bytes, bytearray)):
        return "hex:" + bytes(o).hex()
    if isinstance(o, (set, frozenset)):
        return sorted(map(repr, o))
    if isinstance(o, tuple):
        return list(o)
    return repr(o)


def finish(ctx) -> int:
    """Match violations against known findings, write replay files + evidence, print the
    interface lines, return the exit code."""
    acc = ctx.acc
    known = load_known(ctx.prop)
    unmatched = 0
    seen_known = set()
    for key in sorted(acc.viol):
        count, cases = acc.viol[key]
        e = match_known(known, key)
        if e is not None:
            ident = e.get("key") or e.get("key_regex")
            if ident not in seen_known:
                seen_known.add(ident)
                print("KNOWN-FINDING: property=%s %s [%s]" % (ctx.prop, e.get("what", key), ident))
            continue
        unmatched += 1
        d = os.path.join(os.environ.get("VERIF_REPLAY_DIR") or os.path.join(VERIF, "replays"), ctx.prop)
        os.makedirs(d, exist_ok=True)
        path = os.path.join(d, _slug(key) + ".json")
        with open(path, "w") as f:
            json.dump(
                {"property": ctx.prop, "key": key, "count": count, "cases": cases},
                f,
                indent=1,
                default=_jsonable,
            )
            f.write("\n")
        print("VIOLATION property=%s replay=%s  # %s (%d case(s)): %s" % (
            ctx.prop, path, key, count, cases[0]["summary"][:300] if cases else ""))
    for e in known:
        if e.get("status") == "finding":
            ident = e.get("key") or e.get("key_regex")
            if ident not in seen_known:
                print("KNOWN-FINDING-GONE: property=%s %s [%s] did not reproduce in this run"
                      % (ctx.prop, e.get("what", ""), ident))
    path = write_evidence(ctx, unmatched)
    cov = ctx.coverage
    print(
        "%s tier=%s seed=%d evaluations=%s states=%s transitions=%s classes=%d wall=%.1fs evidence=%s"
        % (
            ctx.prop,
            ctx.tier,
            ctx.seed,
            cov.get("evaluations"),
            cov.get("states"),
            cov.get("transitions"),
            len(acc.classes),
            time.time() - ctx.t0,
            path,
        )
    )
    return 1 if unmatched else 0


def main(argv=None):
    import argparse

    ap = argparse.ArgumentParser(prog="check")
    ap.add_argument("prop")
    ap.add_argument("--tier", default=os.environ.get("VERIF_TIER", "quick"), choices=["quick", "thorough"])
    ap.add_argument("--replay")
    ap.add_argument("--jobs", type=int, default=0)
    ap.add_argument("--seed", type=int, default=None)
    a = ap.parse_args(argv)

    if os.environ.get("PYTHONHASHSEED") != "0" or os.environ.get(GUARD) != "1":
        env = dict(os.environ, PYTHONHASHSEED="0", RUST_BACKTRACE="0", PYTHONDONTWRITEBYTECODE="1")
        env[GUARD] = "1"
        os.execve(sys.executable, [sys.executable] + sys.argv, env)

    seed = a.seed if a.seed is not None else int(os.environ.get("VERIF_SEED", "0") or 0)
    jobs = a.jobs or int(os.environ.get("VERIF_JOBS", "0") or 0) or min(16, os.cpu_count() or 1)
    os.environ["VERIF_JOBS"] = str(jobs)
    if REPO not in sys.path:
        sys.path.insert(0, REPO)
    if VERIF not in sys.path:
        sys.path.insert(0, VERIF)
    import dulwich

    if os.path.dirname(os.path.dirname(os.path.abspath(dulwich.__file__))) != os.path.abspath(REPO):
        print("HARNESS-ERROR: dulwich imported from %s, not %s" % (dulwich.__file__, REPO))
        return 2

    prop = a.prop.upper()
    ctx = Ctx(prop, a.tier, seed, jobs)
    try:
        mod = __import__("props." + prop, fromlist=["x"])
    except ImportError as e:
        print("HARNESS-ERROR: no check module for %s (%s)" % (prop, e))
        return 2
    signal.signal(signal.SIGTERM, lambda *_: sys.exit(143))
    scratch_root()  # before any fork: workers then nest their scratch dirs under ours (removed at exit)
    try:
        if a.replay:
            with open(a.replay) as f:
                obj = json.load(f)
            rc = mod.replay(ctx, obj)
            return rc
        mod.run(ctx)
        return finish(ctx)
    except HarnessError as e:
        print("HARNESS-ERROR: %s" % e)
        traceback.print_exc()
        return 2
    except Exception as e:  # a bug in a check is never a violation
        print("HARNESS-ERROR: unexpected %r" % (e,))
        traceback.print_exc()
        return 2


# --------------------------------------------------------------------------- replay codec


def enc(o):
    """JSON-able encoding that round-trips bytes / tuples / None / sets."""
    if isinstance(o, (bytes, bytearray)):
        return {"__b": bytes(o).hex()}
    if isinstance(o, tuple):
        return {"__t": [enc(x) for x in o]}
    if isinstance(o, list):
        return [enc(x) for x in o]
    if isinstance(o, (set, frozenset)):
        return {"__s": [enc(x) for x in sorted(o, key=repr)]}
    if isinstance(o, dict):
        return {"__d": [[enc(k), enc(v)] for k, v in o.items()]}
    return o


def dec(o):
    if isinstance(o, dict):
        if "__b" in o:
            return bytes.fromhex(o["__b"])
        if "__t" in o:
            return tuple(dec(x) for x in o["__t"])
        if "__s" in o:
            return set(dec(x) for x in o["__s"])
        if "__d" in o:
            return {dec(k): dec(v) for k, v in o["__d"]}
        return {k: dec(v) for k, v in o.items()}
    if isinstance(o, list):
        return [dec(x) for x in o]
    return o


def rp(fn, *args):
    """Replay descriptor for a module-level case function fn(acc, *args)."""
    return {"fn": fn if isinstance(fn, str) else fn.__name__, "args": enc(list(args))}


def replay_generic(mod, ctx, obj):
    """Re-run the recorded cases of a replay file twice; report whether the same violation
    class reproduces (exit 1 + VIOLATION line) or not (exit 0)."""
    key = obj.get("key")
    reproduced = 0
    for case in obj.get("cases", []):
        r = case.get("replay")
        if not r:
            continue
        obs = []
        for _ in range(2):
            acc = Acc()
            getattr(mod, r["fn"])(acc, *dec(r["args"]))
            obs.append(sorted((k, v[1][0]["summary"]) for k, v in acc.viol.items()))
        if obs[0] != obs[1]:
            print("HARNESS-ERROR: replay is not deterministic: %r vs %r" % (obs[0], obs[1]))
            return 2
        hit = [s for k, s in obs[0] if k == key]
        if hit:
            reproduced += 1
            print("REPRODUCED key=%s: %s" % (key, hit[0][:500]))
        else:
            print("NOT-REPRODUCED key=%s (observed %r)" % (key, obs[0]))
    if reproduced:
        print("VIOLATION property=%s replay=%s" % (ctx.prop, "(replayed)"))
        return 1
    return 0
