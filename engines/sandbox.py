"""E6 `sandbox` — observe aborts, panics, hangs and memory blow-ups instead of dying of them.

    pool = Pool(flavour="rust"|"rust-release"|"py"|None, setup="pkg.mod:fn", setup_arg=..., workers=1,
                rlimit_as=2 GiB, cpu_s=20, wall_s=30)
    obs  = pool.map_observe("pkg.mod:fn", inputs, wall_s=.., cpu_s=.., max_timeouts=..)   # one Obs per input, same order
    pool.close()

    get_pool(flavour, setup=..., setup_arg=...)   per-process cached single-slot pool (for use inside pmap workers)
    observe_all([(pool, fn, inputs), ...])        several single-slot pools working at the same time
    python engines/sandbox.py --selftest          abort / segv / kill / exit / MemoryError / mmap / sleep / spin

flavour: "rust" = load the extensions built by common.rust_paths() by path before dulwich imports them;
"py" = block the extension imports (== common.block_rust()) before dulwich is imported; None = as is.
The template checks that the public names really are bound that way and reports the bindings in pool.info.

Process tree (per pool slot)::

    caller ──pipes──> template   a *spawned* fresh interpreter (so that the Rust extensions can be
                         │       blocked or pre-loaded by path BEFORE dulwich.pack/objects/diff_tree
                         │       are imported); stdout/stderr -> /dev/null, RUST_BACKTRACE=0,
                         │       RLIMIT_CORE=0, cwd = scratch dir in /dev/shm
                         └─fork─> worker   long-lived, runs the inputs of a batch one after the other
                                           under RLIMIT_AS / RLIMIT_CPU; respawned by fork (~2 ms)
                                           whenever it dies or has to be recycled

Before every call the worker publishes the index of the input it is about to process in a shared
anonymous mmap, and after the call the index of the input it has finished; records are streamed to
the template in small groups.  When a worker dies (SIGABRT,
SIGSEGV, OOM kill, SIGXCPU) or the wall-clock watchdog kills it, the published index names the one
input that was being processed; that input gets the observation, and the batch resumes behind it
in a freshly forked worker.  A death that happens *between* two calls is not attributed to any
input (it is retried; three in a row are a HarnessError).

Observation = ``Obs(kind, value, vm_kib, rss_kib)``:

    kind      value
    "ret"     the value returned by fn(input)           (must be picklable)
    "exc"     (qualified class name, [names of the classes in its MRO], str(e)[:300])
    "sig"     signal name, e.g. "SIGABRT"               (worker killed while inside the call)
    "exit"    exit status                               (worker called exit() inside the call)
    "timeout" "wall" | "cpu"
    "skipped" reason      only with the per-batch option max_timeouts=N: after N timeouts in one batch the
                          rest of that batch is not executed (the caller must then report exhaustive:false)

    vm_kib / rss_kib: growth of the *peak* virtual size / peak resident set of the worker that is
    attributable to this call (peak after the call minus current size before it; 0 when the peak
    did not move; None for a dead worker).  Peaks are monotone per process, so a worker whose peak
    stands more than RECYCLE_KIB above its current size, or that just grew by more than that,
    exits after reporting and is replaced by a fresh fork (fork resets both peaks to the current
    sizes): the error of every reported growth is therefore bounded by RECYCLE_KIB, independent
    of what ran before in the same worker.
"""

from __future__ import annotations

import collections
import importlib
import importlib.util
import json
import mmap
import os
import pickle
import resource
import select
import signal
import struct
import subprocess
import sys
import time
import traceback

Obs = collections.namedtuple("Obs", "kind value vm_kib rss_kib")

RECYCLE_KIB = 8 * 1024
DEFAULT_AS = 2 << 30
_HDR = struct.Struct("<I")
_IDX = struct.Struct("<q")


class SandboxError(Exception):
    """The sandbox machinery failed (never an observation)."""


def _harness_error(msg):
    try:
        from engines.common import HarnessError
    except Exception:  # pragma: no cover
        HarnessError = SandboxError
    return HarnessError("sandbox: " + msg)


# ============================================================================ framing


def _send(fd, obj):
    data = pickle.dumps(obj, protocol=pickle.HIGHEST_PROTOCOL)
    data = _HDR.pack(len(data)) + data
    view = memoryview(data)
    while view:
        n = os.write(fd, view)
        view = view[n:]


def _read_exact(fd, n):
    chunks = []
    while n:
        d = os.read(fd, min(n, 1 << 20))
        if not d:
            return None
        chunks.append(d)
        n -= len(d)
    return b"".join(chunks)


def _recv(fd):
    h = _read_exact(fd, _HDR.size)
    if h is None:
        return None
    body = _read_exact(fd, _HDR.unpack(h)[0])
    if body is None:
        return None
    return pickle.loads(body)


# ============================================================================ caller side


class _Slot:
    def __init__(self, cfg, debug):
        c2t_r, c2t_w = os.pipe()
        t2c_r, t2c_w = os.pipe()
        cfg = dict(cfg, rfd=c2t_r, wfd=t2c_w)
        env = dict(os.environ, RUST_BACKTRACE="0", PYTHONHASHSEED="0", PYTHONDONTWRITEBYTECODE="1",
                   VERIF_SANDBOX_CFG=json.dumps(cfg))
        err = None if debug else subprocess.DEVNULL
        verif = os.path.dirname(os.path.dirname(os.path.abspath(__file__)))
        boot = ("import sys; sys.path[:] = [p for p in sys.path if p not in ('', %r)]; sys.path.insert(0, %r); "
                "from engines.sandbox import _template_main; sys.exit(_template_main())" % (cfg["cwd"], verif))
        self.proc = subprocess.Popen(
            [sys.executable, "-c", boot],
            stdin=subprocess.DEVNULL, stdout=subprocess.DEVNULL, stderr=err,
            env=env, pass_fds=(c2t_r, t2c_w), cwd=cfg["cwd"],
        )
        os.close(c2t_r)
        os.close(t2c_w)
        self.w = c2t_w
        self.r = t2c_r
        hello = _recv(self.r)
        if hello is None:
            raise _harness_error("template died during start-up (status %r); re-run with "
                                 "VERIF_SANDBOX_STDERR=1" % (self.proc.wait(),))
        if hello[0] != "hello":
            raise _harness_error("template start-up failed:\n%s" % (hello[1],))
        self.info = hello[1]

    def run(self, fn, inputs, opts=None):
        _send(self.w, ("batch", fn, inputs, opts or {}))
        msg = _recv(self.r)
        if msg is None:
            raise _harness_error("template died while running a batch (status %r)" % (self.proc.wait(),))
        if msg[0] != "obs":
            raise _harness_error("batch failed inside the template:\n%s" % (msg[1],))
        return msg[1], msg[2]

    def close(self):
        for fd in (self.w, self.r):
            try:
                os.close(fd)
            except OSError:
                pass
        try:
            self.proc.wait(timeout=5)
        except Exception:
            self.proc.kill()
            self.proc.wait()


class Pool:
    """A pool of sandboxed long-lived workers.  See the module docstring."""

    def __init__(self, workers=1, flavour=None, rust_paths=None, rlimit_as=DEFAULT_AS, cpu_s=20,
                 wall_s=30, setup=None, setup_arg=None, imports=(), batch=2000):
        from engines import common

        self.flavour = flavour
        self.batch = batch
        self.stats = collections.Counter()
        if flavour in ("rust", "rust-release") and rust_paths is None:
            rust_paths = common.rust_paths(release=(flavour == "rust-release"))
        cwd = os.path.join(common.scratch_root(), "sandbox")
        os.makedirs(cwd, exist_ok=True)
        cfg = {
            "flavour": flavour,
            "rust_paths": {k: v for k, v in (rust_paths or {}).items() if isinstance(v, str)},
            "rlimit_as": rlimit_as,
            "cpu_s": cpu_s,
            "wall_s": wall_s,
            "setup": setup,
            "setup_arg_hex": pickle.dumps(setup_arg).hex(),
            "imports": list(imports),
            "sys_path": [common.VERIF, common.REPO],
            "repo": common.REPO,
            "cwd": cwd,
        }
        debug = bool(os.environ.get("VERIF_SANDBOX_STDERR"))
        self.slots = [_Slot(cfg, debug) for _ in range(max(1, workers))]
        self.info = self.slots[0].info
        self._owner = os.getpid()
        self._pending = None

    # -- public
    def map_observe(self, fn, inputs, batch=None, **opts):
        """fn: "module:function" (imported inside the sandbox).  Returns [Obs] aligned with inputs.
        opts may override wall_s / cpu_s for this call."""
        if not isinstance(fn, str):
            fn = "%s:%s" % (fn.__module__, fn.__name__)
        inputs = list(inputs)
        if not inputs:
            return []
        batch = batch or self.batch
        chunks = [(i, inputs[i:i + batch]) for i in range(0, len(inputs), batch)]
        out = [None] * len(inputs)
        if len(self.slots) == 1 or len(chunks) == 1:
            for off, part in chunks:
                self._store(out, off, self.slots[0].run(fn, part, opts))
        else:
            import threading

            todo = list(reversed(chunks))
            lock = threading.Lock()
            errors = []

            def drive(slot):
                try:
                    while True:
                        with lock:
                            if not todo or errors:
                                return
                            off, part = todo.pop()
                        res = slot.run(fn, part, opts)
                        with lock:
                            self._store(out, off, res)
                except BaseException as e:  # re-raised in the caller
                    with lock:
                        errors.append(e)

            threads = [threading.Thread(target=drive, args=(s,)) for s in self.slots]
            for t in threads:
                t.start()
            for t in threads:
                t.join()
            if errors:
                raise errors[0]
        if any(o is None for o in out):
            raise _harness_error("an input was left without an observation")
        return out

    def observe(self, fn, x):
        return self.map_observe(fn, [x])[0]

    def start(self, fn, inputs, **opts):
        """Asynchronous form for single-slot pools: send one batch now, fetch it with finish().
        Lets a caller keep several pools (e.g. the Rust and the pure-Python flavour) busy at once."""
        if not isinstance(fn, str):
            fn = "%s:%s" % (fn.__module__, fn.__name__)
        assert self._pending is None and len(self.slots) == 1
        inputs = list(inputs)
        self._pending = len(inputs)
        if inputs:
            _send(self.slots[0].w, ("batch", fn, inputs, opts))

    def finish(self):
        n, self._pending = self._pending, None
        if not n:
            return []
        slot = self.slots[0]
        msg = _recv(slot.r)
        if msg is None:
            raise _harness_error("template died while running a batch (status %r)" % (slot.proc.wait(),))
        if msg[0] != "obs":
            raise _harness_error("batch failed inside the template:\n%s" % (msg[1],))
        out = [None] * n
        self._store(out, 0, (msg[1], msg[2]))
        return out

    def close(self):
        if os.getpid() != self._owner:
            return
        for s in self.slots:
            s.close()
        self.slots = []

    def __enter__(self):
        return self

    def __exit__(self, *a):
        self.close()

    # -- internals
    def _store(self, out, off, res):
        obs, stats = res
        for k, o in enumerate(obs):
            out[off + k] = Obs(*o)
        self.stats.update(stats)


_POOLS = {}


def get_pool(flavour, setup=None, setup_arg=None, **kw):
    """Per-process cache of single-slot pools (a forked pool worker never reuses its parent's)."""
    import atexit

    key = (os.getpid(), flavour, setup, repr(setup_arg), tuple(sorted(kw.items())))
    p = _POOLS.get(key)
    if p is None:
        p = _POOLS[key] = Pool(workers=1, flavour=flavour, setup=setup, setup_arg=setup_arg, **kw)
        atexit.register(p.close)
    return p


def drop_pools():
    """Close and forget the pools of this process (e.g. before forking pool workers)."""
    for key in [k for k in _POOLS if k[0] == os.getpid()]:
        _POOLS.pop(key).close()


def observe_all(jobs, **opts):
    """jobs: [(pool, fn, inputs)] with distinct single-slot pools -> [[Obs]] ; all pools run concurrently."""
    for pool, fn, inputs in jobs:
        pool.start(fn, inputs, **opts)
    return [pool.finish() for pool, _, _ in jobs]


# ============================================================================ template side


def _prctl_pdeathsig():
    try:
        import ctypes

        ctypes.CDLL(None, use_errno=True).prctl(1, signal.SIGKILL, 0, 0, 0)
    except Exception:
        pass


def _load_rust(paths):
    """Same as common.preload_rust(), with paths handed down by the caller (no cargo here)."""
    import dulwich  # noqa: F401

    for short in ("_pack", "_objects", "_diff_tree"):
        name = "dulwich." + short
        spec = importlib.util.spec_from_file_location(name, paths[short])
        mod = importlib.util.module_from_spec(spec)
        spec.loader.exec_module(mod)
        sys.modules[name] = mod
        setattr(sys.modules["dulwich"], short, mod)


def _resolve(name):
    modname, _, attr = name.partition(":")
    return getattr(importlib.import_module(modname), attr)


def _bindings():
    """What dulwich's public names are bound to in this interpreter (for the caller's sanity checks)."""
    import dulwich
    import dulwich.diff_tree
    import dulwich.objects
    import dulwich.pack

    def origin(f):
        m = getattr(f, "__module__", None)
        kind = "builtin" if type(f).__name__ == "builtin_function_or_method" else "python"
        return "%s:%s" % (kind, m)

    ext = {}
    for short in ("_pack", "_objects", "_diff_tree"):
        m = sys.modules.get("dulwich." + short)
        ext[short] = getattr(m, "__file__", None) if m is not None else None
    return {
        "pid": os.getpid(),
        "dulwich": os.path.dirname(os.path.abspath(dulwich.__file__)),
        "ext": ext,
        "apply_delta": origin(dulwich.pack.apply_delta),
        "create_delta": origin(dulwich.pack.create_delta),
        "bisect_find_sha": origin(dulwich.pack.bisect_find_sha),
        "parse_tree": origin(dulwich.objects.parse_tree),
        "sorted_tree_items": origin(dulwich.objects.sorted_tree_items),
        "_count_blocks": origin(dulwich.diff_tree._count_blocks),
        "_is_tree": origin(dulwich.diff_tree._is_tree),
        "_merge_entries": origin(dulwich.diff_tree._merge_entries),
    }


_MEM_KEYS = (b"VmPeak:", b"VmSize:", b"VmHWM:", b"VmRSS:")


def _mem(fd):
    s = os.pread(fd, 4096, 0)
    out = []
    for key in _MEM_KEYS:
        i = s.index(key) + len(key)
        out.append(int(s[i:s.index(b"kB", i)]))
    return out  # peak, size, hwm, rss  (KiB)


def _exc_record(e):
    t = type(e)
    try:
        msg = str(e)
    except Exception:
        msg = "<unprintable>"
    return ("%s.%s" % (t.__module__, t.__qualname__), [c.__name__ for c in t.__mro__], msg[:300])


def _flush(wfd, recs):
    if not recs:
        return
    try:
        data = pickle.dumps(recs, protocol=pickle.HIGHEST_PROTOCOL)
    except Exception:
        safe = []
        for r in recs:
            try:
                pickle.dumps(r)
                safe.append(r)
            except Exception as e:
                safe.append((r[0], "ret", ("<unpicklable %s>" % type(r[2]).__name__, repr(e)[:200]), r[3], r[4]))
        data = pickle.dumps(safe, protocol=pickle.HIGHEST_PROTOCOL)
    data = _HDR.pack(len(data)) + data
    view = memoryview(data)
    while view:
        n = os.write(wfd, view)
        view = view[n:]
    del recs[:]


def _worker(fn, inputs, todo, wfd, shm, cfg):
    """Runs in a forked child of the template.  Never returns."""
    code = 0
    try:
        resource.setrlimit(resource.RLIMIT_AS, (cfg["rlimit_as"], cfg["rlimit_as"]))
        cpu_s = int(cfg["cpu_s"])
        armed_at = None
        sfd = os.open("/proc/self/status", os.O_RDONLY)
        before = _mem(sfd)
        ptime = time.process_time
        recs = []
        flushed_at = ptime()
        for i in todo:
            now = ptime()
            if armed_at is None or now - armed_at >= 1.0:
                # soft limit only: SIGXCPU once this *call* has used >= cpu_s seconds
                resource.setrlimit(resource.RLIMIT_CPU, (int(now) + 2 + cpu_s, resource.RLIM_INFINITY))
                armed_at = now
            if len(recs) >= 512 or now - flushed_at >= 0.05:
                _flush(wfd, recs)
                flushed_at = now
            shm[0:8] = _IDX.pack(i)  # "I am inside call i"
            recycle = False
            try:
                rec = ("ret", fn(inputs[i]))
            except BaseException as e:  # PanicException derives from BaseException
                rec = ("exc", _exc_record(e))
                recycle = isinstance(e, MemoryError)
            after = _mem(sfd)
            shm[8:16] = _IDX.pack(i)  # "call i is over"
            vm = after[0] - before[1] if after[0] > before[0] else 0
            rss = after[2] - before[3] if after[2] > before[2] else 0
            recs.append((i,) + rec + (vm, rss))
            del rec
            if (recycle or vm > RECYCLE_KIB or rss > RECYCLE_KIB
                    or after[0] - after[1] > RECYCLE_KIB or after[2] - after[3] > RECYCLE_KIB):
                code = 77  # "please replace me"
                break
            before = after
        _flush(wfd, recs)
    except BaseException:
        code = 78  # bug in the worker loop itself
        try:
            os.write(2, traceback.format_exc().encode())
        except Exception:
            pass
    os._exit(code)


def _run_batch(fn, inputs, shm, cfg, cmd_fds):
    n = len(inputs)
    obs = [None] * n
    stats = collections.Counter()
    wall_s = float(cfg["wall_s"])
    unattributed = 0
    while True:
        todo = [i for i in range(n) if obs[i] is None]
        if not todo:
            break
        max_to = cfg.get("max_timeouts")
        if max_to and stats["timeouts_wall"] + stats["timeouts_cpu"] >= max_to:
            # circuit breaker: do not spend cpu_s seconds on each of thousands of hanging inputs
            for i in todo:
                obs[i] = ("skipped", "after-%d-timeouts" % max_to, None, None)
            stats["skipped_after_timeouts"] += len(todo)
            break
        shm[0:8] = _IDX.pack(-1)
        shm[8:16] = _IDX.pack(-1)
        r, w = os.pipe()
        pid = os.fork()
        if pid == 0:
            os.close(r)
            for fd in cmd_fds:
                try:
                    os.close(fd)
                except OSError:
                    pass
            _prctl_pdeathsig()
            _worker(fn, inputs, todo, w, shm, cfg)
        os.close(w)
        stats["workers_forked"] += 1
        buf = bytearray()
        last_idx = -1
        last_progress = time.monotonic()
        killed_by_watchdog = False
        while True:
            ready, _, _ = select.select([r], [], [], 0.25)
            now = time.monotonic()
            if ready:
                d = os.read(r, 1 << 18)
                if not d:
                    break
                buf += d
                pos = 0
                while len(buf) - pos >= 4:
                    ln = _HDR.unpack_from(buf, pos)[0]
                    if len(buf) - pos - 4 < ln:
                        break
                    for rec in pickle.loads(bytes(buf[pos + 4:pos + 4 + ln])):
                        obs[rec[0]] = rec[1:]
                    pos += 4 + ln
                del buf[:pos]
                last_progress = now
                continue
            idx = _IDX.unpack(shm[0:8])[0]
            if idx != last_idx:
                last_idx = idx
                last_progress = now
            elif now - last_progress > wall_s and not killed_by_watchdog:
                killed_by_watchdog = True
                try:
                    os.kill(pid, signal.SIGKILL)
                except ProcessLookupError:
                    pass
        os.close(r)
        _, st = os.waitpid(pid, 0)
        idx = _IDX.unpack(shm[0:8])[0]
        done = _IDX.unpack(shm[8:16])[0]
        if os.WIFEXITED(st) and os.WEXITSTATUS(st) in (0, 77) and not killed_by_watchdog:
            if os.WEXITSTATUS(st) == 77:
                stats["workers_recycled"] += 1
            if obs[todo[0]] is None:
                raise SandboxError("worker exited with status %d without reporting input %d" % (os.WEXITSTATUS(st), todo[0]))
            continue
        if os.WIFEXITED(st) and os.WEXITSTATUS(st) == 78:
            raise SandboxError("worker loop failed (exit 78) near input %d" % idx)
        # abnormal end: if it happened inside a call, the published index names the input (records
        # of earlier inputs that were still buffered in the dead worker are simply recomputed)
        if 0 <= idx < n and idx != done and obs[idx] is None:
            unattributed = 0
            if killed_by_watchdog:
                obs[idx] = ("timeout", "wall", None, None)
                stats["timeouts_wall"] += 1
            elif os.WIFSIGNALED(st):
                sig = os.WTERMSIG(st)
                if sig == signal.SIGXCPU:
                    obs[idx] = ("timeout", "cpu", None, None)
                    stats["timeouts_cpu"] += 1
                else:
                    try:
                        name = signal.Signals(sig).name
                    except ValueError:
                        name = "SIG%d" % sig
                    obs[idx] = ("sig", name, None, None)
                    stats["killed_by_signal"] += 1
            else:
                obs[idx] = ("exit", os.WEXITSTATUS(st), None, None)
                stats["exited_inside_call"] += 1
        else:
            unattributed += 1
            stats["unattributed_deaths"] += 1
            if unattributed >= 3:
                raise SandboxError("worker keeps dying outside any call (status %r, index %r)" % (st, idx))
    return obs, dict(stats)


def _template_main():
    cfg = json.loads(os.environ.pop("VERIF_SANDBOX_CFG"))
    rfd, wfd = cfg["rfd"], cfg["wfd"]
    _prctl_pdeathsig()
    try:
        resource.setrlimit(resource.RLIMIT_CORE, (0, 0))
        for p in reversed(cfg["sys_path"]):
            if p in sys.path:
                sys.path.remove(p)
            sys.path.insert(0, p)
        flavour = cfg["flavour"]
        if flavour == "py":
            for short in ("_pack", "_objects", "_diff_tree"):
                sys.modules["dulwich." + short] = None  # == common.block_rust()
        elif flavour in ("rust", "rust-release"):
            _load_rust(cfg["rust_paths"])
        elif flavour is not None:
            raise SandboxError("unknown flavour %r" % (flavour,))
        info = _bindings()
        if os.path.abspath(info["dulwich"]) != os.path.join(os.path.abspath(cfg["repo"]), "dulwich"):
            raise SandboxError("dulwich imported from %s, not from %s" % (info["dulwich"], cfg["repo"]))
        want = {"py": "python", "rust": "builtin", "rust-release": "builtin"}.get(flavour)
        if want:
            for k in ("apply_delta", "bisect_find_sha", "parse_tree", "sorted_tree_items",
                      "_count_blocks", "_is_tree", "_merge_entries"):
                if not info[k].startswith(want):
                    raise SandboxError("flavour %s but %s is bound to %s" % (flavour, k, info[k]))
            if want == "builtin":
                for short, path in info["ext"].items():
                    if path != cfg["rust_paths"][short]:
                        raise SandboxError("extension %s loaded from %r, expected %r" % (short, path, cfg["rust_paths"][short]))
        for m in cfg["imports"]:
            importlib.import_module(m)
        if cfg["setup"]:
            extra = _resolve(cfg["setup"])(pickle.loads(bytes.fromhex(cfg["setup_arg_hex"])))
            if extra:
                info["setup"] = extra
        shm = mmap.mmap(-1, 4096)  # MAP_SHARED | MAP_ANONYMOUS
    except BaseException:
        _send(wfd, ("error", traceback.format_exc()))
        return 1
    _send(wfd, ("hello", info))
    fns = {}
    while True:
        msg = _recv(rfd)
        if msg is None or msg[0] == "quit":
            return 0
        try:
            _, fname, inputs, opts = msg
            if fname not in fns:
                fns[fname] = _resolve(fname)
            obs, stats = _run_batch(fns[fname], inputs, shm, dict(cfg, **opts), (rfd, wfd))
            _send(wfd, ("obs", obs, stats))
        except BaseException:
            _send(wfd, ("error", traceback.format_exc()))


# ============================================================================ self-test functions
# (used by `python engines/sandbox.py --selftest` and by the checks' harness self-checks)


def st_echo(x):
    return x


def st_misbehave(x):
    """x selects a way to go wrong."""
    kind = x[0]
    if kind == "ok":
        return x[1]
    if kind == "raise":
        raise ValueError("boom %r" % (x[1],))
    if kind == "abort":
        os.abort()
    if kind == "segv":
        os.kill(os.getpid(), signal.SIGSEGV)
    if kind == "kill":
        os.kill(os.getpid(), signal.SIGKILL)
    if kind == "exit":
        os._exit(3)
    if kind == "spin":
        while True:
            pass
    if kind == "sleep":
        time.sleep(x[1])
        return "slept"
    if kind == "alloc":  # touch the memory
        b = bytearray(x[1])
        return len(b)
    if kind == "reserve":  # virtual only
        m = mmap.mmap(-1, x[1])
        m.close()
        return x[1]
    if kind == "toomuch":
        b = bytearray(x[1])
        return len(b)
    raise AssertionError(kind)


def _selftest():
    sys.path.insert(0, os.path.dirname(os.path.dirname(os.path.abspath(__file__))))
    from engines import common  # noqa: F401

    me = "engines.sandbox:st_misbehave"
    with Pool(flavour=None, cpu_s=2, wall_s=3) as pool:
        inputs = [("ok", 1), ("raise", 2), ("abort",), ("ok", 3), ("segv",), ("kill",), ("exit",), ("ok", 4),
                  ("alloc", 100 << 20), ("ok", 5), ("reserve", 300 << 20), ("ok", 6), ("toomuch", 3 << 30),
                  ("ok", 7), ("sleep", 5), ("ok", 8), ("spin",), ("ok", 9)]
        t0 = time.time()
        obs = pool.map_observe(me, inputs)
        for i, o in zip(inputs, obs):
            print("%-22r -> %r" % (i, tuple(o)))
        print("stats", dict(pool.stats), "%.2fs" % (time.time() - t0))
        kinds = [o.kind if o.kind != "ret" else o.value for o in obs]
        assert [o.value for o in obs if o.kind == "ret" and isinstance(o.value, int) and o.value < 10] == [1, 3, 4, 5, 6, 7, 8, 9], kinds
        assert obs[2][:2] == ("sig", "SIGABRT") and obs[4][:2] == ("sig", "SIGSEGV") and obs[5][:2] == ("sig", "SIGKILL")
        assert obs[6][:2] == ("exit", 3)
        assert obs[8].rss_kib > 90 * 1024 and obs[9].rss_kib < 1024, (obs[8], obs[9])
        assert obs[10].vm_kib > 290 * 1024 and obs[10].rss_kib < 8 * 1024 and obs[11].vm_kib < 1024, (obs[10], obs[11])
        assert obs[12].kind == "exc" and obs[12].value[0] == "builtins.MemoryError"
        assert obs[14][:2] == ("timeout", "wall") and obs[16][:2] in (("timeout", "cpu"), ("timeout", "wall"))
        t0 = time.time()
        n = 200000
        obs = pool.map_observe("engines.sandbox:st_echo", list(range(n)))
        assert [o.value for o in obs] == list(range(n))
        print("throughput: %.1f us/input" % ((time.time() - t0) / n * 1e6))
    print("sandbox selftest ok")


if __name__ == "__main__":
    if "--selftest" in sys.argv:
        _selftest()
