"""E5 `mutfault` — exhaustive single-fault mutation of a small artefact (bytes).

The space is declared and finite; nothing is sampled.  For an artefact of length L:

    truncate   every proper prefix  data[:k], k = 0 .. L-1                       L   mutants
    bitflip    every single bit     data[i] ^= 1 << b                            8·L
    byteset    every byte set to 0x00 / 0xFF / +1 / -1 (mod 256)                 <= 4·L  (no-ops dropped,
               duplicates of each other dropped per position)
    append     every tail from a caller-supplied tail alphabet                   len(tails)
    splice     prefix of A up to a boundary + suffix of B from a boundary        |bA|·|bB|

(`data[:L]` — the artefact itself — is not a mutant; DESIGN's "L+1 truncation points" counts it.)

A mutant is described by a small JSON-able descriptor `(kind, pos, arg)`; `apply(data, desc)`
rebuilds the bytes, so replay files store the base artefact once plus the descriptor.

API
    descriptors(L_or_data, kinds=DEFAULT_KINDS, window=None, tails=()) -> iterator of (kind, pos, arg)
    apply(data, desc) -> bytes
    mutants(data, kinds=..., window=None, tails=()) -> iterator of Mutant(kind, pos, arg, data)
    count(data, kinds=..., window=None, tails=()) -> {kind: n}   (exact, by enumeration of descriptors)
    splice_descriptors(bounds_a, bounds_b) / apply_splice(a, b, desc)
    label(desc, regions) -> region label of the first damaged byte, regions = [(start, end, label)]
    chunks(descs, n) -> deterministic interleaved partition for worker fan-out

`window=(lo, hi)` restricts positions to lo <= pos < hi (for artefacts whose interesting part is
a slice, e.g. the idx fan-out table); the evidence must then name the window.
"""

from __future__ import annotations

from collections import namedtuple

Mutant = namedtuple("Mutant", "kind pos arg data")

TRUNCATE = "truncate"
BITFLIP = "bitflip"
BYTESET = "byteset"
APPEND = "append"
SPLICE = "splice"
DEFAULT_KINDS = (TRUNCATE, BITFLIP, BYTESET)
BYTESET_OPS = ("00", "ff", "+1", "-1")


def _byteset_value(old: int, op: str) -> int:
    if op == "00":
        return 0
    if op == "ff":
        return 0xFF
    if op == "+1":
        return (old + 1) & 0xFF
    if op == "-1":
        return (old - 1) & 0xFF
    raise ValueError(op)


def descriptors(data, kinds=DEFAULT_KINDS, window=None, tails=()):
    """All single-fault descriptors for `data` in a fixed order (simplest first: truncations
    from the end, then byte sets, then bit flips, then appended tails)."""
    L = len(data)
    lo, hi = window if window else (0, L)
    lo, hi = max(lo, 0), min(hi, L)
    if TRUNCATE in kinds:
        for k in range(hi - 1, lo - 1, -1):
            yield (TRUNCATE, k, None)
    if BYTESET in kinds:
        for i in range(lo, hi):
            seen = {data[i]}
            for op in BYTESET_OPS:
                v = _byteset_value(data[i], op)
                if v not in seen:  # drop no-ops and duplicates at this position
                    seen.add(v)
                    yield (BYTESET, i, op)
    if BITFLIP in kinds:
        for i in range(lo, hi):
            for b in range(8):
                yield (BITFLIP, i, b)
    if APPEND in kinds:
        for j, _ in enumerate(tails):
            yield (APPEND, L, j)


def apply(data: bytes, desc, tails=()) -> bytes:
    kind, pos, arg = desc
    if kind == TRUNCATE:
        return data[:pos]
    if kind == BITFLIP:
        return data[:pos] + bytes([data[pos] ^ (1 << arg)]) + data[pos + 1 :]
    if kind == BYTESET:
        return data[:pos] + bytes([_byteset_value(data[pos], arg)]) + data[pos + 1 :]
    if kind == APPEND:
        return data + tails[arg]
    raise ValueError(kind)


def mutants(data: bytes, kinds=DEFAULT_KINDS, window=None, tails=()):
    for d in descriptors(data, kinds, window, tails):
        yield Mutant(d[0], d[1], d[2], apply(data, d, tails))


def count(data, kinds=DEFAULT_KINDS, window=None, tails=()):
    out = {}
    for k, _, _ in descriptors(data, kinds, window, tails):
        out[k] = out.get(k, 0) + 1
    return out


def splice_descriptors(bounds_a, bounds_b):
    """All (SPLICE, cut_a, cut_b): data_a[:cut_a] + data_b[cut_b:], cuts at object boundaries."""
    for a in bounds_a:
        for b in bounds_b:
            yield (SPLICE, a, b)


def apply_splice(data_a: bytes, data_b: bytes, desc) -> bytes:
    _, a, b = desc
    return data_a[:a] + data_b[b:]


def label(desc, regions) -> str:
    """Region label of the first byte the fault touches (for stable violation keys)."""
    pos = desc[1]
    for a, b, name in regions:
        if a <= pos < b:
            return name
    return "eof"


def chunks(descs, n):
    descs = list(descs)
    parts = [descs[i::n] for i in range(n)]
    return [p for p in parts if p]
