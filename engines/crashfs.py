"""E2 — crash-point and fault-point enumeration over the interposed file system.

An operation under test runs once to number its N mutating steps; then it is re-executed from a
fresh copy of the start state once per (step, variant):

  * fault at i     : step i raises OSError(errno) / KeyboardInterrupt instead of executing; the run
                     then continues normally (clean-up code runs for real);
  * crash at k     : immediately before step k a private BaseException is raised and from then on
                     every interposed mutation (flushes from finally/__exit__/__del__ included) is
                     silently dropped: the directory *is* the post-crash disk (completed write(2)s
                     are there, user-space buffers are lost);
  * power loss at k: as crash, plus — for data written since the last fsync of its inode — variants
                     in which such files are zero-length or missing (metadata ordered).
"""

from __future__ import annotations

import errno
import gc
import os
import shutil
import warnings

from . import fsint
from .common import HarnessError, fresh_dir, rmtree


class Crash(BaseException):
    pass


FAULT_KINDS = {
    "ENOSPC": lambda: OSError(errno.ENOSPC, "No space left on device (injected)"),
    "EIO": lambda: OSError(errno.EIO, "Input/output error (injected)"),
    "EPERM": lambda: PermissionError(errno.EPERM, "Operation not permitted (injected)"),
    "KeyboardInterrupt": lambda: KeyboardInterrupt("injected"),
}


class StepController(fsint.BaseController):
    """Counts/logs mutating steps; optionally faults at one index or crashes at one index."""

    def __init__(self, root, fault_at=None, fault_kind=None, crash_at=None, site_filter=None, second_fault_at=None,
                 all_ops=False, torn=None):
        super().__init__(root)
        self.torn = torn  # bytes of the write at crash_at that still reach the file before the crash (None: none)
        self.all_ops = all_ops  # number read-only calls as steps too (asynchronous KeyboardInterrupt sites)
        self.steps = []  # (op, relpath, n)
        self.fault_at = fault_at
        self.second_fault_at = second_fault_at
        self.fault_kind = fault_kind
        self.crash_at = crash_at
        self.crashed = False
        self.site_filter = site_filter
        self.dirty = {}  # relpath -> bytes written since last fsync (power-loss model)
        self.injected = False
        self.probe = None  # callable(ctl) evaluated before every interposed call once a fault was injected
        self.probe_always = False

    def is_site(self, op, path, info):
        if op not in fsint.MUTATING and not self.all_ops:
            return False
        if self.site_filter is not None and not self.site_filter(op, self.rel(path), info):
            return False
        return True

    def before(self, actor, op, path, info):
        if self.crashed:
            if op in fsint.MUTATING:
                return fsint.SKIP
            return None
        if self.probe is not None and (self.injected or self.probe_always):
            self.probe(self, op, self.rel(path))
        if not self.is_site(op, path, info):
            return None
        idx = len(self.steps)
        self.steps.append((op, self.rel(path), info.get("n")))
        if self.crash_at is not None and idx == self.crash_at:
            if self.torn:
                if op != "write" or "file" not in info:
                    raise RuntimeError("torn write requested at a step that is not a write: %r" % (self.steps[-1],))
                fsint.raw_write(info["file"], bytes(info["data"])[: self.torn])
                self.dirty[self.rel(path)] = self.dirty.get(self.rel(path), 0) + self.torn
            self.crashed = True
            raise Crash()
        if self.fault_at is not None and (idx == self.fault_at or idx == self.second_fault_at):
            self.injected = True
            raise FAULT_KINDS[self.fault_kind]()
        if op in ("replace", "rename", "remove", "rmdir"):
            self.pin(path)
        return None

    def after(self, actor, op, path, info, res):
        r = self.rel(path)
        if op == "write":
            self.dirty[r] = self.dirty.get(r, 0) + (info.get("n") or 0)
        elif op == "open_w":
            self.dirty.setdefault(r, 0)
        elif op == "fsync":
            self.dirty.pop(r, None)
        elif op in ("replace", "rename"):
            src = info.get("src")
            if src:
                s = self.rel(src)
                if s in self.dirty:
                    self.dirty[r] = self.dirty.pop(s)
        elif op == "remove":
            self.dirty.pop(r, None)


def _locks(root):
    out = []
    for d, _, files in os.walk(root):
        for f in files:
            if f.endswith(".lock"):
                out.append(os.path.relpath(os.path.join(d, f), root))
    return sorted(out)


def run_op(root, op, probe=None, **kw):
    """Run op(root) on this thread under a StepController; returns (ctl, outcome).
    ctl.locks_at_raise lists the *.lock files present at the moment the operation's exception
    reached the caller (while the exception object, and whatever it keeps alive, still exists)."""
    fsint.install()
    ctl = StepController(root, **kw)
    ctl.probe = probe
    ctl.locks_at_raise = None
    fsint.attach(ctl, 0)
    outcome = None
    try:
        with warnings.catch_warnings():
            warnings.simplefilter("ignore")
            try:
                v = op(root)
                outcome = ("ok", v)
            except Crash:
                outcome = ("crash", None)
            except KeyboardInterrupt as e:
                fsint.detach()
                ctl.locks_at_raise = _locks(root)
                fsint.attach(ctl, 0)
                outcome = ("exc", "KeyboardInterrupt")
            except Exception as e:
                fsint.detach()
                ctl.locks_at_raise = _locks(root)
                fsint.attach(ctl, 0)
                outcome = ("exc", "%s: %s" % (type(e).__name__, str(e)[:200]))
            # finalisers of dropped file objects run now, still under the controller (post-crash
            # writes are dropped; after a fault they execute for real, as in a live process)
            e = None
            gc.collect()
    finally:
        fsint.detach()
        ctl.release()
    return ctl, outcome


class Enumerator:
    """Holds the template of the start state and hands out fresh copies."""

    def __init__(self, setup):
        self.template = fresh_dir("ctmpl")
        setup(self.template)
        self.work = fresh_dir("cwork")
        self.n = 0

    def fresh(self):
        root = os.path.join(self.work, "r")
        if os.path.lexists(root):
            shutil.rmtree(root)
        shutil.copytree(self.template, root, symlinks=True)
        return root

    def close(self):
        rmtree(self.template)
        rmtree(self.work)


def snapshot(root, skip=()):
    """Canonical {relpath: bytes | ('link', target) | '<dir>'} of a directory tree."""
    out = {}
    for d, dirs, files in os.walk(root):
        dirs.sort()
        rel = os.path.relpath(d, root)
        if rel != ".":
            out[rel + "/"] = "<dir>"
        for f in sorted(files):
            p = os.path.join(d, f)
            r = os.path.relpath(p, root)
            if any(r.startswith(s) for s in skip):
                continue
            if os.path.islink(p):
                out[r] = ("link", os.readlink(p))
            else:
                with open(p, "rb") as fh:
                    out[r] = fh.read()
    return out
