"""E3 — explicit-state breadth-first search where a state is a directory and a transition runs
one real dulwich operation on it.

States are stored as canonical snapshots (sorted tuples of (relpath, kind, payload)); a transition
restores the snapshot into a scratch directory, runs the operation with fresh objects, and snapshots
the result.  The caller supplies the operation menu, the reference-model step and the judge.
"""

from __future__ import annotations

import collections
import os
import shutil

from .common import fresh_dir, rmtree


def snapshot(root, keep=None, drop=None):
    """Canonical, hashable image of a directory tree.  Volatile fields (mtimes, inode numbers) are
    not part of it.  `keep(rel)` / `drop(rel)` filter paths."""
    items = []
    for d, dirs, files in os.walk(root):
        dirs.sort()
        rel = os.path.relpath(d, root)
        if rel != "." and not dirs and not files:
            if not (drop and drop(rel + "/")):
                items.append((rel + "/", "d", b""))
        for f in sorted(files):
            p = os.path.join(d, f)
            r = os.path.relpath(p, root)
            if keep and not keep(r):
                continue
            if drop and drop(r):
                continue
            if os.path.islink(p):
                items.append((r, "l", os.readlink(p).encode()))
            else:
                with open(p, "rb") as fh:
                    items.append((r, "f", fh.read()))
    return tuple(items)


def restore(snap, root):
    if os.path.lexists(root):
        shutil.rmtree(root)
    os.makedirs(root)
    for rel, kind, payload in snap:
        p = os.path.join(root, rel)
        if kind == "d":
            os.makedirs(p, exist_ok=True)
            continue
        os.makedirs(os.path.dirname(p), exist_ok=True)
        if kind == "l":
            os.symlink(payload.decode(), p)
        else:
            with open(p, "wb") as f:
                f.write(payload)


class Search:
    """Generic BFS.  step(node, op, workdir) -> (new_key, new_node) | None  (None: no successor).
    A node is whatever the caller wants to carry (snapshot, model state, path)."""

    def __init__(self, max_depth=None, max_states=None):
        self.max_depth = max_depth
        self.max_states = max_states
        self.seen = {}
        self.frontier = collections.deque()
        self.states = 0
        self.transitions = 0
        self.max_depth_seen = 0
        self.capped = False
        self.work = fresh_dir("bfs")

    def add_initial(self, key, node):
        if key not in self.seen:
            self.seen[key] = 0
            self.frontier.append((node, 0))
            self.states += 1

    def run(self, ops_for, step):
        while self.frontier:
            node, depth = self.frontier.popleft()
            self.max_depth_seen = max(self.max_depth_seen, depth)
            if self.max_depth is not None and depth >= self.max_depth:
                continue
            for op in ops_for(node):
                self.transitions += 1
                r = step(node, op, self.work)
                if r is None:
                    continue
                key, new_node = r
                if key in self.seen:
                    continue
                if self.max_states is not None and self.states >= self.max_states:
                    self.capped = True
                    continue
                self.seen[key] = depth + 1
                self.states += 1
                self.frontier.append((new_node, depth + 1))
        return self

    def close(self):
        rmtree(self.work)
