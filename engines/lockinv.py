"""Lock-protocol invariants evaluated from interposed file-system events (C07, reused by C08/C09).

Tracked from outside, per path X (the protected file) and X.lock:
  * owner[X.lock]  : actor whose successful O_CREAT open created the current lock file and who has
                     not yet consumed it (rename away) or removed it;
  * mutual exclusion: a successful creating open of X.lock while owner is set  -> lock:two-holders
  * non-interference: remove/rename of X.lock (or rename onto it) by a non-owner -> lock:foreign-removal
  * whole-file replacement: the bytes of X only ever change through rename(X.lock -> X) (or an
    unlink of X): any other change observed between two system calls          -> file:modified-in-place
  * the bytes installed by rename(X.lock -> X) are the complete intended payload, if the scenario
    declared one                                                              -> lock:partial-content-published
  * an actor that has held X.lock and released it does not unlink X afterwards without the lock
                                                                              -> lock:protected-file-removed-after-releasing-its-lock
"""

from __future__ import annotations

import os

from . import fsint


def _read(path):
    try:
        with fsint.real("open")(path, "rb") as f:
            return f.read()
    except FileNotFoundError:
        return None
    except IsADirectoryError:
        return "<dir>"
    except OSError as e:
        return "<err %s>" % e.errno


class LockInvariants:
    def __init__(self, root, targets=()):
        self.root = root
        self.owner = {}
        self.holders = {}  # lock path -> set of actors that acquired it and have not released it themselves
        self.content = {}
        self.intended = {}  # actor -> bytes expected to be installed by its next commit
        self.viol = []
        self.installs = []  # (actor, target, content)
        self.had_lock = set()  # (actor, target): the actor has held target.lock at some point of this execution
        for t in targets:
            self.track(t)

    def track(self, target):
        if target not in self.content:
            self.content[target] = _read(target)

    def v(self, key, summary):
        self.viol.append((key, summary))

    def rel(self, p):
        return os.path.relpath(p, self.root)

    # after a successful interposed call ------------------------------------------------
    def after_op(self, actor, op, path, info, res):
        if op == "open_w" and path.endswith(".lock") and info.get("creat"):
            tgt = path[: -len(".lock")]
            self.track(tgt)
            hs = self.holders.setdefault(path, set())
            others = sorted(hs - {actor})
            if others:
                self.v("lock:two-holders", "actor %d obtained %s while actor(s) %r hold it" % (actor, self.rel(path), others))
            hs.add(actor)
            self.owner[path] = actor
            self.had_lock.add((actor, tgt))
        elif op in ("replace", "rename"):
            src = info.get("src")
            if src and src.endswith(".lock"):
                prev = self.owner.get(src)
                if prev is not None and prev != actor:
                    self.v("lock:foreign-removal", "actor %d renamed away %s held by actor %d" % (actor, self.rel(src), prev))
                self.owner[src] = None
                self.holders.setdefault(src, set()).discard(actor)
            if path.endswith(".lock"):
                prev = self.owner.get(path)
                if prev is not None and prev != actor:
                    self.v("lock:foreign-removal", "actor %d renamed onto %s held by actor %d" % (actor, self.rel(path), prev))
            new = _read(path)
            if path in self.content or (src and src.endswith(".lock")):
                if src and src.endswith(".lock") and actor in self.intended and self.intended[actor] is not None:
                    if new != self.intended[actor]:
                        self.v("lock:partial-content-published",
                               "actor %d installed %r over %s but intended %r" % (actor, _short(new), self.rel(path), _short(self.intended[actor])))
                self.content[path] = new
                self.installs.append((actor, path, new))
        elif op == "remove":
            if path.endswith(".lock"):
                prev = self.owner.get(path)
                if prev is not None and prev != actor:
                    self.v("lock:foreign-removal", "actor %d removed %s held by actor %d" % (actor, self.rel(path), prev))
                self.owner[path] = None
                self.holders.setdefault(path, set()).discard(actor)
            if path in self.content:
                if (actor, path) in self.had_lock and actor not in self.holders.get(path + ".lock", set()):
                    # took the lock, let go of it, and only then changes the protected file: whatever it checked under
                    # the lock may no longer be true (somebody else may have committed a new value in between)
                    self.v("lock:protected-file-removed-after-releasing-its-lock",
                           "actor %d unlinked %s after it had released %s.lock" % (actor, self.rel(path), self.rel(path)))
                self.content[path] = None

    # at every scheduling point (between two system calls) ---------------------------------
    def at_point(self):
        for tgt, old in list(self.content.items()):
            cur = _read(tgt)
            if cur != old:
                self.v("file:modified-in-place",
                       "%s changed from %r to %r without a rename of its lock file" % (self.rel(tgt), _short(old), _short(cur)))
                self.content[tgt] = cur

    def gave_up(self, actor):
        """The actor's close()/abort() returned or raised: it no longer considers itself a holder."""
        for hs in self.holders.values():
            hs.discard(actor)

    def drain(self):
        v, self.viol = self.viol, []
        return v


def _short(b):
    if isinstance(b, bytes) and len(b) > 60:
        return b[:50] + b"...(%d bytes)" % len(b)
    return b
