"""E1 — system-call-granularity scheduler with iterative preemption bounding.

Actors are threads with private dulwich objects sharing one sandbox directory.  Every interposed
file-system call (fsint) is a scheduling point *before* the call.  Exactly one actor runs at a
time; the explorer enumerates, depth-first and statelessly, every choice list with at most
`bound` preemptions (a switch away from an actor that could have continued).  Executions always
run to completion.

A scenario supplies
    setup(root)                      -> builds the initial directory (called once; copied per execution)
    actors: [callable(root, rec)]    -> each runs real dulwich code; rec(event) appends to the history
    check(execution) -> list[(key, summary)]   evaluated on every complete execution
    on_point(execution, actor, op, path)       optional invariant evaluated at every point
"""

from __future__ import annotations

import os
import shutil
import sys
import threading
import time

from . import fsint
from .common import HarnessError, fresh_dir, rmtree

HORIZON = 5000


class _Abort(BaseException):
    pass


class _Deadlock(Exception):
    pass


class Execution:
    __slots__ = (
        "choices", "enabled", "trace", "history", "results", "root", "running_enabled",
        "point_viol", "n_preempt", "ctl", "extra",
    )

    def __init__(self):
        self.choices = []      # choice index taken at each decision
        self.enabled = []      # canonical enabled list at each decision
        self.running_enabled = []  # was the previously running actor still enabled at that decision?
        self.trace = []        # (actor, op, relpath) executed at each step
        self.history = []      # events recorded by actors: (actor, kind, payload, step_index)
        self.results = {}      # actor -> ("ok", value) | ("exc", repr)
        self.point_viol = []
        self.n_preempt = 0
        self.extra = {}


class _Baton:
    __slots__ = ("l",)

    def __init__(self):
        self.l = threading.Lock()
        self.l.acquire()

    def acquire(self):
        self.l.acquire()

    def release(self):
        try:
            self.l.release()
        except RuntimeError:
            pass


class _ActorNames:
    """Deterministic, per-actor tempfile names (tempfile's random names would make traces,
    footprints and replays differ between executions)."""

    def __init__(self, n):
        self.c = [0] * (n + 1)

    def __iter__(self):
        return self

    def __next__(self):
        a = getattr(fsint._tls, "actor", None)
        i = a if isinstance(a, int) and a < len(self.c) - 1 else len(self.c) - 1
        self.c[i] += 1
        return "vt%d_%04d" % (i, self.c[i])


class CoopRLock:
    """Stand-in for threading.(R)Lock inside code explored with line-level scheduling: acquiring a lock
    held by another actor does not block the OS thread (the scheduler would hang) but makes the actor
    *disabled* until the lock is free.  Outside a scheduled execution it behaves like an uncontended lock."""

    def __init__(self):
        self.owner = None
        self.count = 0

    def acquire(self, blocking=True, timeout=-1):
        ctl = getattr(fsint._tls, "ctl", None)
        me = getattr(fsint._tls, "actor", None)
        if not isinstance(ctl, SchedController):
            self.count += 1
            return True
        while self.owner is not None and self.owner != me:
            if not blocking:
                return False
            ctl.wait_for_lock(me, self)
        self.owner = me
        self.count += 1
        return True

    def release(self):
        self.count -= 1
        if self.count <= 0:
            self.count = 0
            self.owner = None

    def __enter__(self):
        self.acquire()
        return self

    def __exit__(self, *a):
        self.release()


class coop_threading:
    """Drop-in for the `threading` name of a module under line-level exploration."""

    RLock = CoopRLock
    Lock = CoopRLock

    def __getattr__(self, n):
        return getattr(threading, n)


coop_threading = coop_threading()


def _line_tracer(actor, ctl, files, functions=None):
    """In-memory actors (threads sharing Python objects): every source line executed inside the given
    files (optionally only inside the named functions) is a scheduling point."""

    def local(frame, event, arg):
        if event == "line":
            ctl.before(actor, "line", "%s:%d" % (os.path.basename(frame.f_code.co_filename), frame.f_lineno), {})
        return local

    def glob(frame, event, arg):
        if event == "call" and frame.f_code.co_filename in files:
            if functions is None or frame.f_code.co_name in functions:
                return local
        return None

    return glob


class _Worker:
    """Long-lived actor thread (creating a thread costs ~2 ms in this sandbox)."""

    def __init__(self):
        self.job = None
        self.go = _Baton()
        self.idle = threading.Event()
        self.idle.set()
        self.t = threading.Thread(target=self._loop, daemon=True)
        self.t.start()

    def _loop(self):
        while True:
            self.go.acquire()
            fn, arg = self.job
            try:
                fn(arg)
            finally:
                self.job = None
                self.idle.set()

    def submit(self, fn, arg):
        self.idle.clear()
        self.job = (fn, arg)
        self.go.release()

    def wait_idle(self, timeout):
        return self.idle.wait(timeout)


class SchedController(fsint.BaseController):
    strict_reads = False

    def __init__(self, root, nactors):
        super().__init__(root)
        # raw locks used as binary semaphores (threading.Semaphore is ~10x slower)
        self.sems = [_Baton() for _ in range(nactors)]
        self.main = _Baton()
        self.pending = [None] * nactors  # (op, path, info) the actor is about to execute
        self.finished = [False] * nactors
        self.aborting = False
        self.steps = 0
        self.after_hooks = []
        self.cur = None
        self.blocked = [None] * nactors  # CoopRLock an actor is waiting for

    # called on actor threads -------------------------------------------------
    def before(self, actor, op, path, info):
        if self.aborting:
            raise _Abort()
        if op in ("replace", "rename", "remove", "rmdir"):
            self.pin(path)
        self.pending[actor] = (op, path, info)
        self.main.release()
        self.sems[actor].acquire()
        if self.aborting:
            raise _Abort()
        self.pending[actor] = None
        return None

    def after(self, actor, op, path, info, res):
        for h in self.after_hooks:
            h(actor, op, path, info, res)

    def wait_for_lock(self, actor, lock):
        """Called on an actor thread: the actor is disabled until `lock` is free."""
        if self.aborting:
            raise _Abort()
        self.blocked[actor] = lock
        self.pending[actor] = ("blocked", "lock", {})
        self.main.release()
        self.sems[actor].acquire()
        self.blocked[actor] = None
        if self.aborting:
            raise _Abort()
        self.pending[actor] = None


class Scenario:
    name = "scenario"
    nactors = 2

    def setup(self, root):
        raise NotImplementedError

    def actor(self, i, root, rec):
        raise NotImplementedError

    def begin(self, ex, ctl, root):
        return None

    def check(self, ex, root):
        return []

    def on_point(self, ex, ctl, actor, op, path, root):
        return None

    def after_op(self, ex, ctl, actor, op, path, info, res, root):
        return None


def _copytree(src, dst):
    shutil.copytree(src, dst, symlinks=True)


def _conflicts(p, q):
    """Two file-system calls can only influence each other if they name the same path or one
    names the directory containing the other (listing / creating / removing entries)."""
    return p == q or os.path.dirname(p) == q or os.path.dirname(q) == p


class Explorer:
    def __init__(self, scenario: Scenario, bound: int, max_execs=None, conflict_filter=False, shard=None):
        fsint.install()
        self.sc = scenario
        self.bound = bound
        self.max_execs = max_execs
        self.conflict_filter = conflict_filter
        self.shard = shard  # (k, n): explore only first-level alternatives with index % n == k
        self.footprint = [set() for _ in range(scenario.nactors)]
        self.skipped_by_filter = 0
        self.execs = 0
        self.per_bound = {}
        self.points_total = 0
        self.max_points = 0
        self.outcomes = {}
        self.violations = []  # (key, summary, choices)
        self.capped = False
        self.template = fresh_dir("tmpl")
        self.sc.setup(self.template)
        self.workdir = fresh_dir("exec")

    def reset_stats(self):
        self.execs = 0
        self.per_bound = {}
        self.points_total = 0
        self.max_points = 0
        self.outcomes = {}
        self.violations = []
        self.capped = False
        self.skipped_by_filter = 0

    def close(self):
        rmtree(self.template)
        rmtree(self.workdir)

    # one execution --------------------------------------------------------------
    def run(self, prefix):
        sc = self.sc
        n = sc.nactors
        root = os.path.join(self.workdir, "r")
        if os.path.exists(root):
            shutil.rmtree(root)
        _copytree(self.template, root)
        import tempfile

        tempfile._name_sequence = _ActorNames(n)
        ctl = SchedController(root, n)
        ex = Execution()
        ex.root = root
        ex.ctl = ctl
        ctl.after_hooks.append(lambda a, op, p, info, res: sc.after_op(ex, ctl, a, op, p, info, res, root))
        sc.begin(ex, ctl, root)

        def body(i):
            fsint.attach(ctl, i)
            ctl.sems[i].acquire()  # wait for first scheduling
            if getattr(sc, "trace_files", None):
                sys.settrace(_line_tracer(i, ctl, sc.trace_files, getattr(sc, "trace_functions", None)))
            try:
                if ctl.aborting:
                    raise _Abort()

                def rec(kind, payload=None):
                    ex.history.append((i, kind, payload, len(ex.trace)))

                rec.ex = ex

                try:
                    v = sc.actor(i, root, rec)
                    ex.results[i] = ("ok", v)
                except _Abort:
                    raise
                except Exception as e:
                    ex.results[i] = ("exc", "%s: %s" % (type(e).__name__, e))
            except _Abort:
                ex.results.setdefault(i, ("abort", None))
            finally:
                sys.settrace(None)
                ctl.finished[i] = True
                fsint.detach()
                ctl.main.release()

        workers = self._workers(n)
        for i in range(n):
            workers[i].submit(body, i)
        # Bring every actor to its first point (or completion): run each until it blocks.
        # An actor that has not started is "enabled" with pending None; its first step runs
        # local code up to the first syscall.  To keep steps == syscalls we let each actor advance
        # to its first point up-front, in id order (local computation only; no shared effects).
        for i in range(n):
            ctl.sems[i].release()
            ctl.main.acquire()
        running = None
        step = 0
        try:
            while True:
                alive = [i for i in range(n) if not ctl.finished[i]]
                if not alive:
                    break
                en = [i for i in alive if ctl.blocked[i] is None or ctl.blocked[i].owner in (None, i)]
                if not en:
                    ex.point_viol.append(("deadlock", "actors %r all wait for locks held by each other" % alive))
                    raise _Deadlock()
                if running is not None and running in en:
                    canon = [running] + [i for i in en if i != running]
                    r_en = True
                else:
                    canon = en
                    r_en = False
                if step < len(prefix):
                    c = prefix[step]
                    if c >= len(canon):
                        raise HarnessError(
                            "replay divergence at step %d: choice %d but enabled %r (scenario %s)"
                            % (step, c, canon, sc.name)
                        )
                else:
                    c = 0
                a = canon[c]
                if r_en and c > 0:
                    ex.n_preempt += 1
                ex.choices.append(c)
                ex.enabled.append(canon)
                ex.running_enabled.append(r_en)
                op, path, info = ctl.pending[a]
                ex.trace.append((a, op, ctl.rel(path)))
                v = sc.on_point(ex, ctl, a, op, path, root)
                if v:
                    ex.point_viol.append(v)
                running = a
                ctl.sems[a].release()
                ctl.main.acquire()
                step += 1
                if step > HORIZON:
                    raise HarnessError("horizon exceeded in scenario %s" % sc.name)
        except BaseException as e:
            ctl.aborting = True
            for i in range(n):
                ctl.sems[i].release()
            for w in workers:
                w.wait_idle(2)
            self._pool = None  # do not reuse threads that may be stuck
            ctl.release()
            if isinstance(e, _Deadlock):
                return ex
            raise
        for w in workers:
            if not w.wait_idle(10):
                raise HarnessError("actor thread did not finish")
        ctl.release()
        return ex

    def _workers(self, n):
        if getattr(self, "_pool", None) is None or len(self._pool) != n:
            self._pool = [_Worker() for _ in range(n)]
        return self._pool

    # exploration -------------------------------------------------------------------
    def explore(self):
        self._explore([], 0)
        return self

    def _cost_upto(self, ex, i):
        c = 0
        for j in range(i):
            if ex.running_enabled[j] and ex.choices[j] > 0:
                c += 1
        return c

    def _explore(self, prefix, depth):
        if self.max_execs is not None and self.execs >= self.max_execs:
            self.capped = True
            return
        ex = self.run(prefix)
        count_it = not (self.shard and depth == 0 and self.shard[0] != 0)
        if count_it:
            self.execs += 1
            self.per_bound[ex.n_preempt] = self.per_bound.get(ex.n_preempt, 0) + 1
            self.points_total += len(ex.trace)
            self.max_points = max(self.max_points, len(ex.trace))
            self._check(ex)
        for a, op, rel in ex.trace:
            self.footprint[a].add((rel, op in fsint.MUTATING))
        # preemption cost of the prefix part is fixed; walk forward accumulating
        cost = self._cost_upto(ex, len(prefix))
        nth = 0
        for i in range(len(prefix), len(ex.choices)):
            # choices[i] == 0 here (default), so cost unchanged by taking it
            r_en = ex.running_enabled[i]
            for alt in range(1, len(ex.enabled[i])):
                c = cost + (1 if r_en else 0)
                if c > self.bound:
                    continue
                if self.conflict_filter and r_en:
                    # pending call of the running actor vs. everything the other actors ever touch
                    me, myop, rel = ex.trace[i]
                    mine_w = myop in fsint.MUTATING
                    if not any(
                        (mine_w or qw) and _conflicts(rel, q)
                        for b in range(self.sc.nactors) if b != me for q, qw in self.footprint[b]
                    ):
                        self.skipped_by_filter += 1
                        continue
                if self.shard and depth == 0:
                    nth += 1
                    if (nth - 1) % self.shard[1] != self.shard[0]:
                        continue
                self._explore(ex.choices[:i] + [alt], depth + 1)

    def _check(self, ex):
        viol = list(ex.point_viol)
        viol += self.sc.check(ex, ex.root) or []
        oc = ex.extra.get("outcome")
        if oc is not None:
            self.outcomes[oc] = self.outcomes.get(oc, 0) + 1
        for key, summary in viol:
            self.violations.append((key, summary, list(ex.choices), [list(t) for t in ex.trace]))

    def replay(self, choices):
        ex = self.run(list(choices))
        viol = list(ex.point_viol) + (self.sc.check(ex, ex.root) or [])
        return ex, viol


def explore_scenario(sc, bound, max_execs=None, conflict_filter=False, shard=None):
    """Run one scenario to completion; returns a dict of stats + violations (with schedules)."""
    t0 = time.time()
    exp = Explorer(sc, bound, max_execs, conflict_filter, shard)
    try:
        if conflict_filter:
            # Footprints must be known before they are used to prune.  Pass 0: unfiltered, unsharded
            # exploration with <= 1 preemption (every actor runs every one of its calls in both orders
            # relative to the other actors' completed work).  Then the filtered exploration is repeated
            # until the footprint sets stop growing, so no pruning decision used an incomplete set.
            saved = (exp.bound, exp.shard)
            exp.conflict_filter, exp.bound, exp.shard = False, min(1, bound), None
            exp._explore([], 0)
            exp.bound, exp.shard = saved
            exp.conflict_filter = True
            for _pass in range(5):
                before = [len(f) for f in exp.footprint]
                exp.reset_stats()
                exp.explore()
                if [len(f) for f in exp.footprint] == before:
                    break
            else:
                raise HarnessError("footprints did not stabilise in scenario %s" % sc.name)
        else:
            exp.explore()
        # replay-before-report: every violating schedule is re-run twice; identical verdicts required
        confirmed = []
        seen = set()
        for key, summary, choices, trace in exp.violations:
            if key in seen:
                # keep only the first (fewest-deviation, DFS order) schedule per key + count
                for c in confirmed:
                    if c["key"] == key:
                        c["count"] += 1
                continue
            seen.add(key)
            keys = []
            for _ in range(2):
                ex, viol = exp.replay(choices)
                keys.append(sorted(k for k, _ in viol))
                if [list(t) for t in ex.trace] != trace:
                    raise HarnessError("non-deterministic replay in scenario %s: trace differs" % sc.name)
            if keys[0] != keys[1] or key not in keys[0]:
                raise HarnessError("violation %s did not reproduce on replay in %s (%r)" % (key, sc.name, keys))
            confirmed.append({"key": key, "summary": summary, "choices": choices, "trace": trace, "count": 1})
        return {
            "scenario": sc.name,
            "bound": bound,
            "executions": exp.execs,
            "per_preemptions": dict(sorted(exp.per_bound.items())),
            "points_total": exp.points_total,
            "max_points": exp.max_points,
            "outcomes": exp.outcomes,
            "violations": confirmed,
            "capped": exp.capped,
            "wall_s": round(time.time() - t0, 3),
            "uninterposed": fsint.uninterposed()[:5],
            "skipped_by_filter": exp.skipped_by_filter,
        }
    finally:
        exp.close()
