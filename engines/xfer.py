"""Transport plumbing for C05: dulwich servers on loopback (port 0, read back), wire taps and
an independent indexer for the packs seen on the wire.

Nothing here judges anything; it only runs real dulwich servers/clients and records bytes.

* ``Wire``               per-connection record of the bytes a dulwich *server-side handler* read
                         and wrote (tap on the handler's Protocol object)
* ``tap_handlers``       UploadPackHandler / ReceivePackHandler subclasses with the tap installed
                         and the advertised capability list narrowed
* ``TcpServer``          dulwich TCPGitServer in a thread; ``HttpServer`` wsgiref + dulwich
                         HTTPGitApplication in a thread.  Both count in-flight requests so that
                         the caller can wait until the server side has really finished.
* ``split_pkts`` / ``sideband_pack`` / ``push_pack``   minimal pkt-line walkers (4 hex digits +
                         payload; written from protocol-common.txt) to cut the pack out of a tap
* ``pack_ids``           ids of the objects in a pack, via engines/refmodels/packfile.py (external
                         delta bases resolved from a dict supplied by the caller)
"""

from __future__ import annotations

import binascii
import threading
import traceback

from engines.common import HarnessError
from engines.refmodels import packfile as refpack

# --------------------------------------------------------------------------- wire taps


class Wire:
    """Taps of all handler instances created while it was installed.

    Each connection record also says whether the server-side handler is currently *blocked
    waiting for client input* (``waiting``) or has returned (``done``): at those moments every
    byte the server is going to send without further input has been written, which lets a
    client-side readiness poll be answered deterministically (see props/C05 ``_net_model``)."""

    def __init__(self):
        self.conns = []  # dicts: service, rx (bytearray), tx (bytearray), waiting, done
        self.cv = threading.Condition()

    def open(self, service):
        c = {"service": service, "rx": bytearray(), "tx": bytearray(), "waiting": False, "done": False}
        with self.cv:
            self.conns.append(c)
            self.cv.notify_all()
        return c

    def reset(self):
        with self.cv:
            self.conns = []

    def quiescent(self, client_sent, index=-1, timeout=30.0):
        """Block until connection ``index`` exists and its handler has consumed all
        ``client_sent`` bytes the client wrote after the request line and is blocked waiting for
        more (or has returned); -> number of bytes the server has written on it so far."""
        def ready():
            if not self.conns:
                return False
            c = self.conns[index]
            return c["done"] or (c["waiting"] and len(c["rx"]) >= client_sent)

        with self.cv:
            if not self.cv.wait_for(ready, timeout):
                raise HarnessError("server handler neither waiting nor done after %ss" % timeout)
            return len(self.conns[index]["tx"])


def _tap_proto(proto, conn, wire):
    """Record every byte the handler reads from / writes to the peer through ``proto``."""
    w = proto.write

    def write(data):
        conn["tx"] += bytes(data)
        return w(data)

    proto.write = write

    def wrap(r):
        def read(n):
            with wire.cv:
                conn["waiting"] = True
                wire.cv.notify_all()
            data = b""
            try:
                data = r(n)
            finally:
                with wire.cv:
                    conn["waiting"] = False
                    conn["rx"] += bytes(data)
                    wire.cv.notify_all()
            return data

        return read

    if hasattr(proto, "_recv"):
        proto._recv = wrap(proto._recv)
    else:  # plain Protocol: read callable
        proto.read = wrap(proto.read)


def tap_handlers(wire, drop_upload=(), drop_receive=()):
    """-> handlers dict for TCPGitServer / HTTPGitApplication."""
    from dulwich.server import ReceivePackHandler, UploadPackHandler

    drop_upload = frozenset(drop_upload)
    drop_receive = frozenset(drop_receive)

    def finish(conn):
        with wire.cv:
            conn["done"] = True
            wire.cv.notify_all()

    class TapUpload(UploadPackHandler):
        def __init__(self, backend, args, proto, **kw):
            self._conn = wire.open("upload-pack")
            _tap_proto(proto, self._conn, wire)
            super().__init__(backend, args, proto, **kw)

        def capabilities(self):
            return [c for c in super().capabilities() if c not in drop_upload]

        def handle(self):
            try:
                return super().handle()
            finally:
                finish(self._conn)

    class TapReceive(ReceivePackHandler):
        def __init__(self, backend, args, proto, **kw):
            self._conn = wire.open("receive-pack")
            _tap_proto(proto, self._conn, wire)
            super().__init__(backend, args, proto, **kw)

        def capabilities(self):
            return [c for c in super().capabilities() if c not in drop_receive]

        def handle(self):
            try:
                return super().handle()
            finally:
                finish(self._conn)

    return {b"git-upload-pack": TapUpload, b"git-receive-pack": TapReceive}


# --------------------------------------------------------------------------- servers


class _Busy:
    def __init__(self):
        self.cv = threading.Condition()
        self.active = 0
        self.total = 0

    def enter(self):
        with self.cv:
            self.active += 1
            self.total += 1

    def leave(self):
        with self.cv:
            self.active -= 1
            self.cv.notify_all()

    def wait_idle(self, timeout=30.0):
        with self.cv:
            if not self.cv.wait_for(lambda: self.active == 0, timeout):
                raise HarnessError("server still busy after %ss" % timeout)


def _nodelay(req):
    """TCP_NODELAY on accepted sockets: dulwich's server writes many small pkt-lines, and Nagle +
    delayed ACK on loopback costs 40 ms per exchange.  Latency only; no byte changes."""
    import socket

    req[0].setsockopt(socket.IPPROTO_TCP, socket.TCP_NODELAY, 1)
    return req


class _ServerBase:
    """Owns the thread, the swappable backend and the error log."""

    def __init__(self):
        from dulwich.server import DictBackend

        self.backend = DictBackend({})
        self.busy = _Busy()
        self.errors = []
        self.wire = Wire()
        self.handlers = {}
        self.thread = None
        self.srv = None

    def serve(self, repo, drop_upload=(), drop_receive=()):
        """Point the server at ``repo`` (path '/') with the given capability narrowing."""
        self.backend.repos = {b"/": repo, "/": repo}
        self.wire.reset()
        del self.errors[:]
        self.handlers.clear()
        self.handlers.update(tap_handlers(self.wire, drop_upload, drop_receive))

    def _start(self):
        self.port = self.srv.server_address[1]
        self.thread = threading.Thread(target=self.srv.serve_forever, kwargs={"poll_interval": 0.05}, daemon=True)
        self.thread.start()

    def wait_idle(self):
        self.busy.wait_idle()

    def close(self):
        if self.srv is not None:
            self.srv.shutdown()
            self.srv.server_close()
            self.thread.join(10)
            self.srv = None


class TcpServer(_ServerBase):
    def __init__(self):
        super().__init__()
        from dulwich.server import TCPGitServer

        outer = self

        class Srv(TCPGitServer):
            def get_request(self):
                return _nodelay(super().get_request())

            def process_request(self, request, client_address):
                outer.busy.enter()
                try:
                    super().process_request(request, client_address)
                finally:
                    outer.busy.leave()

            def handle_error(self, request, client_address):
                outer.errors.append(traceback.format_exc())

        self.srv = Srv(self.backend, "127.0.0.1", 0, handlers={})
        self.srv.handlers = self.handlers  # live dict: serve() swaps the classes
        self._start()

    def url(self):
        return "git://127.0.0.1:%d/" % self.port


class HttpServer(_ServerBase):
    def __init__(self):
        super().__init__()
        from wsgiref import simple_server

        from dulwich.web import (
            GunzipFilter,
            HTTPGitApplication,
            LimitedInputFilter,
            WSGIRequestHandlerLogger,
            WSGIServerLogger,
        )

        outer = self
        app = HTTPGitApplication(self.backend, handlers={})
        app.handlers = self.handlers  # live dict
        self.app = LimitedInputFilter(GunzipFilter(app))  # == make_wsgi_chain

        class Srv(WSGIServerLogger):
            def get_request(self):
                return _nodelay(super().get_request())

            def process_request(self, request, client_address):
                outer.busy.enter()
                try:
                    super().process_request(request, client_address)
                finally:
                    outer.busy.leave()

            def handle_error(self, request, client_address):
                outer.errors.append(traceback.format_exc())

        class Req(WSGIRequestHandlerLogger):
            def log_exception(self, exc_info):
                outer.errors.append("".join(traceback.format_exception(*exc_info)))

        self.srv = simple_server.make_server("127.0.0.1", 0, self.app, server_class=Srv, handler_class=Req)
        self._start()

    def url(self):
        return "http://127.0.0.1:%d/" % self.port


# --------------------------------------------------------------------------- pkt-line walkers


def split_pkts(data, stop_at_flush=False):
    """-> (list of payloads; None = flush, b'\\x01delim' never used here), rest of the stream that is
    not pkt-line framed (or b'')."""
    out = []
    pos = 0
    n = len(data)
    while pos + 4 <= n:
        head = bytes(data[pos:pos + 4])
        try:
            ln = int(head, 16)
        except ValueError:
            break
        if any(c not in b"0123456789abcdefABCDEF" for c in head):
            break
        if ln == 0:
            out.append(None)
            pos += 4
            if stop_at_flush:
                break
            continue
        if ln in (1, 2):  # delim / response-end
            out.append(b"")
            pos += 4
            continue
        if ln < 4 or pos + ln > n:
            break
        out.append(bytes(data[pos + 4:pos + ln]))
        pos += ln
    return out, bytes(data[pos:])


def sideband_pack(stream):
    """Pack bytes carried on band 1 of a side-band-64k multiplexed upload-pack response
    (everything before the bands — advertisement, shallow lines, ACK/NAK — starts with a
    printable character and is skipped)."""
    pkts, rest = split_pkts(stream)
    pack = b"".join(p[1:] for p in pkts if p and p[:1] == b"\x01")
    fatal = [p[1:] for p in pkts if p and p[:1] == b"\x03"]
    return pack, rest, fatal


def push_pack(stream):
    """The pack that follows the command list of a receive-pack request (b'' if none)."""
    pkts, rest = split_pkts(stream, stop_at_flush=True)
    i = rest.find(b"PACK")
    if i < 0:
        return b"", pkts
    if i != 0:
        # push-options section would sit here; this check never sends one
        raise HarnessError("unexpected bytes between command list and pack: %r" % rest[:40])
    return rest, pkts


def pack_ids(pack, external_raw):
    """-> (set of hex ids, n_ref_deltas_with_external_base, n_deltas).  ``external_raw``:
    {hex id: (type_num, bytes)} used to complete thin packs."""
    info = refpack.parse_pack(pack)
    present = set()
    ext = {binascii.unhexlify(k): v for k, v in external_raw.items()}
    res = refpack.resolve_pack(info, external=ext)
    ids = {binascii.hexlify(r.name) for r in res}
    present = {r.name for r in res}
    thin = sum(1 for e in info.entries if e.type == refpack.REF_DELTA and e.base_name not in present)
    ndelta = sum(1 for e in info.entries if e.type in (refpack.OFS_DELTA, refpack.REF_DELTA))
    return ids, thin, ndelta
