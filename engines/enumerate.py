"""E4 — reusable bounded-exhaustive enumerators.

Every generator yields a *declared finite set*, completely, in a fixed deterministic order,
simplest element first.  Nothing here samples; nothing depends on hash order, time or RNG.

Commit histories
----------------
A **DAG** is a tuple ``P`` of length ``n``; ``P[i]`` is the ascending tuple of the parents of
node ``i`` and every parent is ``< i`` (topological numbering: node 0 is always a root, node
``n-1`` is always childless).  Every finite DAG has at least one such numbering, so
``dags(n, k)`` covers every DAG shape with ``n`` nodes and in-degree ``<= k`` (usually several
times, once per topological numbering).  ``canonical_dags`` keeps one numbering per
isomorphism class.

    dags(n, max_parents)            all labelled DAGs with exactly n nodes
    dags_upto(n, max_parents)       sizes 1..n, smallest first
    canonical_dags(n, max_parents)  one representative per isomorphism class
    downsets(dag)                   all ancestor-closed node sets (receiver states, have-sets)
    ancestors(dag) / reach(anc, S)  transitive closure as bitmasks (helper, no oracle logic)
    weak_orderings(n)               all assignments of n items to ranks 0..k-1 (ties included)
    parent_orders(dag)              all orderings of each parent list (first-parent variants)

Generic
-------
    compositions(n)                 all ways to cut a length-n stream into positive chunks
    strings(alphabet, max_len)      all strings over an alphabet, by length then lexicographic
    subsets(items, max_size)        all subsets by size then lexicographic
"""

from __future__ import annotations

import itertools

__all__ = [
    "dags",
    "dags_upto",
    "canonical_dags",
    "dag_count",
    "downsets",
    "ancestors",
    "reach",
    "children",
    "bits",
    "weak_orderings",
    "weak_ordering_count",
    "parent_orders",
    "compositions",
    "strings",
    "subsets",
]


# --------------------------------------------------------------------------- DAGs


def _parent_choices(i, max_parents):
    """All ascending parent tuples for node i (parents drawn from 0..i-1), fewest first."""
    out = []
    for k in range(0, min(i, max_parents) + 1):
        out.extend(itertools.combinations(range(i), k))
    return out


def dags(n, max_parents=2):
    """Yield every labelled DAG with exactly ``n`` nodes in topological numbering.

    Element: tuple ``P`` with ``P[i]`` = ascending tuple of parents of ``i`` (all ``< i``,
    at most ``max_parents`` of them).  Count: prod_i sum_{k<=max_parents} C(i,k)
    (n=1..6, max_parents=2: 1, 2, 8, 56, 616, 9856).  Order: lexicographic over the nodes with
    the per-node choices ordered fewest-parents-first, so the empty graph comes first and the
    densest last.  ``n == 0`` yields the single empty DAG ``()``.
    """
    if n < 0:
        raise ValueError("n must be >= 0")
    choices = [_parent_choices(i, max_parents) for i in range(n)]
    yield from itertools.product(*choices)


def dags_upto(n, max_parents=2, min_n=1):
    """All DAGs with ``min_n..n`` nodes, smallest size first (see ``dags``)."""
    for k in range(min_n, n + 1):
        yield from dags(k, max_parents)


def dag_count(n, max_parents=2):
    """Closed-form size of ``dags(n, max_parents)`` (used by checks to assert completeness)."""
    total = 1
    for i in range(n):
        total *= len(_parent_choices(i, max_parents))
    return total


def children(dag):
    """Tuple ``C`` with ``C[i]`` = ascending tuple of the children of node ``i``."""
    ch = [[] for _ in dag]
    for i, ps in enumerate(dag):
        for p in ps:
            ch[p].append(i)
    return tuple(tuple(c) for c in ch)


def ancestors(dag):
    """Reflexive-transitive closure: list ``A`` of bitmasks, bit ``j`` of ``A[i]`` set iff
    ``j`` is ``i`` or an ancestor of ``i``.  (Works because parents precede children.)"""
    anc = []
    for i, ps in enumerate(dag):
        m = 1 << i
        for p in ps:
            m |= anc[p]
        anc.append(m)
    return anc


def reach(anc, nodes):
    """Union of the closures of ``nodes`` as a bitmask (``anc`` from ``ancestors``)."""
    m = 0
    for x in nodes:
        m |= anc[x]
    return m


def bits(mask):
    """Ascending list of the set bit positions of ``mask``."""
    out = []
    i = 0
    while mask:
        if mask & 1:
            out.append(i)
        mask >>= 1
        i += 1
    return out


def downsets(dag, include_empty=True):
    """Yield every ancestor-closed subset of the nodes of ``dag`` (every set S with
    ``i in S => parents(i) <= S``) as an ascending tuple, ordered by size then lexicographic.

    These are exactly the possible "already has" states of a peer that received some refs of
    the history completely.  The full node set and (optionally) the empty set are included.
    """
    n = len(dag)
    pmask = [sum(1 << p for p in ps) for ps in dag]
    found = []
    for m in range(1 << n):
        ok = True
        for i in range(n):
            if m >> i & 1 and (pmask[i] & ~m):
                ok = False
                break
        if ok and (m or include_empty):
            found.append(tuple(bits(m)))
    found.sort(key=lambda t: (len(t), t))
    yield from found


def _relabel(dag, perm):
    """DAG obtained by renaming node i to perm[i]; None if perm is not a topological numbering."""
    n = len(dag)
    out = [None] * n
    for i, ps in enumerate(dag):
        ni = perm[i]
        nps = []
        for p in ps:
            if perm[p] >= ni:
                return None
            nps.append(perm[p])
        out[ni] = tuple(sorted(nps))
    return tuple(out)


def canonical_dags(n, max_parents=2):
    """One representative per isomorphism class of DAGs with ``n`` nodes and in-degree
    ``<= max_parents``: the labelled DAG that is the lexicographic minimum (as a tuple of parent
    tuples) among all its topological renumberings.  Order as in ``dags``.

    Cost O(|dags(n)| * n!) — meant for n <= 6.
    """
    perms = list(itertools.permutations(range(n)))
    for d in dags(n, max_parents):
        best = True
        for perm in perms:
            r = _relabel(d, perm)
            if r is not None and r < d:
                best = False
                break
        if best:
            yield d


def parent_orders(dag):
    """Yield every variant of ``dag`` in which each node's parent tuple is permuted in every
    possible way (first-parent choice matters to git; the *shape* does not change).  The
    ascending variant (== ``dag``) comes first."""
    per_node = [list(itertools.permutations(ps)) for ps in dag]
    yield from itertools.product(*per_node)


# --------------------------------------------------------------------------- orderings


def weak_orderings(n, max_levels=None):
    """Yield every weak ordering of ``n`` items (every way to rank them with ties allowed) as a
    tuple ``r`` with ``r[i]`` in ``0..k-1`` and every rank ``0..k-1`` used; ``k`` = number of
    distinct levels.  These are the assignments of timestamps up to order-isomorphism.

    Counts (ordered Bell / Fubini numbers): n=0..6 -> 1, 1, 3, 13, 75, 541, 4683.
    Order: by number of levels (all-equal first), then lexicographic.
    ``max_levels`` restricts to orderings with at most that many distinct levels.
    """
    top = n if max_levels is None else min(n, max_levels)
    if n == 0:
        yield ()
        return
    for k in range(1, top + 1):
        need = set(range(k))
        for r in itertools.product(range(k), repeat=n):
            if need.issubset(r):
                yield r


def weak_ordering_count(n, max_levels=None):
    """Size of ``weak_orderings(n, max_levels)``: sum_k k! * S(n,k)."""
    if n == 0:
        return 1
    top = n if max_levels is None else min(n, max_levels)
    # surjections n -> k by inclusion-exclusion
    from math import comb

    total = 0
    for k in range(1, top + 1):
        total += sum((-1) ** j * comb(k, j) * (k - j) ** n for j in range(k + 1))
    return total


# --------------------------------------------------------------------------- generic


def compositions(n):
    """Yield every composition of ``n`` (every tuple of positive integers summing to ``n``),
    i.e. every way to cut a stream of ``n`` bytes into consecutive non-empty read chunks.
    2**(n-1) elements for n >= 1 (one, the empty tuple, for n == 0); fewest chunks first."""
    if n == 0:
        yield ()
        return
    for k in range(0, n):
        for cuts in itertools.combinations(range(1, n), k):
            prev = 0
            parts = []
            for c in cuts:
                parts.append(c - prev)
                prev = c
            parts.append(n - prev)
            yield tuple(parts)


def strings(alphabet, max_len, min_len=0):
    """Yield every string over ``alphabet`` with ``min_len <= length <= max_len``, shortest
    first, then in the order of ``alphabet``.  ``alphabet`` is a sequence of symbols; if they are
    ``bytes``/``str`` the result is their concatenation, otherwise a tuple of symbols."""
    alphabet = list(alphabet)
    join = None
    if alphabet and all(isinstance(a, bytes) for a in alphabet):
        join = b"".join
    elif alphabet and all(isinstance(a, str) for a in alphabet):
        join = "".join
    for n in range(min_len, max_len + 1):
        for t in itertools.product(alphabet, repeat=n):
            yield join(t) if join else t


def subsets(items, max_size=None, min_size=0):
    """Yield every subset of ``items`` (as a tuple in the order of ``items``) with
    ``min_size <= size <= max_size``, smallest first."""
    items = list(items)
    top = len(items) if max_size is None else min(max_size, len(items))
    for k in range(min_size, top + 1):
        yield from itertools.combinations(items, k)
