"""C04 plumbing: seed artefacts, grammar-aware attacks, and the functions that run *inside* the E6
sandbox (one case = one hostile artefact fed to one reading / ingestion path of the real dulwich,
followed by the observation of the object store and the verdict on it).

Nothing here samples: the seeds are fixed byte strings, the attacks a fixed list.

Seeds (``build_seeds``; each small enough that every byte position is mutated by E5):

  streams   full3   blob + tree + commit, full objects
            ofs2    blob + OFS delta + OFS delta on the delta (chain depth 2)
            thin    full blob + REF delta whose base is a loose object of the receiving store
  files     pair.v1/.v2/.v3   pack (blob, tree, commit, blob, OFS-delta blob) + idx of that version written by dulwich
            loose.blob/.tree/.commit/.tag
            index.v2 / index.v4       two entries, written by dulwich
            packed-refs               branch + annotated tag with peeled line, written by dulwich
            cgraph.dulwich / cgraph.git, midx.dulwich / midx.git, bitmap.dulwich / bitmap.git

The receiving store ("base store") always holds: a loose blob BASE (base of the thin pack's REF
delta) and a pack with two blobs E1, E2 (E2 an OFS delta), so that "the set of pack/idx pairs and
loose files is unchanged" is never vacuous.

A *case* is a JSON-able tuple

    (family, seed, mut, variant)

    family   "ingest" | "stream" | "pair" | "loose" | "index" | "prefs" | "cgraph" | "midx" | "bitmap"
    seed     name of a seed (or "atk:<name>" for a grammar-aware attack)
    mut      None | (kind, pos, arg) from engines.mutfault | ("append", L, j) | ("splice", a, b, other seed)
    variant  family specific, see the run_* functions

and `sb_case(case)` returns ``(outcome classes, [(violation key, summary)])``.
"""

from __future__ import annotations

import binascii
import hashlib
import io
import os
import pickle
import re
import shutil
import struct
import sys
import tempfile
import zlib

from engines import mutfault
from engines import packattack as pa

HEX = binascii.hexlify

# --------------------------------------------------------------------------- fixed objects

IDENT = b"A U Thor <a@example.com> 1000000000 +0000"
B1 = b"hello\n"
B1_ID = pa.obj_id(pa.BLOB, B1)
T1 = b"100644 a\x00" + B1_ID
T1_ID = pa.obj_id(pa.TREE, T1)
C1 = b"tree " + HEX(T1_ID) + b"\nauthor " + IDENT + b"\ncommitter " + IDENT + b"\n\none\n"
C1_ID = pa.obj_id(pa.COMMIT, C1)
C2 = b"tree " + HEX(T1_ID) + b"\nparent " + HEX(C1_ID) + b"\nauthor " + IDENT + b"\ncommitter " + IDENT + b"\n\ntwo\n"
C2_ID = pa.obj_id(pa.COMMIT, C2)
G1 = b"object " + HEX(C1_ID) + b"\ntype commit\ntag v1\ntagger " + IDENT + b"\n\nrelease\n"
G1_ID = pa.obj_id(pa.TAG, G1)

X0 = b"line one\nline two\nline three\n"
X1 = X0 + b"line four\n"
X2 = X1 + b"line five\n"
BASE = b"base object of the thin pack\n"
BASE_ID = pa.obj_id(pa.BLOB, BASE)
Y = BASE + b"and more\n"
B2 = b"second blob\n"
E1 = b"existing one\n"
E2 = E1 + b"existing two\n"

STORE_OBJECTS = [(pa.BLOB, BASE), (pa.BLOB, E1), (pa.BLOB, E2)]
STORE_IDS = [pa.obj_hex(t, d) for t, d in STORE_OBJECTS]  # what the receiving store holds


def _existing_pack():
    b = pa.Builder()
    o = b.full(pa.BLOB, E1)
    b.ofs_to(o, pa.make_delta(E1, E2))
    pack = b.finish()
    crc = b.crc32s()
    entries = [(pa.obj_id(pa.BLOB, E1), b.offsets[0], crc[0]), (pa.obj_id(pa.BLOB, E2), b.offsets[1], crc[1])]
    name = hashlib.sha1(b"".join(sorted(e[0] for e in entries))).hexdigest()
    return name, pack, pa.idx_v2(entries, pack[-20:])


def loose_bytes(type_num, data):
    return zlib.compress(pa.TYPE_NAMES[type_num] + b" %d\x00" % len(data) + data, 6)


def loose_rel(hexid):
    h = hexid.decode() if isinstance(hexid, bytes) else hexid
    return "%s/%s" % (h[:2], h[2:])


def base_store_files():
    """{relative path under objects/: bytes} of the receiving store."""
    name, pack, idx = _existing_pack()
    return {
        "pack/pack-%s.pack" % name: pack,
        "pack/pack-%s.idx" % name: idx,
        loose_rel(HEX(BASE_ID)): loose_bytes(pa.BLOB, BASE),
    }


# --------------------------------------------------------------------------- stream seeds


class NB(pa.Builder):
    """Builder that also remembers the name every entry claims to have (for forged indexes)."""

    def __init__(self, version=2):
        super().__init__(version)
        self.names = []

    def full(self, type_num, data, declared=None, z=None, label=None, name=None):
        if name is None:
            name = pa.obj_id(type_num, data) if type_num in pa.TYPE_NAMES else hashlib.sha1(b"entry-%d" % self.n).digest()
        self.names.append(name)
        return super().full(type_num, data, declared, z, label)

    def ofs(self, distance, delta, declared=None, z=None, label=None, name=None):
        self.names.append(name or hashlib.sha1(b"entry-%d" % self.n).digest())
        return super().ofs(distance, delta, declared, z, label)

    def ofs_to(self, base_offset, delta, label=None, name=None):
        return self.ofs(self.pos - base_offset, delta, label=label, name=name)

    def ref(self, base_id, delta, declared=None, z=None, label=None, name=None):
        self.names.append(name or hashlib.sha1(b"entry-%d" % self.n).digest())
        return super().ref(base_id, delta, declared, z, label)

    def rawentry(self, type_num, declared, base_bytes, z, name=None):
        self.names.append(name or hashlib.sha1(b"entry-%d" % self.n).digest())
        return self.raw(type_num, declared, base_bytes, z)

    def entries(self):
        return list(zip(self.names, self.offsets, self.crc32s()))


def _bid(data):
    return pa.obj_id(pa.BLOB, data)


def stream_full3():
    b = NB()
    b.full(pa.BLOB, B1, label="blob")
    b.full(pa.TREE, T1, label="tree")
    b.full(pa.COMMIT, C1, label="commit")
    return b


def stream_ofs2():
    b = NB()
    o0 = b.full(pa.BLOB, X0, label="base")
    o1 = b.ofs_to(o0, pa.make_delta(X0, X1), label="d1", name=_bid(X1))
    b.ofs_to(o1, pa.make_delta(X1, X2), label="d2", name=_bid(X2))
    return b


def stream_thin():
    b = NB()
    b.full(pa.BLOB, B2, label="blob")
    b.ref(BASE_ID, pa.make_delta(BASE, Y), label="refd", name=_bid(Y))
    return b


def stream_pair():
    """The pack of the on-disk pack/idx pairs."""
    b = NB()
    b.full(pa.BLOB, B1, label="blob")
    b.full(pa.TREE, T1, label="tree")
    b.full(pa.COMMIT, C1, label="commit")
    o = b.full(pa.BLOB, X0, label="base")
    b.ofs_to(o, pa.make_delta(X0, X1), label="d1", name=_bid(X1))
    return b


STREAMS = {"full3": stream_full3, "ofs2": stream_ofs2, "thin": stream_thin}

# --------------------------------------------------------------------------- grammar-aware attacks


def attack_builders():
    """[(name, NB builder, finish kwargs)] — every entry becomes a complete stream with a *correct*
    trailer unless the attack is about the trailer."""
    out = []

    def add(name, b, **kw):
        out.append((name, b, kw))

    def full3():
        return stream_full3()

    # ---- object count
    for tag, cnt in (("count-1", 2), ("count+1", 4), ("count-zero", 0), ("count+many", 0x01000003), ("count-max", 0xFFFFFFFF)):
        add(tag, full3(), count=cnt)
    # ---- trailer
    add("trailer-zero", full3(), trailer=b"\x00" * 20)
    add("trailer-of-other-pack", full3(), trailer=hashlib.sha1(b"other").digest())
    add("trailer-short", full3(), trailer=b"\x01" * 7)
    add("trailer-missing", full3(), trailer=b"")
    # ---- header
    for v in (3, 4, 0):
        b = NB(version=v)
        b.full(pa.BLOB, B1)
        add("version-%d" % v, b)
    b = NB()
    b.full(pa.BLOB, B1)
    add("magic-KCAP", b, magic=b"KCAP")
    add("empty-pack", NB())
    # ---- object types that do not exist
    for t in (0, 5):
        b = NB()
        b.full(pa.BLOB, B1)
        b.rawentry(t, len(B2), b"", pa.deflate(B2))
        add("type-%d" % t, b)
    # ---- OFS offsets

    def ofs_attack(name, dist_of):
        b = NB()
        o0 = b.full(pa.BLOB, X0)
        b.ofs(dist_of(b, o0), pa.make_delta(X0, X1), name=_bid(X1))
        add(name, b)

    ofs_attack("ofs-zero", lambda b, o0: 0)
    ofs_attack("ofs-beyond-start", lambda b, o0: b.pos + 1)  # base offset -1
    ofs_attack("ofs-beyond-start-far", lambda b, o0: b.pos + 100000)
    ofs_attack("ofs-to-offset-zero", lambda b, o0: b.pos)  # the 'P' of the pack header
    ofs_attack("ofs-into-pack-header", lambda b, o0: b.pos - 4)
    ofs_attack("ofs-into-middle", lambda b, o0: b.pos - o0 - 3)  # inside the first entry's zlib stream
    ofs_attack("ofs-huge-varint", lambda b, o0: bytes([0xFF] * 9 + [0x7F]))  # 10-byte offset encoding
    ofs_attack("ofs-unterminated-varint", lambda b, o0: bytes([0xFF] * 3))  # MSB set on the last byte: runs into the zlib stream
    b = NB()
    b.full(pa.BLOB, X0)
    o1 = b.ofs(b.pos + 7, pa.make_delta(X0, X1), name=_bid(X1))
    b.ofs_to(o1, pa.make_delta(X1, X2), name=_bid(X2))
    add("ofs-chain-to-dangling", b)
    # a well-formed OFS delta whose base is the *following* entry cannot be written (the distance is
    # subtracted); the nearest thing is a delta placed before its base and pointing backwards into it:
    b = NB()
    b.full(pa.BLOB, B1)
    b.ofs(5, pa.make_delta(X0, X1), name=_bid(X1))  # 5 bytes back = inside the blob's zlib stream
    b.full(pa.BLOB, X0)
    add("ofs-delta-before-its-base", b)
    # ---- deltas that do not apply
    b = NB()
    o0 = b.full(pa.BLOB, X0)
    b.ofs_to(o0, pa.size_varint(len(X0) + 5) + pa.size_varint(3) + pa.delta_insert(b"abc"))
    add("delta-base-size-mismatch", b)
    b = NB()
    o0 = b.full(pa.BLOB, X0)
    b.ofs_to(o0, pa.size_varint(len(X0)) + pa.size_varint(3) + pa.delta_copy(len(X0) - 1, 3))
    add("delta-copy-beyond-base", b)
    b = NB()
    o0 = b.full(pa.BLOB, X0)
    b.ofs_to(o0, pa.size_varint(len(X0)) + pa.size_varint(1 << 40) + pa.delta_insert(b"abc"))
    add("delta-declares-2^40-result", b)
    b = NB()
    o0 = b.full(pa.BLOB, X0)
    b.ofs_to(o0, pa.size_varint(len(X0)) + bytes([0xFF] * 11) + b"\x01" + pa.delta_insert(b"abc"))
    add("delta-12-byte-size-varint", b)
    b = NB()
    o0 = b.full(pa.COMMIT, C1)
    b.ofs_to(o0, pa.size_varint(len(C1)) + pa.size_varint(0))
    add("delta-to-empty-commit", b)
    b = NB()
    o0 = b.full(pa.BLOB, X0)
    b.ofs_to(o0, b"")
    add("delta-empty", b)
    # ---- REF deltas
    missing = hashlib.sha1(b"no such object").digest()
    b = NB()
    b.full(pa.BLOB, B2)
    b.ref(missing, pa.make_delta(BASE, Y), name=_bid(Y))
    add("ref-missing-base", b)
    b = NB()
    b.full(pa.BLOB, B2)
    b.ref(_bid(Y), pa.make_delta(Y, Y), name=_bid(Y))  # base = the delta's own result: the only "self" that has a name
    add("ref-self", b)
    for k in (2, 3):
        names = [hashlib.sha1(b"cycle-%d-%d" % (k, i)).digest() for i in range(k)]
        b = NB()
        b.full(pa.BLOB, B2)
        for i in range(k):
            b.ref(names[(i + 1) % k], pa.make_delta(BASE, Y), name=names[i])
        add("ref-%d-cycle" % k, b)
    b = NB()  # the designer's probe: nothing but two REF deltas naming each other
    names = [hashlib.sha1(b"pure-cycle-%d" % i).digest() for i in range(2)]
    b.ref(names[1], pa.make_delta(BASE, Y), name=names[0])
    b.ref(names[0], pa.make_delta(BASE, Y), name=names[1])
    add("ref-2-cycle-only", b)
    b = NB()
    y2 = Y + b"x"
    b.ref(_bid(Y), pa.make_delta(Y, y2), name=_bid(y2))
    b.ref(BASE_ID, pa.make_delta(BASE, Y), name=_bid(Y))
    add("ref-chain-backwards-thin", b)  # valid: the base of the first delta is the result of the second
    b = NB()
    n = hashlib.sha1(b"mixed").digest()
    o = b.ref(_bid(Y), pa.make_delta(BASE, Y), name=n)
    b.ofs_to(o, pa.make_delta(Y, Y), name=_bid(Y))
    add("ref-ofs-mixed-cycle", b)
    # rho shapes: a chain that leads INTO a cycle without being part of it (reading the tail entry never
    # comes back to where it started, so comparing with the starting entry is not enough)
    d = pa.make_delta(BASE, Y)

    def cyc(tag, k):
        return [hashlib.sha1(b"rho-%s-%d-%d" % (tag.encode(), k, i)).digest() for i in range(k)]

    for k in (2, 3):
        for via in ("ref", "ofs"):
            for tail in (1, 2):
                tag = "tail%d-%s-into-%d-cycle" % (tail, via, k)
                names = cyc(tag, k)
                b = NB()
                b.full(pa.BLOB, B2)
                offs = [b.ref(names[(i + 1) % k], d, name=names[i]) for i in range(k)]
                prev_name, prev_off = names[0], offs[0]
                for t in range(tail):
                    tn = hashlib.sha1(b"%s-tail-%d" % (tag.encode(), t)).digest()
                    prev_off = b.ref(prev_name, d, name=tn) if via == "ref" else b.ofs_to(prev_off, d, name=tn)
                    prev_name = tn
                add(tag, b)
    # tail of length 2 with both kinds of link, into a cycle that itself mixes REF and OFS links
    b = NB()
    n0, n1, t0, t1 = cyc("mixed", 4)
    o0 = b.ref(n1, d, name=n0)
    b.ofs_to(o0, d, name=n1)  # n1 = OFS delta on n0, n0 = REF delta on n1
    ot = b.ofs_to(o0, d, name=t0)
    b.ref(t0, d, name=t1)
    add("tail2-mixed-into-mixed-cycle", b)
    # the tail entry comes FIRST in the pack (the walk moves forward through REF names, backwards through OFS)
    b = NB()
    n0, n1, t0 = cyc("tailfirst", 3)
    b.ref(n0, d, name=t0)
    b.ref(n1, d, name=n0)
    b.ref(n0, d, name=n1)
    add("tail-first-into-2-cycle", b)
    # the cycle is reached only through the index: the tail's base is a name that appears nowhere in the pack
    # as an entry's own name, the (forged) index simply maps it to the offset of a cycle member
    b = NB()
    n0, n1, t0, alias = cyc("alias", 4)
    b.full(pa.BLOB, B2)
    b.ref(n1, d, name=n0)
    b.ref(n0, d, name=n1)
    b.ref(alias, d, name=t0)
    add("tail-into-2-cycle-through-index-alias", b, alias=[(alias, 1)], count=5)  # header count = index length, or Pack refuses the pair
    # two tails sharing one cycle, one of them hanging off the *other* cycle member
    b = NB()
    n0, n1, t0, t1 = cyc("twotails", 4)
    b.ref(n1, d, name=n0)
    o1 = b.ref(n0, d, name=n1)
    b.ref(n0, d, name=t0)
    b.ofs_to(o1, d, name=t1)
    add("two-tails-into-2-cycle", b)
    b = NB()
    b.full(pa.BLOB, B2)
    b.ref(BASE_ID[:19], pa.make_delta(BASE, Y), name=_bid(Y))  # 19-byte base name: the zlib stream is mis-aligned
    add("ref-short-base-name", b)
    # ---- zlib streams
    z1 = pa.deflate(B1)
    for name, kw in (
        ("zlib-trailing-garbage", {"z": z1 + b"GARBAGE"}),
        ("zlib-overlong-output", {"z": pa.deflate(B1 + b"overlong")}),
        ("zlib-short-output", {"z": pa.deflate(B1[:-2])}),
        ("zlib-bad-adler", {"z": z1[:-4] + b"\x00\x00\x00\x00"}),
        ("zlib-adler-cut", {"z": z1[:-4]}),
        ("zlib-empty", {"z": b""}),
        ("zlib-header-only", {"z": z1[:2]}),
        ("zlib-stored-block", {"z": zlib.compress(B1, 0)}),
        ("zlib-raw-deflate-no-header", {"z": z1[2:-4]}),
        ("size-header+1", {"declared": len(B1) + 1}),
        ("size-header-1", {"declared": len(B1) - 1}),
        ("size-header-zero", {"declared": 0}),
        ("size-header-2^31", {"declared": 1 << 31}),
        ("size-header-2^40", {"declared": 1 << 40}),
        ("size-header-2^63", {"declared": 1 << 63}),
        ("size-header-wraps-64-bit", {"declared": (1 << 64) + len(B1)}),
    ):
        b = NB()
        b.full(pa.BLOB, B1, **kw)
        b.full(pa.TREE, T1)
        add(name, b)
    b = NB()
    co = zlib.compressobj(6, zlib.DEFLATED, 15, 8, zlib.Z_DEFAULT_STRATEGY, b"hello")
    b.full(pa.BLOB, B1, z=co.compress(B1) + co.flush())
    add("zlib-preset-dictionary", b)
    # ---- structured size-header lies: declared = real + d for every entry of the three fixture packs, everything else
    # (offsets, trailer, names) consistent, so that the lie is the only thing wrong.  C git's index-pack refuses all of them.
    fixtures = {
        "full3": [("full", pa.BLOB, B1, None), ("full", pa.TREE, T1, None), ("full", pa.COMMIT, C1, None)],
        "ofs2": [("full", pa.BLOB, X0, None), ("ofs", 0, pa.make_delta(X0, X1), _bid(X1)), ("ofs", 1, pa.make_delta(X1, X2), _bid(X2))],
        "thin": [("full", pa.BLOB, B2, None), ("ref", BASE_ID, pa.make_delta(BASE, Y), _bid(Y))],
    }
    for fx, ents in sorted(fixtures.items()):
        for i in range(len(ents)):
            for dlt in (-2, -1, 1, 2):
                b = NB()
                offs = []
                for j, (kind, a1, payload, nm) in enumerate(ents):
                    decl = len(payload) + (dlt if j == i else 0)
                    if kind == "full":
                        offs.append(b.full(a1, payload, declared=decl))
                    elif kind == "ofs":
                        offs.append(b.ofs(b.pos - offs[a1], payload, declared=decl, name=nm))
                    else:
                        offs.append(b.ref(a1, payload, declared=decl, name=nm))
                add("sizelie-%s-e%d%+d" % (fx, i, dlt), b, must_reject="size-header-disagrees-with-payload")
    # ---- decompression bombs: honest size header (16 MiB of NUL in ~16 KiB) and lying ones
    bomb = bytes(16 << 20)
    zb = zlib.compress(bomb, 9)
    b = NB()
    b.full(pa.BLOB, bomb, z=zb)
    add("bomb-honest-16MiB", b, legit=len(bomb))
    b = NB()
    b.full(pa.BLOB, b"x", declared=1, z=zb)
    add("bomb-declared-1-byte", b)
    b = NB()
    o0 = b.full(pa.BLOB, X0)
    b.ofs(b.pos - o0, b"", declared=1, z=zb)
    add("bomb-in-delta-declared-1-byte", b)
    big = zlib.compress(bytes(64 << 20), 9)  # 64 MiB in ~64 KiB, declared as 100 bytes
    b = NB()
    b.full(pa.BLOB, b"x", declared=100, z=big)
    add("bomb-64MiB-declared-100-bytes", b)
    # the bound on inflation is "declared + 1 byte per call": an entry whose first 64 KiB of input (the slice / read size of both
    # zlib readers) inflate to exactly declared + 1 bytes with nothing pending, followed by a 64 MiB bomb in the same stream
    filler = bytes((i * 7 + 3) % 251 + 1 for i in range(65536 - 2 - 5))
    zeros = bytes(64 << 20)
    co = zlib.compressobj(9, zlib.DEFLATED, -15)
    rawbomb = co.compress(zeros) + co.flush()
    zs = b"\x78\x9c" + b"\x00" + struct.pack("<HH", len(filler), len(filler) ^ 0xFFFF) + filler + rawbomb
    zs += struct.pack(">L", zlib.adler32(filler + zeros) & 0xFFFFFFFF)
    if zlib.decompress(zs) != filler + zeros or len(zs) - len(rawbomb) - 4 != 65536:
        raise RuntimeError("harness: slice-boundary bomb is not what it should be")
    b = NB()
    b.full(pa.BLOB, b"x", declared=len(filler) - 1, z=zs)
    add("bomb-64MiB-behind-the-first-64KiB-slice", b)
    # a copy-amplifying delta: 64 KiB base copied 256 times = 16 MiB from a 260-byte delta, declared honestly
    base64k = bytes(range(256)) * 256
    amp = pa.size_varint(len(base64k)) + pa.size_varint(len(base64k) * 256)
    amp += bytes([0x80]) * 256  # 0x80 = copy offset 0 size 0x10000
    b = NB()
    o0 = b.full(pa.BLOB, base64k)
    b.ofs_to(o0, amp)
    add("delta-copy-amplification-16MiB", b, legit=len(base64k) * 256)
    # ---- objects whose payload does not parse
    for name, t, payload in (
        ("tree-truncated-entry", pa.TREE, b"100644 a\x00short"),
        ("tree-bad-mode", pa.TREE, b"1x0644 a\x00" + B1_ID),
        ("tree-no-nul", pa.TREE, b"100644 a"),
        ("commit-bad-tree-line", pa.COMMIT, b"tree zzz\n\nmsg\n"),
        ("commit-empty", pa.COMMIT, b""),
        ("tag-garbage", pa.TAG, b"object zz\n"),
    ):
        b = NB()
        b.full(pa.BLOB, B1)
        b.full(t, payload)
        add(name, b)
    b = NB()
    b.full(pa.BLOB, B1)
    b.full(pa.BLOB, B1)
    add("duplicate-object", b)
    b = NB()
    b.full(pa.BLOB, BASE)
    b.full(pa.BLOB, B1)
    add("object-already-in-store", b)
    return out


TAILS = (b"\x00", b"\xff", b"\x00" * 20, b"PACK",
         b"PACK\x00\x00\x00\x02\x00\x00\x00\x00" + hashlib.sha1(b"PACK\x00\x00\x00\x02\x00\x00\x00\x00").digest())


# --------------------------------------------------------------------------- seed table


def build_seeds(scratch):
    """Everything the cases refer to, as one picklable dict (built once by the runner, loaded by
    every sandbox).  Needs dulwich (for the artefacts "written by dulwich") and C git."""
    from engines.common import HarnessError, git

    S = {"streams": {}, "files": {}, "base_store": base_store_files()}
    for name, fn in STREAMS.items():
        b = fn()
        data = b.finish()
        S["streams"][name] = {"data": data, "spans": b.spans, "names": [HEX(n) for n in b.names], "entries": b.entries(),
                              "bounds": pa.boundaries(b.spans), "legit": 0}
    for name, b, kw in attack_builders():
        legit = kw.pop("legit", 0)
        must_reject = kw.pop("must_reject", None)
        alias = kw.pop("alias", ())  # extra names the forged index gives to an entry: [(name, entry number)]
        data = b.finish(**kw)
        ents = b.entries()
        S["streams"]["atk:" + name] = {"data": data, "spans": b.spans, "names": [HEX(n) for n in b.names], "entries": ents,
                                       "bounds": pa.boundaries(b.spans), "legit": legit,
                                       "alias": [(n, ents[i][1], ents[i][2]) for n, i in alias], "must_reject": must_reject}
    _build_files(S, scratch, git, HarnessError)
    return S


def _write_tree(root, files):
    for rel, data in files.items():
        p = os.path.join(root, rel)
        os.makedirs(os.path.dirname(p), exist_ok=True)
        with open(p, "wb") as f:
            f.write(data)


def _build_files(S, scratch, git, HarnessError):
    from dulwich.index import Index, IndexEntry
    from dulwich.object_format import DEFAULT_OBJECT_FORMAT as OF
    from dulwich.object_store import DiskObjectStore
    from dulwich.pack import Pack, write_pack_index_v1, write_pack_index_v2, write_pack_index_v3
    from dulwich.refs import write_packed_refs

    F = S["files"]
    # ---- pack + idx pairs
    b = stream_pair()
    pack = b.finish()
    entries = sorted(b.entries())
    base = "pack-" + hashlib.sha1(b"".join(e[0] for e in entries)).hexdigest()
    for v, writer in ((1, write_pack_index_v1), (2, write_pack_index_v2), (3, write_pack_index_v3)):
        f = io.BytesIO()
        if v == 3:
            writer(f, entries, pack[-20:], hash_format=1)
        else:
            writer(f, entries, pack[-20:])
        idx = f.getvalue()
        if v == 1 and idx != pa.idx_v1(entries, pack[-20:]):
            raise HarnessError("dulwich's idx v1 differs from the reference builder's")
        if v == 2 and idx != pa.idx_v2(entries, pack[-20:]):
            raise HarnessError("dulwich's idx v2 differs from the reference builder's")
        F["pair.v%d" % v] = {"dir": {"pack/%s.pack" % base: pack, "pack/%s.idx" % base: idx}, "base": "pack/" + base,
                             "targets": {"pack": "pack/%s.pack" % base, "idx": "pack/%s.idx" % base},
                             "names": [HEX(n) for n in b.names], "spans": {"pack": b.spans, "idx": pa.idx_spans(v, len(entries))}}
    # C git agrees that the pair is sound
    d = os.path.join(scratch, "gitcheck")
    os.makedirs(d)
    git(["init", "--bare", "-q", d])
    _write_tree(os.path.join(d, "objects"), F["pair.v2"]["dir"])
    p = git(["verify-pack", "-v", os.path.join(d, "objects", "pack", base + ".idx")], cwd=d)
    for n in b.names:
        if HEX(n) not in p.stdout:
            raise HarnessError("git verify-pack does not list %s" % HEX(n))
    for name in STREAMS:
        st = S["streams"][name]
        dd = os.path.join(scratch, "gitcheck-" + name)
        os.makedirs(dd)
        git(["init", "--bare", "-q", dd])
        _write_tree(os.path.join(dd, "objects"), S["base_store"])
        p = git(["index-pack", "--stdin", "--fix-thin"], cwd=dd, input=st["data"])
        for n in st["names"]:
            t = git(["cat-file", "-t", n.decode()], cwd=dd).stdout.strip()
            if not t:
                raise HarnessError("git does not know %s after index-pack of seed %s" % (n, name))
    # ---- attack pairs: the attack pack + a forged v2 index naming every entry
    for name, st in S["streams"].items():
        if not name.startswith("atk:") or (len(st["data"]) > 4096 and "slice" not in name):
            continue
        ents = st["entries"] + st.get("alias", [])
        bn = "pack-" + hashlib.sha1(b"".join(sorted(e[0] for e in ents))).hexdigest()
        F["pair." + name] = {"dir": {"pack/%s.pack" % bn: st["data"], "pack/%s.idx" % bn: pa.idx_v2(ents, st["data"][-20:])},
                             "base": "pack/" + bn, "targets": {}, "names": st["names"] + [HEX(e[0]) for e in st.get("alias", [])], "spans": {},
                             "must_reject": st.get("must_reject")}
    # ---- loose objects
    for kind, t, data in (("blob", pa.BLOB, B1), ("tree", pa.TREE, T1), ("commit", pa.COMMIT, C1), ("tag", pa.TAG, G1)):
        hexid = pa.obj_hex(t, data)
        rel = loose_rel(hexid)
        F["loose." + kind] = {"dir": {rel: loose_bytes(t, data)}, "targets": {"obj": rel}, "name": hexid, "type": t}
    # a loose object in the uncompressed-header ("new style") format is not written by anything current; skipped
    # ---- loose-object attacks (complete files; the name is the one the content should have)
    bombz = zlib.compress(b"blob %d\x00" % (16 << 20) + bytes(16 << 20), 9)
    for name, content, claimed in (
        ("size-header+1", b"blob %d\x00" % (len(B1) + 1) + B1, B1_ID),
        ("size-header-1", b"blob %d\x00" % (len(B1) - 1) + B1, B1_ID),
        ("size-header-negative", b"blob -1\x00" + B1, B1_ID),
        ("size-header-not-a-number", b"blob x\x00" + B1, B1_ID),
        ("type-unknown", b"blub 6\x00" + B1, B1_ID),
        ("no-nul", b"blob 6" + B1, B1_ID),
        ("no-space", b"blob6\x00" + B1, B1_ID),
        ("other-object", b"blob %d\x00" % len(B2) + B2, B1_ID),
        ("type-swapped", b"commit %d\x00" % len(B1) + B1, B1_ID),
        ("header-8KiB", b"blob " + b"1" * 9000 + b"\x00" + B1, B1_ID),
    ):
        F["loose.atk:" + name] = {"dir": {loose_rel(HEX(claimed)): zlib.compress(content, 6)}, "targets": {}, "name": HEX(claimed), "type": pa.BLOB}
    for mib in (16, 64, 128):  # no NUL within the first 8 KiB of inflated data, and the stream keeps inflating
        F["loose.atk:bomb-no-nul-%dMiB" % mib] = {"dir": {loose_rel(HEX(B1_ID)): zlib.compress(b"blob " + b"1" * (mib << 20), 9)}, "targets": {},
                                                 "name": HEX(B1_ID), "type": pa.BLOB, "legit": 0}
    F["loose.atk:size-header-2^40-small-body"] = {"dir": {loose_rel(HEX(B1_ID)): zlib.compress(b"blob %d\x00" % (1 << 40) + B1, 6)}, "targets": {},
                                                 "name": HEX(B1_ID), "type": pa.BLOB, "legit": 0}
    F["loose.atk:trailing-garbage"] = {"dir": {loose_rel(HEX(B1_ID)): loose_bytes(pa.BLOB, B1) + b"GARBAGE"}, "targets": {}, "name": HEX(B1_ID), "type": pa.BLOB}
    F["loose.atk:bomb-honest-16MiB"] = {"dir": {loose_rel(HEX(_bid(bytes(16 << 20)))): bombz}, "targets": {}, "name": HEX(_bid(bytes(16 << 20))), "type": pa.BLOB,
                                        "legit": 16 << 20}
    F["loose.atk:bomb-32MiB-declared-6-bytes"] = {"dir": {loose_rel(HEX(B1_ID)): zlib.compress(b"blob 6\x00" + bytes(32 << 20), 9)}, "targets": {},
                                                  "name": HEX(B1_ID), "type": pa.BLOB, "legit": 32 << 20}
    # (legit = 32 MiB: dulwich documents that a loose object is inflated up to loose_object_size_limit, 512 MiB by default,
    # whatever its header declares; the header/payload disagreement itself is judged by the hash clause)
    # ---- index files
    blob = HEX(B1_ID)
    for v in (2, 4):
        p = os.path.join(scratch, "index.v%d" % v)
        ix = Index(p, read=False, version=v)
        for nm in (b"a", b"dir/b"):
            ix[nm] = IndexEntry(ctime=(1000000000, 0), mtime=(1000000000, 0), dev=1, ino=2, mode=0o100644, uid=3, gid=4,
                                size=6, sha=blob, flags=0, extended_flags=0)
        ix.write()
        with open(p, "rb") as f:
            F["index.v%d" % v] = {"dir": {"index": f.read()}, "targets": {"index": "index"}}
    # ---- packed-refs
    f = io.BytesIO()
    write_packed_refs(f, {b"refs/heads/main": HEX(C1_ID), b"refs/tags/v1": HEX(G1_ID), b"refs/heads/dev": HEX(C2_ID)},
                      {b"refs/tags/v1": HEX(C1_ID)})
    F["packed-refs"] = {"dir": {"packed-refs": f.getvalue(), "HEAD": b"ref: refs/heads/main\n"}, "targets": {"packed-refs": "packed-refs"}}
    # ---- acceleration files: a repository with two packs (so that the midx is not trivial)
    repo = os.path.join(scratch, "accel")
    os.makedirs(repo)
    git(["init", "--bare", "-q", repo])
    objs = os.path.join(repo, "objects")
    pb = NB()
    for t, dta in ((pa.BLOB, B1), (pa.TREE, T1), (pa.COMMIT, C1), (pa.COMMIT, C2)):
        pb.full(t, dta)
    p1 = pb.finish()
    e1 = sorted(pb.entries())
    n1 = "pack-" + hashlib.sha1(b"".join(e[0] for e in e1)).hexdigest()
    pb2 = NB()
    pb2.full(pa.TAG, G1)
    pb2.full(pa.BLOB, B2)
    p2 = pb2.finish()
    e2 = sorted(pb2.entries())
    n2 = "pack-" + hashlib.sha1(b"".join(e[0] for e in e2)).hexdigest()
    two = {"pack/%s.pack" % n1: p1, "pack/%s.idx" % n1: pa.idx_v2(e1, p1[-20:]),
           "pack/%s.pack" % n2: p2, "pack/%s.idx" % n2: pa.idx_v2(e2, p2[-20:])}
    _write_tree(objs, two)
    accel_names = [HEX(n) for n in pb.names + pb2.names]
    git(["update-ref", "refs/heads/main", HEX(C2_ID).decode()], cwd=repo)
    git(["fsck", "--strict"], cwd=repo)
    # dulwich writes
    st = DiskObjectStore(objs)
    st.write_commit_graph([HEX(C2_ID)], reachable=True)
    st.write_midx()
    st.close()
    with open(os.path.join(objs, "info", "commit-graph"), "rb") as f:
        cg_d = f.read()
    with open(os.path.join(objs, "pack", "multi-pack-index"), "rb") as f:
        mx_d = f.read()
    os.unlink(os.path.join(objs, "info", "commit-graph"))
    os.unlink(os.path.join(objs, "pack", "multi-pack-index"))
    # git writes
    git(["commit-graph", "write", "--reachable"], cwd=repo)
    git(["multi-pack-index", "write"], cwd=repo)
    with open(os.path.join(objs, "info", "commit-graph"), "rb") as f:
        cg_g = f.read()
    with open(os.path.join(objs, "pack", "multi-pack-index"), "rb") as f:
        mx_g = f.read()
    commits = [HEX(C1_ID), HEX(C2_ID)]
    for who, cg in (("dulwich", cg_d), ("git", cg_g)):
        F["cgraph." + who] = {"dir": dict(two, **{"info/commit-graph": cg}), "targets": {"commit-graph": "info/commit-graph"},
                              "commits": commits, "names": accel_names}
    for who, mx in (("dulwich", mx_d), ("git", mx_g)):
        F["midx." + who] = {"dir": dict(two, **{"pack/multi-pack-index": mx}), "targets": {"midx": "pack/multi-pack-index"},
                            "names": accel_names}
    # ---- bitmaps: one pack holding everything
    brepo = os.path.join(scratch, "bm")
    os.makedirs(brepo)
    git(["init", "--bare", "-q", brepo])
    bobjs = os.path.join(brepo, "objects")
    _write_tree(bobjs, {"pack/%s.pack" % n1: p1, "pack/%s.idx" % n1: two["pack/%s.idx" % n1]})
    git(["update-ref", "refs/heads/main", HEX(C2_ID).decode()], cwd=brepo)
    one = {"pack/%s.pack" % n1: p1, "pack/%s.idx" % n1: two["pack/%s.idx" % n1]}
    from dulwich.bitmap import generate_bitmap, write_bitmap

    st = DiskObjectStore(bobjs)
    pk = Pack(os.path.join(bobjs, "pack", n1), object_format=OF)
    bm = generate_bitmap(pack_index=pk.index, object_store=st, refs={b"refs/heads/main": HEX(C2_ID)}, pack_checksum=p1[-20:])
    bpath = os.path.join(bobjs, "pack", n1 + ".bitmap")
    write_bitmap(bpath, bm)
    pk.close()
    st.close()
    with open(bpath, "rb") as f:
        bm_d = f.read()
    os.unlink(bpath)
    F["bitmap.dulwich"] = {"dir": dict(one, **{"pack/%s.bitmap" % n1: bm_d}), "targets": {"bitmap": "pack/%s.bitmap" % n1},
                           "base": "pack/" + n1, "names": [HEX(n) for n in pb.names]}
    # crafted bitmaps: EWAH run-length bombs (a run word expands to running_len x 64 bits)
    def ewah(bit_count, words):
        return struct.pack(">II", bit_count, len(words)) + b"".join(struct.pack(">Q", w) for w in words) + struct.pack(">I", 0)

    def bitmap_file(type_bitmaps):
        return b"BITM" + struct.pack(">HHI", 1, 1, 0) + p1[-20:] + b"".join(type_bitmaps)

    empty = ewah(0, [])
    for name, bits, run_words in (("ewah-run-of-2^32-bits", 0xFFFFFFFF, (1 << 26) - 1), ("ewah-run-of-2^24-bits", 1 << 24, 1 << 18)):
        rlw = 1 | (run_words << 1)  # running bit 1, running_len, no literal words
        F["bitmap.atk:" + name] = {"dir": dict(one, **{"pack/%s.bitmap" % n1: bitmap_file([ewah(bits, [rlw]), empty, empty, empty])}),
                                   "targets": {}, "base": "pack/" + n1, "names": [HEX(n) for n in pb.names]}
    # git: repack everything into one pack with a bitmap (git chooses its own object order / pack name)
    git(["-c", "pack.writeBitmapHashCache=true", "repack", "-a", "-d", "-b", "-q"], cwd=brepo)
    gfiles = {}
    gbase = None
    for fn in sorted(os.listdir(os.path.join(bobjs, "pack"))):
        if fn.endswith((".pack", ".idx", ".bitmap")):
            with open(os.path.join(bobjs, "pack", fn), "rb") as f:
                gfiles["pack/" + fn] = f.read()
            if fn.endswith(".bitmap"):
                gbase = fn[:-7]
    if gbase is None:
        raise HarnessError("git repack -b wrote no bitmap")
    F["bitmap.git"] = {"dir": gfiles, "targets": {"bitmap": "pack/%s.bitmap" % gbase}, "base": "pack/" + gbase,
                       "names": [HEX(n) for n in pb.names]}


# --------------------------------------------------------------------------- mutants


def mutant(data: bytes, mut, seeds=None) -> bytes:
    if mut is None:
        return data
    mut = tuple(mut)
    if mut[0] == mutfault.APPEND:
        return data + TAILS[mut[2]]
    if mut[0] == mutfault.SPLICE:
        other = seeds["streams"][mut[3]]["data"]
        return data[:mut[1]] + other[mut[2]:]
    return mutfault.apply(data, mut)


# =========================================================================== sandbox side

_S = None  # the seed table
_SCRATCH = None
_OF = None


def sb_setup(arg):
    """Runs once in the sandbox template."""
    global _S, _SCRATCH, _OF
    with open(arg["seeds"], "rb") as f:
        _S = pickle.load(f)
    _SCRATCH = arg["scratch"]
    import dulwich.bitmap  # noqa: F401
    import dulwich.commit_graph  # noqa: F401
    import dulwich.index  # noqa: F401
    import dulwich.midx  # noqa: F401
    import dulwich.object_store  # noqa: F401
    import dulwich.refs  # noqa: F401
    import dulwich.repo  # noqa: F401
    import dulwich.server  # noqa: F401
    from dulwich.object_format import DEFAULT_OBJECT_FORMAT

    _OF = DEFAULT_OBJECT_FORMAT
    import logging

    logging.disable(logging.CRITICAL)
    return {"seeds": len(_S["streams"]) + len(_S["files"])}


def local_setup(seeds, scratch):
    """The same, for in-process use (fault enumeration, replays)."""
    global _S, _SCRATCH, _OF
    from dulwich.object_format import DEFAULT_OBJECT_FORMAT

    _S, _SCRATCH, _OF = seeds, scratch, DEFAULT_OBJECT_FORMAT


class _DetNames:
    """Deterministic stand-in for tempfile._RandomNameSequence."""

    def __init__(self):
        self.n = 0

    def __iter__(self):
        return self

    def __next__(self):
        self.n += 1
        return "v%06d" % self.n


_WORK = {}


def _workdir(tag):
    """A directory private to this worker process."""
    key = (os.getpid(), tag)
    d = _WORK.get(key)
    if d is None:
        d = os.path.join(_SCRATCH, "w%d-%s" % (os.getpid(), tag))
        if os.path.exists(d):
            shutil.rmtree(d)
        os.makedirs(d)
        _WORK[key] = d
    return d


def harness_hash(type_num, raw) -> bytes:
    name = pa.TYPE_NAMES.get(type_num)
    if name is None:
        return b"<type %r>" % (type_num,)
    return HEX(hashlib.sha1(name + b" %d\x00" % len(raw) + raw).digest())


def exc_class(e) -> str:
    return type(e).__name__


def ordinary(e) -> bool:
    """Statement: "fails with an ordinary error"."""
    if not isinstance(e, Exception):
        return False  # SystemExit, KeyboardInterrupt, GeneratorExit, pyo3 PanicException
    if isinstance(e, (RecursionError, MemoryError)):
        return False
    return True


class Verdict:
    def __init__(self, site):
        self.site = site
        self.classes = []
        self.viol = []

    def cls(self, c):
        self.classes.append(c)

    def bad(self, predicate, summary, site=None):
        self.viol.append(("%s:%s" % (site or self.site, predicate), summary))

    def result(self):
        return (self.classes, self.viol)


def _call(v, site, fn, what):
    """Run one dulwich call; -> ("ok", value) | ("exc", e).  A non-ordinary exception is a violation
    of "fails with an ordinary error"."""
    try:
        return ("ok", fn())
    except BaseException as e:  # noqa: B036 — observing exactly this is the point
        if not ordinary(e):
            v.bad("non-ordinary-exception:" + exc_class(e), "%s raised %s: %s" % (what, exc_class(e), str(e)[:160]), site)
        # keep the class and the text only: the traceback's frames hold memoryviews of mapped files
        e.__traceback__ = None
        e.__context__ = None
        e.__cause__ = None
        return ("exc", e)


def _close(x):
    try:
        if x is not None:
            x.close()
    except BaseException:  # noqa: B036
        pass


# --------------------------------------------------------------------------- feeding streams


class Feed:
    """A wire delivering `data` in one chunk or in two (cut): read() blocks until n bytes or EOF,
    recv() returns what the current chunk has (at least one byte unless EOF)."""

    def __init__(self, data, cut=None):
        self.chunks = [data] if cut is None else [data[:cut], data[cut:]]
        self.chunks = [c for c in self.chunks if c]
        self.i = 0
        self.off = 0
        self.consumed = 0

    def recv(self, n):
        while self.i < len(self.chunks) and self.off >= len(self.chunks[self.i]):
            self.i += 1
            self.off = 0
        if self.i >= len(self.chunks):
            return b""
        c = self.chunks[self.i]
        out = c[self.off:self.off + n]
        self.off += len(out)
        self.consumed += len(out)
        return out

    def read(self, n):
        parts = []
        while n > 0:
            d = self.recv(n)
            if not d:
                break
            parts.append(d)
            n -= len(d)
        return b"".join(parts)


# --------------------------------------------------------------------------- observing stores


def _listing(objdir):
    """(pack/idx pairs, loose object files, other files) — the statement's 'partially written pack'
    is anything else in pack/ or a tmp file in objects/."""
    pairs, loose, other = [], [], []
    packdir = os.path.join(objdir, "pack")
    names = set(os.listdir(packdir)) if os.path.isdir(packdir) else set()
    for n in sorted(names):
        if n.endswith(".pack") and n[:-5] + ".idx" in names:
            pairs.append(n[:-5])
        elif n.endswith(".idx") and n[:-4] + ".pack" in names:
            pass
        else:
            other.append("pack/" + n)
    for d in sorted(os.listdir(objdir)):
        p = os.path.join(objdir, d)
        if len(d) == 2 and os.path.isdir(p) and re.fullmatch("[0-9a-f]{2}", d):
            for n in sorted(os.listdir(p)):
                loose.append(d + n)
        elif d not in ("pack", "info"):
            other.append(d)
    return pairs, loose, other


def observe_store(store, probe_ids):
    """What a user of the store can see: the set of ids, membership and readability of the probes."""
    out = {}
    try:
        out["ids"] = sorted(store)
    except Exception as e:
        out["ids"] = "raises " + exc_class(e)
    mem = []
    for i in probe_ids:
        try:
            mem.append(i in store)
        except Exception as e:
            mem.append("raises " + exc_class(e))
    out["contains"] = mem
    return out


def check_objects(v, store, where, site):
    """Clause (3): every object now visible hashes to the name it is stored under."""
    try:
        ids = sorted(store)
    except BaseException as e:  # noqa: B036
        v.bad("store-unlistable-after-success:" + exc_class(e), "%s: iterating the store raised %s: %s" % (where, exc_class(e), str(e)[:120]), site)
        return
    for i in ids:
        try:
            t, raw = store.get_raw(i)
        except BaseException as e:  # noqa: B036
            v.bad("visible-object-unreadable:" + exc_class(e), "%s: %s is listed by the store but get_raw raises %s: %s" % (
                where, i.decode(), exc_class(e), str(e)[:120]), site)
            continue
        h = harness_hash(t, raw)
        if h != i:
            v.bad("object-does-not-hash-to-its-name", "%s: the store offers %s, but its content (type %d, %d bytes) hashes to %s" % (
                where, i.decode(), t, len(raw), h.decode()), site)


def check_packs(v, store, where, site):
    """Designer's clause "random access equals iteration", pack by pack.  The statement itself only
    demands that every object hashes to its name (check_objects), so a pack that iterates differently
    from what its index says (dulwich installs packs with unreferenced bytes after the declared
    entries, and appends the thin-pack bases behind them) is recorded as an outcome class only."""
    from dulwich.objects import hex_to_sha

    try:
        packs = list(store.packs)
    except BaseException as e:  # noqa: B036
        v.bad("packs-unlistable-after-success:" + exc_class(e), "%s: store.packs raised %s" % (where, exc_class(e)), site)
        return
    for p in packs:
        try:
            names = sorted(p)
            for n in names:  # what the index offers must be readable and right (this *is* the statement)
                got = p.get_raw(hex_to_sha(n))
                if harness_hash(got[0], got[1]) != n:
                    v.bad("installed-pack-object-does-not-hash-to-its-name", "%s: %s read from the installed pack hashes to %s" % (
                        where, n.decode(), harness_hash(got[0], got[1]).decode()), site)
        except BaseException as e:  # noqa: B036
            v.bad("installed-pack-unreadable:" + exc_class(e), "%s: reading the installed pack by name raised %s: %s" % (where, exc_class(e), str(e)[:120]), site)
            continue
        # the same with a reader that is not dulwich's: every indexed entry, parsed from the bytes on disk as
        # gitformat-pack says (size header == inflated length, deltas applied by the reference decoder), must
        # hash to the name the index gives it — "every object ingested hashes to the name it is stored under"
        try:
            with open(p._basename + ".pack", "rb") as f:
                pbytes = f.read()
            with open(p._basename + ".idx", "rb") as f:
                ibytes = f.read()
            ext = {pa.obj_id(t, d): (t, d) for t, d in STORE_OBJECTS}
            for n, problem in pa.resolve_all(pbytes, pa.parse_idx(ibytes), ext):
                if problem:
                    v.bad("installed-pack-entry:" + problem, "%s: entry %s of the installed %s, re-read from the file by the reference reader: %s" % (
                        where, n[:12].decode(), os.path.basename(p._basename)[:17], problem), site)
        except (OSError, ValueError, struct.error) as e:
            v.bad("installed-pack-not-parsable-by-reference-reader:" + exc_class(e), "%s: %s" % (where, str(e)[:120]), site)
        try:
            it = {}
            for o in p.iterobjects():
                it[o.id] = (o.type_num, o.as_raw_string())
            if sorted(it) != sorted(set(names)):
                v.cls(site + ":accepted:installed-pack-iterates-differently-from-its-index(allowed)")
        except Exception as e:
            v.cls(site + ":accepted:installed-pack-cannot-be-iterated:%s(allowed)" % exc_class(e))


def _mk_disk_root(tag="ing"):
    root = os.path.join(_workdir(tag), "r")
    if os.path.lexists(root):
        shutil.rmtree(root)
    objdir = os.path.join(root, "objects")
    _write_tree(objdir, _S["base_store"])
    os.makedirs(os.path.join(objdir, "info"), exist_ok=True)
    return root, objdir


def _mk_mem_store():
    from dulwich.object_store import MemoryObjectStore
    from dulwich.objects import ShaFile

    m = MemoryObjectStore()
    for t, d in STORE_OBJECTS:
        m.add_object(ShaFile.from_raw_string(t, d))
    return m


def _mk_disk_repo(tag="ing"):
    """A bare repository around the base store (for receive-pack)."""
    root, objdir = _mk_disk_root(tag)
    _write_tree(root, {"HEAD": b"ref: refs/heads/main\n", "config": b"[core]\n\trepositoryformatversion = 0\n\tfilemode = true\n\tbare = true\n"})
    os.makedirs(os.path.join(root, "refs", "heads"))
    os.makedirs(os.path.join(root, "refs", "tags"))
    return root, objdir


# --------------------------------------------------------------------------- ingestion paths

ZERO = b"0" * 40
PUSH_REF = b"refs/heads/pushed"


def _ingest_op(store, path, data, cut, repo=None, tip=None, idx_entries=()):
    """Returns a callable performing the ingestion exactly the way dulwich's own callers do."""
    import hashlib as _h

    from dulwich.pack import PackData

    if path == "add_pack":  # client.fetch without thin-pack: write into the file, then commit()
        def op():
            f, commit, abort = store.add_pack()
            try:
                f.write(data)
            except BaseException:
                abort()
                raise
            return commit()
        return op
    if path == "add_thin_pack":
        def op():
            feed = Feed(data, cut)
            return store.add_thin_pack(feed.read, feed.recv if cut is not None else None)
        return op
    if path == "add_pack_data":  # BundleClient.fetch
        def op():
            pd = PackData.from_file(io.BytesIO(data), _OF)
            try:
                return store.add_pack_data(len(pd), pd.iter_unpacked())
            finally:
                pd.close()
        return op
    if path == "bundle.store_objects":  # Bundle.store_objects(object_store), the documented way to unbundle
        def op():
            from dulwich.bundle import Bundle

            bd = Bundle()
            bd.version, bd.capabilities, bd.prerequisites, bd.references = 2, {}, [], {}
            bd.pack_data = PackData.from_file(io.BytesIO(data), _OF)
            try:
                return bd.store_objects(store)
            finally:
                _close(bd.pack_data)
                _close(bd)
        return op
    if path == "unpack_objects":  # porcelain.unpack_objects(pack_path, target): pack + idx handed over by the user
        def op():
            from dulwich import porcelain
            from dulwich.pack import PackData as _PD

            d = os.path.join(_workdir("unp"), "in")
            if os.path.exists(d):
                shutil.rmtree(d)
            os.makedirs(d)
            pth = os.path.join(d, "incoming.pack")
            with open(pth, "wb") as f:
                f.write(data)
            with open(os.path.join(d, "incoming.idx"), "wb") as f:
                f.write(pa.idx_v2(idx_entries, data[-20:]))
            return porcelain.unpack_objects(pth, repo.path)
        return op
    if path == "receive-pack":
        def op():
            from dulwich.protocol import Protocol, ReceivableProtocol, pkt_line
            from dulwich.server import DictBackend, ReceivePackHandler

            head = pkt_line(ZERO + b" " + tip + b" " + PUSH_REF + b"\x00report-status ofs-delta\n") + b"0000"
            out = io.BytesIO()
            if cut is None:
                inp = io.BytesIO(head + data)
                proto = Protocol(inp.read, out.write)
            else:
                feed = Feed(head + data, len(head) + cut)
                proto = ReceivableProtocol(feed.recv, out.write)
            h = ReceivePackHandler(DictBackend({b"/": repo}), [b"/"], proto, stateless_rpc=True)
            h.handle()
            return out.getvalue()
        return op
    raise AssertionError(path)


def _report_status(out: bytes):
    """unpack status of a report-status answer (b"ok" or the error text), None if there is none."""
    pos = 0
    while pos + 4 <= len(out):
        try:
            n = int(out[pos:pos + 4], 16)
        except ValueError:
            return None
        if n == 0:
            pos += 4
            continue
        line = out[pos + 4:pos + n]
        pos += n
        if line.startswith(b"unpack "):
            return line[7:].rstrip(b"\n")
    return None


def run_ingest(seed, mut, variant):
    kind, path, cut = variant
    st = _S["streams"][seed]
    data = mutant(st["data"], mut, _S)
    site = "ingest:%s.%s" % (kind, path)
    v = Verdict(site)
    tempfile._name_sequence = _DetNames()
    probe = STORE_IDS + [n for n in st["names"] if n not in STORE_IDS]
    repo = None
    refs_before = None
    tip = st["names"][-1] if st["names"] else HEX(B1_ID)
    if kind == "disk":
        from dulwich.object_store import DiskObjectStore

        if path in ("receive-pack", "unpack_objects"):
            from dulwich.repo import Repo

            root, objdir = _mk_disk_repo()
            repo = Repo(root)
            store = repo.object_store
        else:
            root, objdir = _mk_disk_root()
            store = DiskObjectStore(objdir)
        before_list = _listing(objdir)
    else:
        if path == "receive-pack":
            from dulwich.repo import MemoryRepo

            repo = MemoryRepo()
            store = repo.object_store
            from dulwich.objects import ShaFile

            for t, d in STORE_OBJECTS:
                store.add_object(ShaFile.from_raw_string(t, d))
        else:
            store = _mk_mem_store()
    if repo is not None:
        refs_before = dict(repo.get_refs())
    before = observe_store(store, probe)
    if before["ids"] != sorted(STORE_IDS):
        raise RuntimeError("harness: the receiving store does not start with the expected objects: %r" % (before,))
    what = "%s.%s(%s%s)" % (kind, path, seed, "" if mut is None else " " + repr(tuple(mut)))
    res = _call(v, site, _ingest_op(store, path, data, cut, repo, tip, st["entries"] + st.get("alias", [])), what)
    failed = res[0] == "exc"
    why = exc_class(res[1]) if failed else "ok"
    if path == "receive-pack" and not failed:
        status = _report_status(res[1])
        if status is None:
            failed, why = True, "no-report"
        elif status != b"ok":
            failed, why = True, "unpack-error-reported"
        else:
            why = "unpack-ok"
    v.cls("%s:%s" % (site, "rejected:" + why if failed else "accepted"))
    if not failed and mut is None and st.get("must_reject"):
        v.bad("accepted-entry-whose-" + st["must_reject"], "%s was accepted although the pack is crafted so that its only flaw is an entry whose %s" % (
            what, st["must_reject"].replace("-", " ")))
    res = None
    # ---- what can be seen now
    live = observe_store(store, probe)
    stores = [("the live store", store)]
    fresh = None
    if kind == "disk":
        from dulwich.object_store import DiskObjectStore

        try:
            fresh = DiskObjectStore(objdir)
            stores.append(("a freshly opened store", fresh))
            fresh_obs = observe_store(fresh, probe)
        except BaseException as e:  # noqa: B036
            v.bad("fresh-store-cannot-be-opened:" + exc_class(e), "%s: DiskObjectStore(objects) raised %s afterwards" % (what, exc_class(e)))
            fresh_obs = None
        after_list = _listing(objdir)
    if failed:
        # clause (4): observably unchanged
        for label, obs in (("the live store", live),) + ((("a freshly opened store", fresh_obs),) if kind == "disk" and fresh_obs is not None else ()):
            if obs["ids"] != before["ids"]:
                if isinstance(obs["ids"], str):
                    v.bad("store-unlistable-after-failure", "%s failed (%s) and %s now %s when listed" % (what, why, label, obs["ids"]))
                else:
                    new = sorted(set(obs["ids"]) - set(before["ids"]))
                    lost = sorted(set(before["ids"]) - set(obs["ids"]))
                    pred = "new-object-visible-after-failure" if new else "object-lost-after-failure"
                    v.bad(pred, "%s failed (%s) but %s now lists %d new object(s) %s%s" % (
                        what, why, label, len(new), [n[:10].decode() for n in new][:4], (" and lost %r" % lost) if lost else ""))
            elif obs["contains"] != before["contains"]:
                v.bad("membership-changed-after-failure", "%s failed (%s) but `id in store` changed on %s: %r -> %r" % (
                    what, why, label, before["contains"], obs["contains"]))
        if kind == "disk":
            if after_list[0] != before_list[0]:
                v.bad("pack-installed-after-failure", "%s failed (%s) but objects/pack now holds the pack/idx pair(s) %r (before: %r)" % (
                    what, why, [p[:17] for p in after_list[0]], [p[:17] for p in before_list[0]]))
            if after_list[1] != before_list[1]:
                v.bad("loose-objects-changed-after-failure", "%s failed (%s) but the loose object files changed: %r -> %r" % (
                    what, why, before_list[1], after_list[1]))
        if repo is not None:
            try:
                refs_after = dict(repo.get_refs())
            except Exception as e:
                refs_after = "raises " + exc_class(e)
            if refs_after != refs_before:
                v.bad("ref-changed-after-failed-unpack", "%s failed (%s) but the refs changed: %r -> %r" % (what, why, refs_before, refs_after))
    else:
        for label, s in stores:
            check_objects(v, s, "%s succeeded; %s" % (what, label), site)
            if kind == "disk":
                check_packs(v, s, "%s succeeded; %s" % (what, label), site)
    if kind == "disk":
        left = [o for o in after_list[2] if o not in before_list[2]]
        if left:
            v.cls("%s:leftover:%s" % (site, "+".join(sorted({"tmp_pack" if "tmp_pack" in o else "pack-without-idx" if o.endswith(".pack") else
                                                              "idx-without-pack" if o.endswith(".idx") else "other" for o in left}))))
            if failed:
                # the left-overs of a failed ingestion are tolerated because they are never used and prune() removes them
                def pr():
                    ps = DiskObjectStore(objdir)
                    try:
                        ps.prune(grace_period=-1)
                        return observe_store(ps, probe)
                    finally:
                        _close(ps)
                r = _call(v, site + ":prune", pr, "prune() after the failed %s" % what)
                if r[0] == "ok":
                    again = _listing(objdir)
                    still = [o for o in again[2] if o in left]
                    if still:
                        v.bad("leftover-not-removed-by-prune", "%s failed and left %r behind, which prune(grace_period=-1) does not remove" % (
                            what, sorted({re.sub(r"tmp_pack_.*", "tmp_pack_*", re.sub(r"[0-9a-f]{40}", "<id>", o)) for o in still})))
                    if again[0] != before_list[0] or again[1] != before_list[1] or r[1]["ids"] != before["ids"]:
                        v.bad("prune-after-failure-changes-the-store", "%s failed; after prune() the store lists %r, pairs %r" % (what, r[1]["ids"], again[0]))
                else:
                    v.bad("prune-after-failure-raises:" + exc_class(r[1]), "prune() after the failed %s raised %s" % (what, exc_class(r[1])))
        for s in (fresh, store):
            try:
                if s is not None:
                    s.close()
            except BaseException:  # noqa: B036
                pass
        if repo is not None:
            try:
                repo.close()
            except BaseException:  # noqa: B036
                pass
    return v.result()


# --------------------------------------------------------------------------- bare stream readers


def run_stream(seed, mut, variant):
    """PackStreamReader / PackStreamCopier without a store: variant = (which, cut)."""
    from dulwich.pack import PackStreamCopier, PackStreamReader

    which, cut = variant
    st = _S["streams"][seed]
    data = mutant(st["data"], mut, _S)
    site = "stream:" + which
    v = Verdict(site)
    feed = Feed(data, cut)
    what = "%s(%s%s%s)" % (which, seed, "" if mut is None else " " + repr(tuple(mut)), "" if cut is None else " cut=%d" % cut)
    out = io.BytesIO()
    if which == "PackStreamReader":
        def op():
            r = PackStreamReader(hashlib.sha1, feed.read, feed.recv)
            return [(u.pack_type_num, u.offset, b"".join(u.decomp_chunks)) for u in r.read_objects()]
    else:
        def op():
            c = PackStreamCopier(hashlib.sha1, feed.read, feed.recv, out)
            c.verify()
            return None
    res = _call(v, site, op, what)
    if res[0] == "exc":
        v.cls("%s:rejected:%s" % (site, exc_class(res[1])))
        return v.result()
    v.cls("%s:accepted" % site)
    if mut is None and st.get("must_reject"):
        v.bad("accepted-entry-whose-" + st["must_reject"], "%s accepted a pack crafted so that its only flaw is an entry whose %s" % (
            what, st["must_reject"].replace("-", " ")))
    # accepted: what was taken off the wire must be a checksummed pack (self-consistent)
    taken = data[:feed.consumed]
    if len(taken) < 32 or hashlib.sha1(taken[:-20]).digest() != taken[-20:]:
        v.bad("accepted-stream-whose-trailer-does-not-match", "%s accepted %d bytes whose last 20 bytes are not the SHA-1 of the rest" % (what, len(taken)))
    if which == "PackStreamCopier" and out.getvalue() != taken:
        v.bad("copy-differs-from-wire", "%s wrote %d bytes, took %d off the wire" % (what, len(out.getvalue()), len(taken)))
    if which == "PackStreamReader":
        for t, off, raw in res[1]:
            if data[off:off + 1] == b"" or ((data[off] >> 4) & 7) != t:
                v.bad("object-offset-or-type-wrong", "%s reports an entry of type %d at offset %r" % (what, t, off))
    return v.result()


# --------------------------------------------------------------------------- reading damaged files


def _family_dir(seed, tag):
    """Per-worker copy of the seed's directory; the previously damaged file is restored lazily."""
    key = (os.getpid(), "fam", seed)
    ent = _WORK.get(key)
    if ent is None:
        root = os.path.join(_workdir("rd"), re.sub(r"[^A-Za-z0-9.]+", "_", seed))
        if os.path.exists(root):
            shutil.rmtree(root)
        objdir = os.path.join(root, tag)
        _write_tree(objdir, _S["files"][seed]["dir"])
        ent = _WORK[key] = {"root": root, "dir": objdir, "dirty": None}
    return ent


def _damage(seed, tag, target, mut):
    """Write the mutant of the seed's target file in place; -> (dir, path of the damaged file, bytes)."""
    ent = _family_dir(seed, tag)
    files = _S["files"][seed]
    if ent["dirty"] is not None and ent["dirty"] != target:
        rel = files["targets"][ent["dirty"]]
        with open(os.path.join(ent["dir"], rel), "wb") as f:
            f.write(files["dir"][rel])
        ent["dirty"] = None
    if target is None or mut is None:
        if ent["dirty"] is not None:
            rel = files["targets"][ent["dirty"]]
            with open(os.path.join(ent["dir"], rel), "wb") as f:
                f.write(files["dir"][rel])
            ent["dirty"] = None
        return ent["dir"], None, None
    rel = files["targets"][target]
    data = mutant(files["dir"][rel], mut)
    p = os.path.join(ent["dir"], rel)
    # replace, do not overwrite: a mapping of the previous content may still exist somewhere
    tmp = p + ".new"
    with open(tmp, "wb") as f:
        f.write(data)
    os.replace(tmp, p)
    ent["dirty"] = target
    return ent["dir"], p, data


# dulwich verifies the hash of an object read by name in BaseObjectStore.__getitem__ only; get_raw(),
# Pack.get_raw() and ShaFile.from_path(path, sha) are *raw* reads that, like C git's packed-object
# reads, trust the name.  With STRICT_RAW_READS the harness holds those to clause (3) as well;
# by default a raw read that returns content of another name is recorded as an outcome class
# ("ok-but-wrong-content") and only the verifying API is held to the clause.
STRICT_RAW_READS = bool(os.environ.get("VERIF_C04_STRICT_RAW_READS"))


def _hash_rule(v, site, what, name, t, raw, record_only=False):
    h = harness_hash(t, raw)
    if h != name and record_only:
        return False
    if h != name:
        v.bad("yields-object-not-hashing-to-its-name", "%s returned type %d, %d bytes hashing to %s for the name %s" % (
            what, t, len(raw), h[:12].decode(), name[:12].decode()), site)
        return False
    return True


def _oc(v, site, res):
    v.cls("%s:%s" % (site, "ok" if res[0] == "ok" else "raises:" + exc_class(res[1])))


PAIR_OPS = ("names", "get_raw", "iterobjects", "check", "store")


def run_pair(seed, mut, variant):
    """Pack(...) on a damaged pack/idx pair.  variant = (target 'pack'|'idx'|None, ops or None)."""
    from dulwich.object_store import DiskObjectStore
    from dulwich.objects import hex_to_sha
    from dulwich.pack import Pack

    target, ops = variant
    files = _S["files"][seed]
    objdir, _, _ = _damage(seed, "objects", target, mut)
    base = os.path.join(objdir, files["base"])
    what0 = "%s%s" % (seed, "" if mut is None else " %s %r" % (target, tuple(mut)))
    v = Verdict("read:pack")
    dmg = "damaged-" + target if target else "crafted"
    crafted = seed.startswith("pair.atk:")  # the index names are the attacker's: nothing to hold them against
    for op in (ops or PAIR_OPS):
        site = "read:pack:" + op
        p = None
        try:
            if op == "names":
                def f():
                    pk = Pack(base, object_format=_OF)
                    try:
                        return (len(pk), sorted(pk), [hex_to_sha(n) in pk for n in files["names"]])
                    finally:
                        _close(pk)
                _oc(v, site, _call(v, site, f, "Pack(%s): len/iter/in" % what0))
            elif op == "get_raw":
                pk = Pack(base, object_format=_OF)
                try:
                    r = _call(v, site, lambda: sorted(pk), "iter(Pack(%s))" % what0)
                    listed = r[1] if r[0] == "ok" else []
                    names = list(files["names"]) + [n for n in listed if n not in files["names"]][:8]
                    refused = 0
                    for n in names:
                        r = _call(v, site, lambda: pk.get_raw(hex_to_sha(n)), "Pack(%s).get_raw(%s)" % (what0, n[:10].decode()))
                        refused += r[0] != "ok"
                        if r[0] == "ok":
                            good = _hash_rule(v, site + ":" + dmg, "Pack(%s).get_raw" % what0, n, r[1][0], r[1][1], crafted or not STRICT_RAW_READS)
                            v.cls("%s:%s" % (site, "ok" if good else "ok-but-wrong-content"))
                        else:
                            _oc(v, site, r)
                    if files.get("must_reject") and mut is None and not refused:
                        v.bad("accepted-entry-whose-" + files["must_reject"], "Pack(%s).get_raw returned every entry although one entry's %s" % (
                            what0, files["must_reject"].replace("-", " ")), site)
                finally:
                    _close(pk)
            elif op == "iterobjects":
                def f():
                    pk = Pack(base, object_format=_OF)
                    try:
                        return [(o.id, o.type_num, o.as_raw_string()) for o in pk.iterobjects()]
                    finally:
                        _close(pk)
                r = _call(v, site, f, "Pack(%s).iterobjects()" % what0)
                _oc(v, site, r)
                if r[0] == "ok" and files.get("must_reject") and mut is None:
                    v.bad("accepted-entry-whose-" + files["must_reject"], "Pack(%s).iterobjects() yielded every entry although one entry's %s" % (
                        what0, files["must_reject"].replace("-", " ")), site)
                if r[0] == "ok":
                    for i, t, raw in r[1]:
                        _hash_rule(v, site, "Pack(%s).iterobjects()" % what0, i, t, raw)
            elif op == "check":
                def f():
                    pk = Pack(base, object_format=_OF)
                    try:
                        pk.check()
                        return [(n, pk.get_raw(hex_to_sha(n))) for n in sorted(pk)]
                    finally:
                        _close(pk)
                r = _call(v, site, f, "Pack(%s).check()" % what0)
                _oc(v, site, r)
                if r[0] == "ok" and files.get("must_reject") and mut is None:
                    v.bad("accepted-entry-whose-" + files["must_reject"], "Pack(%s).check() passed although one entry's %s" % (
                        what0, files["must_reject"].replace("-", " ")), site)
                if r[0] == "ok":
                    for n, (t, raw) in r[1]:
                        _hash_rule(v, site, "Pack(%s).check() passed; get_raw" % what0, n, t, raw, crafted)
            elif op == "store":
                site = "read:store-packed"
                st = DiskObjectStore(objdir)
                try:
                    r = _call(v, site + ":iter", lambda: sorted(st), "sorted(DiskObjectStore) with %s" % what0)
                    _oc(v, site + ":iter", r)
                    for n in files["names"]:
                        r = _call(v, site + ":contains", lambda: n in st, "`id in store` with %s" % what0)
                        if r[0] == "exc":
                            _oc(v, site + ":contains", r)
                        r = _call(v, site + ":get_raw", lambda: st.get_raw(n), "DiskObjectStore.get_raw(%s) with %s" % (n[:10].decode(), what0))
                        if r[0] == "ok":
                            good = _hash_rule(v, site + ":get_raw:" + dmg, "DiskObjectStore.get_raw with %s" % what0, n, r[1][0], r[1][1], crafted or not STRICT_RAW_READS)
                            v.cls("%s:get_raw:%s" % (site, "ok" if good else "ok-but-wrong-content"))
                        else:
                            _oc(v, site + ":get_raw", r)

                        def gi():
                            o = st[n]
                            return (o.type_num, o.as_raw_string())
                        r = _call(v, site + ":getitem", gi, "DiskObjectStore[%s] with %s" % (n[:10].decode(), what0))
                        _oc(v, site + ":getitem", r)
                        if r[0] == "ok":
                            _hash_rule(v, site + ":getitem", "DiskObjectStore[name] with %s" % what0, n, r[1][0], r[1][1])
                finally:
                    _close(st)
            else:
                raise AssertionError(op)
        finally:
            p = None
    return v.result()


LOOSE_OPS = ("from_path", "store")


def run_loose(seed, mut, variant):
    from dulwich.object_store import DiskObjectStore
    from dulwich.objects import ShaFile

    target, ops = variant
    files = _S["files"][seed]
    objdir, _, _ = _damage(seed, "objects", target, mut)
    os.makedirs(os.path.join(objdir, "pack"), exist_ok=True)
    name = files["name"]
    path = os.path.join(objdir, loose_rel(name))
    what0 = "%s%s" % (seed, "" if mut is None else " %r" % (tuple(mut),))
    v = Verdict("read:loose")
    for op in (ops or LOOSE_OPS):
        if op == "from_path":
            site = "read:loose:ShaFile.from_path"

            def f():
                o = ShaFile.from_path(path, name)
                return (o.type_num, o.as_raw_string(), o.id)
            r = _call(v, site, f, "ShaFile.from_path(%s)" % what0)
            if r[0] == "ok":
                good = _hash_rule(v, site, "ShaFile.from_path(%s, sha)" % what0, name, r[1][0], r[1][1], not STRICT_RAW_READS)
                v.cls("%s:%s" % (site, "ok" if good else "ok-but-wrong-content"))
            else:
                _oc(v, site, r)

            def g():
                o = ShaFile.from_path(path, name)
                o.check()
                return (o.type_num, o.as_raw_string())
            r = _call(v, site + "+check", g, "ShaFile.from_path(%s).check()" % what0)
            _oc(v, site + "+check", r)
            if r[0] == "ok":
                _hash_rule(v, site + "+check", "ShaFile.from_path(%s, sha).check() passed; content" % what0, name, r[1][0], r[1][1])
        else:
            site = "read:store-loose"
            st = DiskObjectStore(objdir)
            try:
                r = _call(v, site + ":contains", lambda: name in st, "`id in store` with %s" % what0)
                if r[0] == "exc":
                    _oc(v, site + ":contains", r)
                r = _call(v, site + ":get_raw", lambda: st.get_raw(name), "DiskObjectStore.get_raw with %s" % what0)
                if r[0] == "ok":
                    good = _hash_rule(v, site + ":get_raw", "DiskObjectStore.get_raw with %s" % what0, name, r[1][0], r[1][1], not STRICT_RAW_READS)
                    v.cls("%s:get_raw:%s" % (site, "ok" if good else "ok-but-wrong-content"))
                else:
                    _oc(v, site + ":get_raw", r)

                def h():
                    o = st[name]
                    return (o.type_num, o.as_raw_string())
                r = _call(v, site + ":getitem", h, "DiskObjectStore[...] with %s" % what0)
                if r[0] == "ok":
                    _hash_rule(v, site + ":getitem", "DiskObjectStore[name] with %s" % what0, name, r[1][0], r[1][1])
                _oc(v, site + ":getitem", r)
            finally:
                _close(st)
    return v.result()


def run_index(seed, mut, variant):
    from dulwich.index import Index

    d, path, data = _damage(seed, "wt", "index", mut)
    if path is None:
        path = os.path.join(d, "index")
        data = _S["files"][seed]["dir"]["index"]
    site = "read:index:Index.read"
    v = Verdict(site)
    what = "Index(%s%s)" % (seed, "" if mut is None else " %r" % (tuple(mut),))

    def f():
        ix = Index(path)
        return [(k, bytes(e.sha) if hasattr(e, "sha") else None) for k, e in ix.items()]
    r = _call(v, site, f, what)
    _oc(v, site, r)
    if r[0] == "ok":
        if len(data) < 32 or (hashlib.sha1(data[:-20]).digest() != data[-20:] and data[-20:] != b"\x00" * 20):
            v.bad("accepted-file-whose-checksum-does-not-match", "%s was read without error although its trailer is not the SHA-1 of the content" % what)
    return v.result()


_HEX40 = re.compile(rb"[0-9a-fA-F]{40}")


def run_prefs(seed, mut, variant):
    from dulwich.refs import DiskRefsContainer

    d, path, data = _damage(seed, "repo", "packed-refs", mut)
    v = Verdict("read:packed-refs")
    what = "packed-refs%s" % ("" if mut is None else " %r" % (tuple(mut),))
    for op in ("get_packed_refs", "get_peeled", "as_dict"):
        site = "read:packed-refs:" + op

        def f():
            rc = DiskRefsContainer(d)
            if op == "get_packed_refs":
                return dict(rc.get_packed_refs())
            if op == "get_peeled":
                return {n: rc.get_peeled(n) for n in (b"refs/tags/v1", b"refs/heads/main", b"refs/heads/dev")}
            return rc.as_dict()
        r = _call(v, site, f, "DiskRefsContainer.%s with %s" % (op, what))
        _oc(v, site, r)
        if r[0] == "ok":
            for k, val in r[1].items():
                if val is None and op == "get_peeled":
                    continue
                if not isinstance(k, bytes) or not k or any(c in k for c in b" \n\x00") or not isinstance(val, bytes) or not _HEX40.fullmatch(val):
                    v.bad("yields-entry-that-is-not-name-and-object-id", "%s with %s yields %r -> %r" % (op, what, k, val), site)
                    break
    return v.result()


def run_cgraph(seed, mut, variant):
    from dulwich.commit_graph import read_commit_graph
    from dulwich.object_store import DiskObjectStore

    files = _S["files"][seed]
    objdir, path, data = _damage(seed, "objects", "commit-graph", mut)
    if path is None:
        path = os.path.join(objdir, "info", "commit-graph")
    v = Verdict("read:commit-graph")
    what = "%s%s" % (seed, "" if mut is None else " %r" % (tuple(mut),))

    def use(g):
        if g is None:
            return None
        out = [len(g)]
        for e in g:
            out.append((e.commit_id, e.tree_id, tuple(e.parents), e.generation, e.commit_time))
        for c in files["commits"]:
            out.append((g.get_parents(c), g.get_generation_number(c)))
        return out
    site = "read:commit-graph:read_commit_graph"
    r = _call(v, site, lambda: use(read_commit_graph(path)), "read_commit_graph(%s)" % what)
    _oc(v, site, r)
    site = "read:commit-graph:DiskObjectStore.get_commit_graph"

    def f():
        st = DiskObjectStore(objdir)
        try:
            return use(st.get_commit_graph())
        finally:
            _close(st)
    r = _call(v, site, f, "DiskObjectStore.get_commit_graph() with %s" % what)
    _oc(v, site, r)
    return v.result()


def run_midx(seed, mut, variant):
    from dulwich.midx import load_midx
    from dulwich.object_store import DiskObjectStore
    from dulwich.objects import hex_to_sha

    files = _S["files"][seed]
    objdir, path, data = _damage(seed, "objects", "midx", mut)
    if path is None:
        path = os.path.join(objdir, "pack", "multi-pack-index")
    v = Verdict("read:midx")
    what = "%s%s" % (seed, "" if mut is None else " %r" % (tuple(mut),))
    site = "read:midx:load_midx"

    def f():
        m = load_midx(path)
        try:
            out = [len(m), list(m.pack_names)]
            out.append([m.object_offset(hex_to_sha(n)) for n in files["names"]])
            k = 0
            for e in m.iterentries():
                k += 1
                if k > 4096:
                    break
            out.append(k)
            return out
        finally:
            _close(m)
    r = _call(v, site, f, "load_midx(%s)" % what)
    _oc(v, site, r)
    site = "read:midx:DiskObjectStore"
    st = None
    try:
        st = DiskObjectStore(objdir)
        for n in files["names"]:
            r = _call(v, site + ":contains", lambda: n in st, "`id in store` with %s" % what)
            if r[0] == "exc":
                _oc(v, site + ":contains", r)
            r = _call(v, site + ":get_raw", lambda: st.get_raw(n), "DiskObjectStore.get_raw(%s) with %s" % (n[:10].decode(), what))
            if r[0] == "ok":
                good = _hash_rule(v, site + ":get_raw", "DiskObjectStore.get_raw with %s" % what, n, r[1][0], r[1][1], not STRICT_RAW_READS)
                v.cls("%s:get_raw:%s" % (site, "ok" if good else "ok-but-wrong-content"))
            else:
                _oc(v, site + ":get_raw", r)

            def gi():
                o = st[n]
                return (o.type_num, o.as_raw_string())
            r = _call(v, site + ":getitem", gi, "DiskObjectStore[%s] with %s" % (n[:10].decode(), what))
            _oc(v, site + ":getitem", r)
            if r[0] == "ok":
                _hash_rule(v, site + ":getitem", "DiskObjectStore[name] with %s" % what, n, r[1][0], r[1][1])
    finally:
        if st is not None:
            try:
                st.close()
            except BaseException:  # noqa: B036
                pass
    return v.result()


def run_bitmap(seed, mut, variant):
    from dulwich.bitmap import read_bitmap
    from dulwich.pack import Pack

    files = _S["files"][seed]
    objdir, path, data = _damage(seed, "objects", "bitmap", mut)
    base = os.path.join(objdir, files["base"])
    if path is None:
        path = base + ".bitmap"
    v = Verdict("read:bitmap")
    what = "%s%s" % (seed, "" if mut is None else " %r" % (tuple(mut),))

    def use(bm):
        if bm is None:
            return None
        out = [len(bm.entries)]
        for attr in ("commit_bitmap", "tree_bitmap", "blob_bitmap", "tag_bitmap"):
            out.append(len(getattr(bm, attr)))
        for sha in list(bm.iter_commits()):
            b = bm.get_bitmap(sha)
            out.append(None if b is None else len(b))
        return out
    site = "read:bitmap:read_bitmap"

    def f():
        pk = Pack(base, object_format=_OF)
        try:
            return use(read_bitmap(path, pack_index=pk.index))
        finally:
            _close(pk)
    r = _call(v, site, f, "read_bitmap(%s)" % what)
    _oc(v, site, r)
    site = "read:bitmap:Pack.bitmap"

    def g():
        pk = Pack(base, object_format=_OF)
        try:
            return use(pk.bitmap)
        finally:
            _close(pk)
    r = _call(v, site, g, "Pack.bitmap with %s" % what)
    _oc(v, site, r)
    return v.result()


_NCASE = 0
RUNNERS = {"ingest": run_ingest, "stream": run_stream, "pair": run_pair, "loose": run_loose, "index": run_index,
           "prefs": run_prefs, "cgraph": run_cgraph, "midx": run_midx, "bitmap": run_bitmap}


def sb_case(case):
    family, seed, mut, variant = case
    import gc

    global _NCASE
    _NCASE += 1
    try:
        return RUNNERS[family](seed, mut, tuple(variant) if variant is not None else None)
    finally:
        if _NCASE % 64 == 0:
            gc.collect()  # reference cycles holding mappings of damaged files must not pile up in a long-lived worker


def sb_case_timed(case):
    import time

    t = time.process_time()
    classes, viol = sb_case(case)
    return (classes, viol, time.process_time() - t)


def site_of(case):
    """Stable site name of a case for observations made by the parent (kill / timeout / memory)."""
    family, seed, mut, variant = case
    if family == "ingest":
        return "ingest:%s.%s" % (variant[0], variant[1])
    if family == "stream":
        return "stream:" + variant[0]
    if family == "pair":
        ops = variant[1]
        if ops and len(ops) == 1:
            return "read:store-packed" if ops[0] == "store" else "read:pack:" + ops[0]
        return "read:pack"
    if family == "loose":
        ops = variant[1]
        if ops and len(ops) == 1:
            return "read:store-loose" if ops[0] == "store" else "read:loose:ShaFile.from_path"
        return "read:loose"
    return {"index": "read:index:Index.read", "prefs": "read:packed-refs", "cgraph": "read:commit-graph", "midx": "read:midx",
            "bitmap": "read:bitmap"}[family]
