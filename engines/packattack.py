"""Crafting of valid and hostile git pack streams and pack index files (no dulwich imports).

Written from Documentation/gitformat-pack.txt.  Unlike refmodels/minipack.py every field of an
entry can be forged independently (declared size, object type, base reference, deflate stream,
object count, trailer), which is what the grammar-aware attacks of C04 need.

    b = Builder()
    o1 = b.full(BLOB, b"data")                      # -> offset of the entry
    o2 = b.ofs_to(o1, delta)                        # OFS delta whose base is the entry at o1
    o3 = b.ref(base_id, delta)                      # REF delta
    b.raw(type_num, declared_size, base_bytes, zbytes)   # anything at all
    pack = b.finish(count=None, trailer=None)       # count / trailer can be forged
    b.spans                                          # [(start, end, label)] of header / entries / trailer

    idx_v1(entries, pack_checksum) / idx_v2(entries, pack_checksum)   entries = [(raw id, offset, crc32)]
"""

from __future__ import annotations

import binascii
import hashlib
import struct
import zlib

COMMIT, TREE, BLOB, TAG = 1, 2, 3, 4
OFS_DELTA, REF_DELTA = 6, 7
TYPE_NAMES = {COMMIT: b"commit", TREE: b"tree", BLOB: b"blob", TAG: b"tag"}


def obj_id(type_num: int, data: bytes) -> bytes:
    """Raw 20-byte object name."""
    return hashlib.sha1(TYPE_NAMES[type_num] + b" %d\x00" % len(data) + data).digest()


def obj_hex(type_num: int, data: bytes) -> bytes:
    return binascii.hexlify(obj_id(type_num, data))


def entry_header(type_num: int, size: int) -> bytes:
    c = ((type_num & 7) << 4) | (size & 0x0F)
    size >>= 4
    out = bytearray()
    while size:
        out.append(c | 0x80)
        c = size & 0x7F
        size >>= 7
    out.append(c)
    return bytes(out)


def ofs_encode(distance: int) -> bytes:
    """git's "offset encoding" of a (non-negative) distance; 0 encodes as a single NUL."""
    buf = [distance & 0x7F]
    distance >>= 7
    while distance:
        distance -= 1
        buf.insert(0, 0x80 | (distance & 0x7F))
        distance >>= 7
    return bytes(buf)


def size_varint(n: int) -> bytes:
    out = bytearray()
    while True:
        c = n & 0x7F
        n >>= 7
        if n:
            out.append(c | 0x80)
        else:
            out.append(c)
            return bytes(out)


def delta_insert(data: bytes) -> bytes:
    out = bytearray()
    for i in range(0, len(data), 127):
        part = data[i:i + 127]
        out.append(len(part))
        out += part
    return bytes(out)


def delta_copy(off: int, n: int) -> bytes:
    """One copy instruction (n in 1..0xffffff, n != 0x10000 special-cased by never using it)."""
    cmd = 0x80
    args = bytearray()
    for i in range(4):
        b = (off >> (8 * i)) & 0xFF
        if b:
            cmd |= 1 << i
            args.append(b)
    for i in range(3):
        b = (n >> (8 * i)) & 0xFF
        if b:
            cmd |= 0x10 << i
            args.append(b)
    return bytes([cmd]) + bytes(args)


def make_delta(base: bytes, target: bytes) -> bytes:
    """A valid delta: longest common prefix as one copy, the rest inserted literally."""
    n = 0
    while n < len(base) and n < len(target) and base[n] == target[n] and n < 0xFFFF:
        n += 1
    body = (delta_copy(0, n) if n else b"") + delta_insert(target[n:])
    return size_varint(len(base)) + size_varint(len(target)) + body


def apply_delta(base: bytes, delta: bytes) -> bytes:
    """Boring reference decoder (only used to sanity-check the seeds)."""
    pos = 0

    def varint():
        nonlocal pos
        v = shift = 0
        while True:
            c = delta[pos]
            pos += 1
            v |= (c & 0x7F) << shift
            shift += 7
            if not c & 0x80:
                return v

    if varint() != len(base):
        raise ValueError("base size")
    want = varint()
    out = bytearray()
    while pos < len(delta):
        c = delta[pos]
        pos += 1
        if c & 0x80:
            off = n = 0
            for i in range(4):
                if c & (1 << i):
                    off |= delta[pos] << (8 * i)
                    pos += 1
            for i in range(3):
                if c & (0x10 << i):
                    n |= delta[pos] << (8 * i)
                    pos += 1
            n = n or 0x10000
            if off + n > len(base):
                raise ValueError("copy beyond base")
            out += base[off:off + n]
        elif c:
            out += delta[pos:pos + c]
            pos += c
        else:
            raise ValueError("opcode 0")
    if len(out) != want:
        raise ValueError("result size")
    return bytes(out)


def deflate(data: bytes, level: int = 6) -> bytes:
    return zlib.compress(data, level)


def deflate_stored(data: bytes) -> bytes:
    """zlib stream made of stored (uncompressed) blocks: damage in it is only caught by adler32."""
    c = zlib.compressobj(0)
    return c.compress(data) + c.flush()


class Builder:
    def __init__(self, version: int = 2):
        self.version = version
        self.parts = []
        self.pos = 12
        self.spans = [(0, 4, "magic"), (4, 8, "version"), (8, 12, "count")]
        self.offsets = []
        self.n = 0

    def raw(self, type_num, declared_size, base_bytes, zbytes, label=None) -> int:
        off = self.pos
        hdr = entry_header(type_num, declared_size)
        k = self.n
        label = label or "e%d" % k
        self.spans.append((off, off + len(hdr), label + ":header"))
        p = off + len(hdr)
        if base_bytes:
            self.spans.append((p, p + len(base_bytes), label + ":base"))
            p += len(base_bytes)
        self.spans.append((p, p + len(zbytes), label + ":zlib"))
        data = hdr + base_bytes + zbytes
        self.parts.append(data)
        self.pos += len(data)
        self.offsets.append(off)
        self.n += 1
        return off

    def full(self, type_num, data, declared=None, z=None, label=None) -> int:
        return self.raw(type_num, len(data) if declared is None else declared, b"", deflate(data) if z is None else z, label)

    def ofs(self, distance, delta, declared=None, z=None, label=None) -> int:
        enc = distance if isinstance(distance, bytes) else ofs_encode(distance)
        return self.raw(OFS_DELTA, len(delta) if declared is None else declared, enc, deflate(delta) if z is None else z, label)

    def ofs_to(self, base_offset, delta, label=None) -> int:
        return self.ofs(self.pos - base_offset, delta, label=label)

    def ref(self, base_id, delta, declared=None, z=None, label=None) -> int:
        return self.raw(REF_DELTA, len(delta) if declared is None else declared, base_id, deflate(delta) if z is None else z, label)

    def body(self) -> bytes:
        return b"".join(self.parts)

    def finish(self, count=None, trailer=None, magic=b"PACK") -> bytes:
        data = magic + struct.pack(">LL", self.version, self.n if count is None else count) + self.body()
        t = hashlib.sha1(data).digest() if trailer is None else trailer
        self.spans.append((len(data), len(data) + len(t), "trailer"))
        return data + t

    def crc32s(self):
        body = self.body()
        ends = self.offsets[1:] + [self.pos]
        return [binascii.crc32(body[o - 12:e - 12]) & 0xFFFFFFFF for o, e in zip(self.offsets, ends)]


def boundaries(spans):
    """Object boundaries (start of every entry + start of the trailer) for splices."""
    return sorted({s for s, _, lab in spans if lab.endswith(":header") or lab == "trailer"})


def _fanout(names):
    counts = [0] * 256
    for n in names:
        counts[n[0]] += 1
    out = []
    total = 0
    for c in counts:
        total += c
        out.append(total)
    return b"".join(struct.pack(">L", x) for x in out)


def idx_v1(entries, pack_checksum: bytes) -> bytes:
    entries = sorted(entries)
    data = _fanout([e[0] for e in entries])
    for name, off, _ in entries:
        data += struct.pack(">L", off) + name
    data += pack_checksum
    return data + hashlib.sha1(data).digest()


def idx_v2(entries, pack_checksum: bytes) -> bytes:
    entries = sorted(entries)
    data = b"\xfftOc" + struct.pack(">L", 2) + _fanout([e[0] for e in entries])
    data += b"".join(e[0] for e in entries)
    data += b"".join(struct.pack(">L", (e[2] or 0) & 0xFFFFFFFF) for e in entries)
    data += b"".join(struct.pack(">L", e[1]) for e in entries)
    data += pack_checksum
    return data + hashlib.sha1(data).digest()


def idx_spans(version: int, n: int):
    """[(start, end, label)] of an idx v1 / v2 / (dulwich) v3 with n entries and no 64-bit offsets."""
    if version == 1:
        p = 1024
        return [(0, p, "fanout"), (p, p + 24 * n, "entries"), (p + 24 * n, p + 24 * n + 20, "pack-checksum"),
                (p + 24 * n + 20, p + 24 * n + 40, "idx-checksum")]
    h = 8 if version == 2 else 16
    p = h + 1024
    return [(0, h, "header"), (h, p, "fanout"), (p, p + 20 * n, "names"), (p + 20 * n, p + 24 * n, "crc32"),
            (p + 24 * n, p + 28 * n, "offsets"), (p + 28 * n, p + 28 * n + 20, "pack-checksum"),
            (p + 28 * n + 20, p + 28 * n + 40, "idx-checksum")]


# --------------------------------------------------------------------------- reference re-reader
# (used to hold an *installed* pack to the statement with a reader that is not dulwich's)


def parse_idx(data: bytes):
    """[(raw name, offset)] of an idx v1 / v2 / dulwich-v3 with 20-byte names; raises ValueError."""
    if data[:4] == b"\xfftOc":
        (version,) = struct.unpack(">L", data[4:8])
        h = {2: 8, 3: 16}.get(version)
        if h is None:
            raise ValueError("idx version %d" % version)
        n = struct.unpack(">L", data[h + 1020:h + 1024])[0]
        names = h + 1024
        offs = names + 24 * n
        if offs + 4 * n + 40 > len(data):
            raise ValueError("idx too short for %d entries" % n)
        out = []
        for i in range(n):
            (o,) = struct.unpack(">L", data[offs + 4 * i:offs + 4 * i + 4])
            if o & 0x80000000:
                (o,) = struct.unpack(">Q", data[offs + 4 * n + 8 * (o & 0x7FFFFFFF):offs + 4 * n + 8 * (o & 0x7FFFFFFF) + 8])
            out.append((data[names + 20 * i:names + 20 * i + 20], o))
        return out
    n = struct.unpack(">L", data[1020:1024])[0]
    if 1024 + 24 * n + 40 > len(data):
        raise ValueError("idx v1 too short for %d entries" % n)
    return [(data[1024 + 24 * i + 4:1024 + 24 * i + 24], struct.unpack(">L", data[1024 + 24 * i:1024 + 24 * i + 4])[0]) for i in range(n)]


def read_entry(pack: bytes, offset: int, limit: int = 64 << 20):
    """One pack entry, read the way gitformat-pack says -> dict(type, declared, base, data, problem).
    problem: None | short stable text.  Inflation is bounded by `limit`."""
    pos = offset
    end = len(pack) - 20
    if not 12 <= pos < end:
        return {"problem": "offset-outside-the-pack"}
    c = pack[pos]
    pos += 1
    t = (c >> 4) & 7
    size = c & 15
    shift = 4
    while c & 0x80:
        if pos >= end:
            return {"problem": "header-runs-off-the-pack"}
        c = pack[pos]
        pos += 1
        size |= (c & 0x7F) << shift
        shift += 7
    base = None
    if t == OFS_DELTA:
        if pos >= end:
            return {"problem": "header-runs-off-the-pack"}
        c = pack[pos]
        pos += 1
        d = c & 0x7F
        while c & 0x80:
            if pos >= end:
                return {"problem": "header-runs-off-the-pack"}
            c = pack[pos]
            pos += 1
            d = ((d + 1) << 7) | (c & 0x7F)
        base = ("ofs", offset - d)
    elif t == REF_DELTA:
        base = ("ref", pack[pos:pos + 20])
        pos += 20
    elif t not in TYPE_NAMES:
        return {"problem": "type-%d" % t}
    z = zlib.decompressobj()
    try:
        data = z.decompress(pack[pos:end], limit)
    except zlib.error:
        return {"problem": "zlib-error"}
    if not z.eof:
        return {"problem": "zlib-stream-incomplete-or-larger-than-%d-MiB" % (limit >> 20)}
    out = {"type": t, "declared": size, "base": base, "data": data, "problem": None}
    if len(data) != size:
        out["problem"] = "size-header-disagrees-with-payload"
    return out


def resolve_all(pack: bytes, idx_entries, external=None):
    """Re-read every indexed entry of a pack independently of dulwich.
    -> [(hex name, problem or None)].  external: {raw name: (type, data)} for bases outside the pack."""
    by_off = {o: n for n, o in idx_entries}
    by_name = {n: o for n, o in idx_entries}
    memo = {}

    def content(off, depth=0):
        if off in memo:
            return memo[off]
        if depth > 64:
            return (None, None, "delta-chain-too-deep-or-cyclic")
        e = read_entry(pack, off)
        if e["problem"]:
            r = (None, None, e["problem"])
        elif e["base"] is None:
            r = (e["type"], e["data"], None)
        else:
            kind, ref = e["base"]
            if kind == "ofs":
                b = content(ref, depth + 1) if ref in by_off else (None, None, "ofs-base-is-not-an-indexed-entry")
            elif ref in by_name:
                b = content(by_name[ref], depth + 1)
            elif external and ref in external:
                b = external[ref] + (None,)
            else:
                b = (None, None, "ref-base-not-in-the-pack")
            if b[2]:
                r = (None, None, b[2])
            else:
                try:
                    r = (b[0], apply_delta(b[1], e["data"]), None)
                except (ValueError, IndexError):
                    r = (None, None, "delta-does-not-apply")
        memo[off] = r
        return r

    out = []
    for name, off in idx_entries:
        t, data, problem = content(off)
        if problem is None and obj_id(t, data) != name:
            problem = "content-does-not-hash-to-the-indexed-name"
        out.append((binascii.hexlify(name), problem))
    return out
