#!/bin/sh
# usage: confirm_mutant.sh <dir with patch.diff demo.py meta.json> <seed-id e.g. C19-1>
# Confirms in a scratch worktree: demo passes unmodified, fails modified, baseline suite still green with the patch.
src=$1; sid=$2
wt=/dev/shm/cm-$$
git -C /repo worktree add --detach $wt HEAD >/dev/null 2>&1 || exit 3
cp /repo/dulwich/*.so $wt/dulwich/ 2>/dev/null
cd $wt
PYTHONPATH=$wt /venv/bin/python $src/demo.py >/dev/shm/cm-$$.clean 2>&1; clean=$?
if ! git apply $src/patch.diff; then echo "$sid: PATCH DOES NOT APPLY"; cd /; git -C /repo worktree remove --force $wt; exit 3; fi
if git diff --name-only | grep -q '^crates/'; then
  CARGO_TARGET_DIR=/dev/shm/cm-cargo cargo build --offline --quiet 2>/dev/null
  cp /dev/shm/cm-cargo/debug/libpack_py.so dulwich/_pack.cpython-312-x86_64-linux-gnu.so
  cp /dev/shm/cm-cargo/debug/libobjects_py.so dulwich/_objects.cpython-312-x86_64-linux-gnu.so
  cp /dev/shm/cm-cargo/debug/libdiff_tree_py.so dulwich/_diff_tree.cpython-312-x86_64-linux-gnu.so
fi
PYTHONPATH=$wt /venv/bin/python $src/demo.py >/dev/shm/cm-$$.mod 2>&1; mod=$?
base=$(/verif/tools/baseline_cmp.py $wt | grep stable_pass)
cd /
git -C /repo worktree remove --force $wt
echo "$sid: demo_clean_exit=$clean demo_modified_exit=$mod baseline: $base"
ok=0
case "$base" in *"missing=0"*) ;; *) ok=1;; esac
[ $clean -eq 0 ] || ok=1
[ $mod -ne 0 ] || ok=1
if [ $ok -eq 0 ]; then
  mkdir -p /verif/seeded/$sid
  cp $src/patch.diff $src/demo.py /verif/seeded/$sid/
  /venv/bin/python - "$src/meta.json" "/verif/seeded/$sid/meta.json" "$clean" "$mod" "$base" <<'PY'
import json,sys
try: m=json.load(open(sys.argv[1]))
except Exception: m={}
m["confirmed_by_coordinator"]={"demo_unmodified_exit":int(sys.argv[3]),"demo_modified_exit":int(sys.argv[4]),"baseline":sys.argv[5],
  "how":"tools/confirm_mutant.sh: scratch worktree of /repo HEAD; demo run before/after git apply; tools/baseline_cmp.py on the patched tree"}
json.dump(m,open(sys.argv[2],"w"),indent=1)
PY
  echo "$sid: CONFIRMED -> /verif/seeded/$sid"
else
  echo "$sid: NOT CONFIRMED"; tail -3 /dev/shm/cm-$$.clean /dev/shm/cm-$$.mod
fi
rm -f /dev/shm/cm-$$.clean /dev/shm/cm-$$.mod
