#!/bin/sh
# usage: try_mutant.sh <patch.diff> <Cnn> [tier]   -- run a check against a scratch worktree with the patch applied
# (never touches /repo's working tree; evidence/replays of the mutant run go to /dev/shm)
patch=$1; id=$2; tier=${3:-quick}
wt=/dev/shm/mw-$$
git -C /repo worktree add --detach $wt HEAD >/dev/null 2>&1 || exit 3
cp /repo/dulwich/*.so $wt/dulwich/ 2>/dev/null
if ! git -C $wt apply "$patch"; then echo "PATCH DOES NOT APPLY"; git -C /repo worktree remove --force $wt; exit 3; fi
cd /verif
VERIF_REPO=$wt VERIF_CARGO_TARGET=/dev/shm/mw-cargo VERIF_EVIDENCE_DIR=/dev/shm/mw-ev-$$ VERIF_REPLAY_DIR=/dev/shm/mw-rp-$$ ./check $id --tier $tier 2>&1 | grep -E "VIOLATION|KNOWN|HARNESS|tier=" | cut -c1-400
rc=$?
git -C /repo worktree remove --force $wt
rm -rf /dev/shm/mw-ev-$$ /dev/shm/mw-rp-$$
