#!/bin/sh
# Determinism self-test: every registered quick check must give the same verdict and the same counts for several seeds.
cd /verif
props=${*:-$(/venv/bin/python -c "import json;print(' '.join(c['property_id'] for c in json.load(open('MANIFEST.json'))['checks']))")}
rc=0
for p in $props; do
  ref=""
  for s in 0 1 2; do
    out=$(VERIF_SEED=$s VERIF_EVIDENCE_DIR=/dev/shm/seedtest-ev VERIF_REPLAY_DIR=/dev/shm/seedtest-rp ./check $p --tier quick 2>&1)
    code=$?
    sig=$(/venv/bin/python - "$p" <<'PY'
import json,sys
e=json.load(open('/dev/shm/seedtest-ev/%s.json'%sys.argv[1]))
c=e['coverage']
print(c.get('evaluations'),c.get('states'),c.get('transitions'),c.get('distinct_nontrivial'),e.get('violations'),sorted(c.get('counters',{}).items()))
PY
)
    viol=$(echo "$out" | grep -c "^VIOLATION")
    line="exit=$code violations=$viol $sig"
    if [ -z "$ref" ]; then ref="$line"; elif [ "$ref" != "$line" ]; then echo "SEED-DIFF $p seed=$s"; echo "  ref: $ref" | cut -c1-400; echo "  got: $line" | cut -c1-400; rc=1; fi
  done
  echo "$p: $(echo $ref | cut -c1-160)"
done
rm -rf /dev/shm/seedtest-ev /dev/shm/seedtest-rp
exit $rc
