SOURCE_COMMITS = []
NOTES = ("Every check enumerates a declared finite space completely against the real dulwich code in /repo's working "
         "tree (see DESIGN.md). Genuine defects found are either repaired by fix: commits in /repo or listed in "
         "known_findings.json.")
ENGINES = [
    {"name": "E4 enum", "path": "engines/enumerate.py", "serves_properties": ["C19"],
     "kind_free_text": "bounded-exhaustive input/chunking enumeration with reference-model and C-git oracles"},
]
NA_REASONS = {}
CHECKS = {
    "C19": dict(
        engine="E4 enum", category="exploration",
        technique="bounded-exhaustive enumeration of frame sequences x all read chunkings, all 65536 length prefixes; reference codec oracle",
        text=("Every frame sequence up to the bound is encoded by dulwich and decoded under every partition of the byte "
              "stream into reads by each decoder; every 4-hex-digit prefix and every 4-byte prefix over a hostile alphabet "
              "is fed to every decoder; encoders are driven across the 65516/65520 size limits. The space is finite and "
              "visited completely, so absence of a violation is a fact about the code within the bound."),
        note="Trusted: the 60-line reference codec (refmodels/pktline.py), CPython BytesIO. Bounds: <=3(4) frames, stream partitions exhaustive to 13(16) bytes and <=3(4) cuts above.",
    ),
}
