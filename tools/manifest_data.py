SOURCE_COMMITS = []
NOTES = ("Every check enumerates a declared finite space completely against the real dulwich code in /repo's working "
         "tree (see DESIGN.md). Genuine defects found are either repaired by fix: commits in /repo or listed in "
         "known_findings.json.")
ENGINES = [
    {"name": "E1 sysched", "path": "engines/sysched.py", "serves_properties": ["C06", "C07", "C08", "C10"],
     "kind_free_text": "stateless explorer of all interleavings of 2-3 actors at system-call granularity (fsint.py interposition), iterative preemption bounding, replay-before-report"},
    {"name": "E2 crashfs", "path": "engines/crashfs.py", "serves_properties": ["C07", "C09", "C04"],
     "kind_free_text": "enumeration of every crash point / fault point of an operation over the interposed file system"},
    {"name": "E3 statespace", "path": "engines/statespace.py", "serves_properties": ["C06", "C10", "C14", "C16", "C17", "C18"],
     "kind_free_text": "explicit-state BFS over operation sequences on real repositories with canonical directory snapshots"},
    {"name": "E4 enum", "path": "engines/enumerate.py", "serves_properties": ["C01", "C02", "C03", "C05", "C11", "C12", "C13", "C15", "C19", "C20"],
     "kind_free_text": "bounded-exhaustive input/chunking enumeration with reference-model and C-git oracles"},
    {"name": "E5 mutfault", "path": "engines/mutfault.py", "serves_properties": ["C04", "C11", "C14"],
     "kind_free_text": "every truncation / bit flip / byte substitution of small artefacts"},
    {"name": "E6 sandbox", "path": "engines/sandbox.py", "serves_properties": ["C03", "C04", "C15"],
     "kind_free_text": "rlimit-ed long-lived child processes observing aborts, hangs and memory blow-ups per input"},
]
NA_REASONS = {}
CHECKS = {
    "C01": dict(
        engine="E4 enum", category="exploration",
        technique="grammar-directed exhaustive enumeration of git objects and BFS over setter/observer histories; independent reference serialiser + C git (hash-object, cat-file, mktree, commit-tree, mktag, fsck --strict) as oracles",
        text=("Every tree of <=3 (thorough <=4) entries over collision-engineered names x modes, commits/tags over the product of interacting header factors (parents, identities, times, 12 zone spellings incl. -0000, "
              "encoding, multi-line extra headers, mergetags, PGP/SSH signatures, 6 message shapes), blobs under every chunking, for SHA-1 and SHA-256 and for the Rust and Python tree code; every sequence of <=3-4 (thorough 4-5) "
              "setter-or-observer calls on live objects compared with a fresh object built from the same values."),
        note="Trusted: engines/refmodels/gitobjects.py (any disagreement with C git is a harness error), git 2.39.5. Extra headers in non-git order and zones with minutes >= 60 are outside the canonical grammar (informational classes).",
    ),
    "C02": dict(
        engine="E4 enum", category="exploration",
        technique="bounded-exhaustive enumeration of object selections x write configurations x index versions x hash algorithms; independent pack/idx parser and C git (index-pack --strict, verify-pack, show-index, pack-objects) as oracles",
        text=("Every ordered selection of <=3 (thorough <=4) objects from pools engineered around the size-varint, OFS-distance and 64 KiB copy boundaries x 25 (40) write configurations over four write paths x idx v1/v2/v3 x SHA-1/SHA-256; "
              "index-only cases at the 2^31/2^32 offset boundaries and fan-out corners; every delta forest on <=3 (4) versions built by the reference writer; packs from git pack-objects (depth to 50, thin, 64-bit idx). "
              "Round trip by random access and iteration, recomputed trailers/CRCs/fan-out/large-offset table, git acceptance of every distinct dulwich-written pack."),
        note="Trusted: engines/refmodels/packfile.py (validated against git verify-pack/show-index/index-pack), git 2.39.5; a vacuity guard requires every boundary shape to have occurred.",
    ),
    "C03": dict(
        engine="E4 enum + E6 sandbox", category="exploration",
        technique="bounded-exhaustive enumeration of (base,target) pairs and of all byte strings as deltas, every encoder x decoder pairing (Python, Rust, C git), observed in rlimit-ed child processes",
        text=("All (base,target) over {a,b,NUL}^<=4 (thorough <=6) plus boundary families through every encoder/decoder pairing; all strings of length <=5 (thorough <=6) over a 12-symbol "
              "opcode-covering alphabet x 3 bases plus structured mutations (varints of 1..11 bytes, declared sizes to 2^70, all 128 copy opcodes) as hostile deltas: result is the declared-size "
              "output made of base slices and inserts, or ApplyDeltaError; never a signal, panic, timeout or memory growth out of proportion."),
        note="Trusted: engines/refmodels/delta.py (git's patch-delta semantics), the sandbox attribution protocol (index published before each call), git 2.39.5. Rust crates rebuilt from the working tree.",
    ),
    "C04": dict(
        engine="E5 mutfault + E6 sandbox + E2 faults", category="fault_enumeration",
        technique="exhaustive single-fault mutation (every truncation, bit flip, byte substitution) and grammar-aware attacks of small artefacts through every ingestion/reading path in rlimit-ed workers; fault injection at every interposed call of an ingestion",
        text=("All single-fault mutants and ~70 grammar-aware attack streams (counts, trailers, OFS/REF base redirections incl. cycles, zlib garbage, bombs) of packs, pack+idx pairs, loose objects, index, packed-refs, commit-graph, midx and bitmap files "
              "through add_pack, add_thin_pack, add_pack_data, PackStreamReader/Copier (every 2-chunk split), receive-pack and the readers, on disk and memory stores, Rust and pure-Python builds: terminates within the watchdog and memory bound, ordinary error or "
              "self-consistent data, and a failed ingestion leaves the store observably unchanged (live and reopened). An OSError at each of ~150 interposed calls of 7 ingestion scenarios must leave no trace either."),
        note="Trusted: the sandbox attribution protocol, engines/packattack.py (no dulwich imports). Raw by-name reads that are not verified by dulwich are recorded as outcome classes, not violations (VERIF_C04_STRICT_RAW_READS=1 turns them on).",
    ),
    "C05": dict(
        engine="E4 enum", category="exploration",
        technique="exhaustive enumeration of commit DAGs x receiver downsets x want sets x transports x capability rows; recorded object graph as closure oracle; wire capture indexed by an independent pack parser",
        text=("All DAGs with n<=3 (thorough n<=5) commits with tree assignments engineered for sharing and 6 tag decorations; every ancestor-closed subset as the receiver's state (under refs/heads or refs/remotes, optionally shallow or diverged), every non-empty want subset, hostile wants; "
              "fetch/clone/push in-process, over dulwich TCP and WSGI servers, against C git upload-pack/receive-pack (v0 and v2) and with C git clients, capability rows varied where the code allows, depth None/1/2, two enumerated network timings. "
              "Completeness, byte identity, containment of the captured pack in closure(wants) and in closure(advertised refs), shallow frontier; thorough: git fsck --connectivity-only."),
        note="Trusted: the object graph recorded while histories are built (no store queries in the oracle), engines/refmodels/packfile.py, git 2.39.5; a failed or rejected transfer is an outcome class, not a violation.",
    ),
    "C06": dict(
        engine="E3 statespace + E1 sysched", category="model_checking",
        technique="exhaustive enumeration of server states x command lists x capabilities through the real receive-pack handler against a 30-line reference semantics; syscall-level interleavings of two racing pushers",
        text=("All 9 server ref states x all lists of <=2 (thorough <=3) commands over 3 refs x old {0,c1,c2} x new {0,c1,c2,missing,in-pack} x atomic on/off through ReceivePackHandler.handle() fed real "
              "pkt-lines (disk, memory, packed refs, side-band, no delete-refs) and through LocalGitClient.send_pack; reported ok <=> applied, stale old values untouched and rejected, every ref target in the store, "
              "atomic all-or-none. Two racing handlers explored with <=2-3 preemptions: reports and final refs must be explained by an order of the pushes (atomic) / of the commands (plain)."),
        round2='Round 2: in-process local pushers racing to create one ref; two receive-pack requests served by threads on ONE MemoryRepo explored at source-line granularity inside the ref container; ref names the server must refuse (check-ref-format) or cannot store (file/directory conflict), alone and next to good commands.',
        note="Trusted: the reference semantics in props/C06.py; under contention a rejection may be spurious (ng with no effect) but ok must be truthful.",
    ),
    "C07": dict(
        engine="E1 sysched + E2 crashfs", category="model_checking",
        technique="stateless exploration of all syscall-level interleavings up to a preemption bound on the real GitFile code; exhaustive fault-site enumeration",
        text=("Every interleaving (<=3 preemptions quick, <=5 thorough for 2 actors; 3 actors <=2/3) of real GitFile open/write/close|abort programs "
              "and of 15 pairs / 3 triples of real dulwich writers on one repository is executed with lock-ownership, non-interference and "
              "whole-file-replacement invariants evaluated between every two system calls (afterwards every protected file must load in a fresh reader); every system call inside 22 lock-protocol "
              "writers (incl. index writes whose checksum trailer straddles the write buffer, core.sharedRepository chmods, locked_index) is made to fail with ENOSPC/EIO/EPERM/KeyboardInterrupt (thorough: two faults): "
              "old-or-new content, a failed write leaves the old content, no lock left when the error reaches the caller. A TLA+ model of the lock protocol (649 states) is checked by TLC and every one of its 1635 transitions is replayed on the real _GitFile. "
              "Absence of a violation is exhaustive within these bounds."),
        note="Trusted: the interposition layer (completeness cross-checked by an audit hook), tmpfs semantics, atomic sequentially consistent syscalls; fd-level I/O on private lock files is not a scheduling point.",
    ),
    "C08": dict(
        engine="E1 sysched", category="model_checking",
        technique="stateless exploration of syscall-level interleavings (preemption-bounded) + brute-force linearizability against a dict model",
        text=("2-3 actors with private DiskRefsContainer/Repo objects run 1-2 operations from a 12-operation alphabet from 6 initial ref states; all "
              "interleavings with <=2 (quick) / <=3 (thorough) preemptions; each complete history must have a linearization under the map model (errors = no effect), "
              "readers must only see values the ref held while they ran, final disk state must equal the model. WorkTree.commit racers: every commit reported "
              "successful must be an ancestor of the final tip."),
        round2='Round 2-3: 7 initial states incl. a packed-only bystander; creation races (add_if_new directly and through HEAD vs create-and-pack).',
        note="Trusted: as C07; commit scenarios use a conflict-filtered reduction (preempt only before calls whose path another actor touches), footprints iterated to a fixpoint. One residual defect is a known finding.",
    ),
    "C09": dict(
        engine="E2 crashfs", category="fault_enumeration",
        technique="exhaustive crash-point enumeration over the interposed file system (process-crash model; power-loss variants with fsync enabled); recovery predicate on fresh objects",
        text=("For 18 (quick) / 25 (thorough) repository-changing operations from a loose and a packed start state (incl. a ref that is loose over an older packed value) the process is killed before every mutating system call "
              "in turn, and inside every write(2) with its first byte / first half written; thorough: all two-operation histories (the first operation completes, the kill lands in the second). The post-crash directory is reopened "
              "with fresh dulwich objects (thorough: also git fsck) and must open, have every ref at its old or new value with a readable, "
              "correctly hashing closure, keep every previously reachable object, parse index/config as old or new and never offer a half-written object."),
        note="Trusted: interposition layer incl. raw write visibility (LoggedFileIO), system calls atomic except the write the kill lands in, ordered-metadata power-loss model restricted to one damaged unsynced file at a time.",
    ),
    "C12": dict(
        engine="E4 enum", category="exploration",
        technique="exhaustive enumeration of all consistent flat listings and all pairs of listings over a conflict-engineered path/mode alphabet; reference model + git mktree / diff-tree as oracles; Rust and pure-Python passes",
        text=("Every consistent listing of <=3 (thorough <=4) entries over 8 paths x 8 kinds through commit_tree in every input order (ids vs reference and git mktree, canonical order, flatten, lookup); the full square of "
              "listing families through tree_changes under the flag cube, path filters, None trees and three RenameDetector settings, and commit_tree_changes under all change orders: apply(diff(A,B),A)=B, each path at most once per side, "
              "git diff-tree agreement; the same space once with the rebuilt Rust extension and once with the extension import blocked."),
        note="Trusted: engines/refmodels/gittree.py (agreed with git on all compared diffs); rename pairing itself is only constrained by soundness clauses, not compared with git.",
    ),
    "C13": dict(
        engine="E4 enum", category="exploration",
        technique="exhaustive enumeration of all DAGs up to n commits x all weak orderings of their timestamps; brute-force transitive closure + C git as oracles",
        text=("All labelled DAGs with n<=4 commits (<=3 parents) x all weak orderings of timestamps (thorough: n=5 x all 541 orderings, n=6 restricted), all ordered pairs/triples/subsets as queries "
              "to find_merge_base / find_octopus_base / can_fast_forward / independent, walker option matrix (order, reverse, max_entries, since/until, excludes); answers compared with the "
              "graph-theoretic ones and with git merge-base / rev-list on the identical objects, with and without a commit-graph."),
        note="Trusted: engines/refmodels/dag.py (never disagreed with git on 651k queries), git 2.39.5. Walker exclusion/cut-offs are only required exact under non-decreasing clocks, as the statement says.",
    ),
    "C14": dict(
        engine="E3 statespace + E4 enum + E5 mutfault", category="exploration",
        technique="exhaustive enumeration of histories x object layouts x accelerator subsets and writers (dulwich, C git) x staleness steps x foreign-file pairs; every query answered twice (with the files, and by the same history stored without any acceleration data) and compared",
        text=("Every labelled DAG of <=2 commits, one per isomorphism class at n=3 and named n=4 shapes (thorough: all 75 DAGs with <=4 commits, <=3 parents) as real repositories (trees, blobs, annotated + lightweight tags, branches) x 7 storage layouts "
              "(loose, one pack, split / overlapping packs, pack+loose, idx v1/v3) x all 15 subsets of {commit-graph, multi-pack-index, bitmap, packed-refs} and every writer variant (dulwich: reachable/all/tips commit-graph, bitmap with/without hash cache and "
              "lookup table; C git) x 13 continuation steps that leave the files stale (new commit, new pack, repack, pack-loose, gc, deleted / moved / re-tagged refs with and without gc) x 30 ordered foreign-file pairs, on a freshly opened Repo and on the long-lived "
              "Repo that wrote or cached the data; ~330 queries per state (getitem, contains, get_raw, iteration, parents, can_fast_forward, merge base, walks, find_shallow, get_depth, graph walker, MissingObjectFinder, reachable commits/objects, refs.as_dict, "
              "get_peeled) must equal the answers of the plain run; stale or foreign files may be rejected with an ordinary error but never answer differently. Every truncation / byte substitution of each file is additionally run in a sandbox (informational: bit rot is outside the statement)."),
        round2="Round 4: a per-query CPU-time watchdog (a query that burns > 20 s of CPU - e.g. an ancestry walk over a parent cycle created by a wrong commit-graph - is the answer 'does not terminate', which differs from the plain run).",
        note="Trusted: the plain reference run (loose objects, loose refs) is itself validated against a trivial model (refs dict, explicit DAG, object set) on every history and step; git 2.39.5 as second writer. A vacuity guard requires every written file to be loaded by a fresh Repo.",
    ),
    "C15": dict(
        engine="E4 enum + E6 sandbox", category="exploration",
        technique="bounded-exhaustive differential enumeration of every Rust/Python twin function in sandboxed workers (extension rebuilt from the working tree vs. fallbacks with the extension import blocked)",
        text=("parse_tree over all token strings of <=3 entries (mode/name/id token alphabets, both id lengths, strict on/off) and all raw strings <=4; sorted_tree_items over all dicts <=3; apply_delta/create_delta over the C03 spaces; "
              "bisect_find_sha over all tables <=4 x probes x (start,end) incl. 32-bit limits; _merge_entries/_is_tree/_count_blocks; plus repository-level scenarios. Same value or failure in both; a panic, abort, hang or blow-up is never 'failure'."),
        note="Trusted: the sandbox engine; exception class families may differ between twins (allowed by the statement).",
    ),
    "C16": dict(
        engine="E3 statespace + E4 enum", category="model_checking",
        technique="explicit-state BFS over ref-operation histories on real backends against a map model (fresh, warm and bystander containers); exhaustive ref-name enumeration against git check-ref-format",
        text=("BFS over canonical storage states of the files backend (directory snapshot incl. loose/packed layout; quick depth 4, thorough to closure), the dict backend and the reftable backend, "
              "~56 operations per state over names that collide as file/directory, symref chains/loops and packing; every transition runs on a fresh, a cache-warm and a bystander container "
              "and must match the model in outcome and in as_dict/keys/symrefs/membership/reads; thorough: git for-each-ref / symbolic-ref agree on every distinct files state. "
              "Names of every length 12..44 (thorough ..140) through create/update/symref/delete/re-create on all backends (reftable record-header boundaries), 135 consecutive updates, and loop-free symref chains of length 1..8 compared across backends and with git rev-parse. "
              "check_ref_format is compared with an independent transcription of git-check-ref-format(1) and the git binary on all ~90k strings <=4 over 17 characters plus token strings."),
        round2='Round 4: peeled values - every history of <=4 (thorough <=5) steps over 12 operations (point a tag ref at a commit / tag / tag of a tag, move a branch, delete, pack_refs(all) / pack_refs(tags only), re-open) on a real repository; as_dict, Repo.get_peeled, refs.get_peeled through the live and a fresh Repo and git show-ref -d against the model.',
        note="Trusted: the map model in props/C16.py (for colliding names with a failing condition both 'refused' and False are accepted), refmodels/refname.py (cross-checked against git), git 2.39.5.",
    ),
    "C10": dict(
        engine="E3 statespace + E1 sysched", category="model_checking",
        technique="BFS over repository layouts built by real operations, then exhaustive maintenance-operation sequences with a closure oracle; syscall-level interleavings of a reader with a repacker",
        text=("All distinct layouts (refs + partition of a 13-object universe into loose / packs / duplicates / alternate with old and fresh copies, detached HEAD, tags incl. a tag of a tag, a tree with symlink, executable, subtree and gitlink entries) reachable by <=3 (thorough <=4) builder operations; from each, every "
              "maintenance operation and pairs (pack_loose_objects, repack, repack excluding unreachable, gc with grace 0/None/2 weeks, prune, pack_refs, write_midx, write_commit_graph; thorough also git repack -ad / git gc) under two "
              "clock settings: every object in the closure of all refs and HEAD stays readable with identical bytes on the live and on a reopened store; unreachable objects only disappear when older than the grace period. "
              "Reader (getitem / get_raw / membership / iteration, warm or cold) x repacker x layout explored at system-call granularity: no spurious miss."),
        round2='Round 2: a multi-pack-index over two packs with a reader that knows the packs and the index without having opened a pack; the fix for the multi-pack-index removal race came out of it. Round 4: two handles on one repository - from every layout of <=3 builder operations a warm long-lived Repo, 3 (thorough 5) foreign maintenance operations by another handle, 5 (7) revive programs (re-add dropped objects, re-point a ref or HEAD) and 2 (6) maintenance operations through the stale handle, closure judged after every step through both handles.',
        note="Trusted: as C07/C08 for E1 (conflict-filtered reduction); the clock is shifted for the maintenance code; the builder's 'age' operation makes existing object files 20 days old; an object's age is that of its newest copy.",
    ),
    "C11": dict(
        engine="E4 enum + E5 mutfault", category="exploration",
        technique="bounded-exhaustive enumeration of index contents x versions; independent format parser + C git as oracles; exhaustive single-fault damage",
        text=("Every subset of <=3 (thorough <=4) names of a 25-name pool engineered for ordering, the 0xFFF name-length saturation and v4 prefix compression, every stage "
              "subset, flag combination, padding length and stat boundary value is written by dulwich, by an independent reference writer and by C git and read by the others; "
              "every truncation / bit flip / byte substitution of small written indexes must be detected."),
        note="Trusted: engines/refmodels/indexfile.py (cross-validated against git ls-files --debug on every flawless file), git 2.39.5.",
    ),
    "C20": dict(
        engine="E4 enum", category="exploration",
        technique="bounded-exhaustive enumeration of config values/names/operation sequences; reference model + C git as oracles",
        text=("All values of length <=4 (thorough <=5) over the 12 special characters, a full byte sweep, all section/subsection/key names over small alphabets, all "
              "set/add/remove/rewrite sequences <=3, judged on dulwich-write/dulwich-read, dulwich-write/git-read and git-write/dulwich-read."),
        note="Trusted: engines/refmodels/gitconfig.py (must agree with C git on every file used, else harness error), git 2.39.5 config parser.",
    ),
    "C17": dict(
        engine="E3 statespace (engines/confine.py)", category="model_checking",
        technique="explicit-state search over sequences of checkouts of adversarial trees through every entry point, with recursive snapshots of everything outside the work tree and of .git",
        text=("Trees built from raw bytes over 21 adversarial names x 17 leaf kinds (odd modes, gitlinks, ten symlink targets) x directory nesting, four protectNTFS/HFS settings, through clone, checkout (plain/forced/paths), switch, reset hard/mixed/soft, "
              "reset_index, stash push/pop, apply_patch, am, restore: every tree once through every entry point, plus BFS over sequences (depth 2-3) that re-use a name with a different kind and continue after failed checkouts. "
              "Snapshot of the sandbox minus the work tree and of .git minus a bookkeeping allow-list identical before/after every transition; no unsafe path materialised (independent model cross-checked against git update-index)."),
        round2="Round 4: 'mirror' kinds in the sequence families (an executable file whose bytes equal the canary file an earlier symlink at the same path points at, the canary being exactly as long as the link text - the coincidence a same-size/same-bytes shortcut needs to chmod through the link) and copy-to patches in the quick sequence family.",
        note="Trusted: engines/refmodels/pathsafety.py (cross-checked against git on 248 paths per run); transitions run in forked children that drop privileges; Linux tmpfs path semantics only.",
    ),
    "C18": dict(
        engine="E3 statespace", category="model_checking",
        technique="exhaustive round-trip and branch-switch enumeration over trees, BFS over work-tree/index edit sequences with a three-dict model; git status / git write-tree as second oracle on every distinct state",
        text=("Every tree of <=2 (thorough <=3) entries over 9 names (incl. non-UTF-8, quoting) x 8 kinds checked out two ways, re-staged and committed (same tree id, clean status); all ordered pairs inside slot universes for every kind transition "
              "file/symlink/dir/absent; BFS to depth 2 (3) over 14 edit/stage/unstage operations from 8 start trees with status judged in both untracked modes through a live and a fresh Repo against the model and C git. Racy-git owned by a virtual mtime clock."),
        round2='Round 4: when git status on the index dulwich wrote disagrees with the model, git is asked again with the same entries and no stat data; if that agrees with the model the stat data dulwich wrote are the violation (a same-size edit hidden from git and dulwich alike), otherwise it is a harness error as before.',
        note="Trusted: engines/refmodels/worktree.py (model vs git disagreement on a stat-free copy of the index is a harness error); two known findings (mode/type-only changes invisible to status; stage/unstage D/F conflicts).",
    ),
    "C19": dict(
        engine="E4 enum", category="exploration",
        technique="bounded-exhaustive enumeration of frame sequences x all read chunkings, all 65536 length prefixes; reference codec oracle",
        text=("Every frame sequence up to the bound is encoded by dulwich and decoded under every partition of the byte "
              "stream into reads by each decoder; every 4-hex-digit prefix and every 4-byte prefix over a hostile alphabet "
              "is fed to every decoder; encoders are driven across the 65516/65520 size limits. The space is finite and "
              "visited completely, so absence of a violation is a fact about the code within the bound."),
        round2="Round 2: the client's decoding of a report-status answer carried by 1-3 side-band data packets cut at every inner offset, with progress packets in between.",
        note="Trusted: the 60-line reference codec (refmodels/pktline.py), CPython BytesIO. Bounds: <=3(4) frames, stream partitions exhaustive to 13(16) bytes and <=3(4) cuts above.",
    ),
}
