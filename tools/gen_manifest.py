#!/venv/bin/python
"""Regenerate /verif/MANIFEST.json from tools/manifest_data.py (keeps it schema-valid)."""
import json, os, subprocess, sys
sys.path.insert(0, os.path.dirname(os.path.abspath(__file__)))
from manifest_data import CHECKS, ENGINES, NOTES, SOURCE_COMMITS, NA_REASONS

V = os.path.dirname(os.path.dirname(os.path.abspath(__file__)))
props = [json.loads(l)["id"] for l in open(os.path.join(V, "properties.jsonl"))]
checks = []
for pid in props:
    c = CHECKS.get(pid)
    if not c:
        continue
    checks.append({
        "property_id": pid,
        "quick_cmd": "./check %s --tier quick" % pid,
        "thorough_cmd": "./check %s --tier thorough" % pid,
        "evidence_file": "/verif/evidence/%s.json" % pid,
        "replay_cmd_template": "./check %s --replay {path}" % pid,
        "engine": c["engine"],
        "level_claimed": {"category": c["category"], "text": c["text"] + (" " + c["round2"] if c.get("round2") else ""), "design_ref": "DESIGN.md §3 %s and §8" % pid},
        "level_note": c["note"],
        "technique": c["technique"],
    })
na = [{"property_id": p, "reason": NA_REASONS.get(p, "check not built yet (work in progress); nothing is claimed for it")}
      for p in props if p not in CHECKS]
m = {
    "version": 1,
    "setup_cmd": "./setup.sh",
    "hooks": {
        "guard": "DULWICH_VERIF",
        "enable": "no source hooks: all interposition is from outside the repository (monkey-patched os/builtins/time in the harness process); ./check sets DULWICH_VERIF=1 for uniformity and imports /repo/dulwich in place, Rust crates rebuilt by cargo build --offline into /verif/.build",
        "baseline_off_cmd": "cd /repo && /venv/bin/python -m pytest -ra -q -p no:cacheprovider --timeout=900 --continue-on-collection-errors",
        "source_commits": SOURCE_COMMITS,
        "add_only": True,
    },
    "engines": ENGINES,
    "checks": checks,
    "notes": NOTES,
    "not_applicable": na,
}
with open(os.path.join(V, "MANIFEST.json"), "w") as f:
    json.dump(m, f, indent=1)
    f.write("\n")
r = subprocess.run(["python3-vt", "-c", "import json,jsonschema,sys; jsonschema.validate(json.load(open(sys.argv[1])), json.load(open('/root/.vp/MANIFEST.schema.json'))); print('MANIFEST valid:', sys.argv[1])", os.path.join(V, "MANIFEST.json")])
sys.exit(r.returncode)
