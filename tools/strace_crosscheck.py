#!/venv/bin/python
"""Completeness of the interposition layer, checked against the kernel's view (DESIGN §1.3 rule 3).

For each operation the child process runs it twice on identical start states: once plainly under
`strace -f` and once under the StepController with all_ops numbering.  The multiset of *mutating* system
calls on paths below the sandbox seen by strace must equal the multiset of mutating steps the interposer
logged (open-for-write/create, write, rename, unlink, mkdir, rmdir, chmod, utimensat, link, symlink, fsync,
truncate).  Exit 0 = every operation agrees.

usage: tools/strace_crosscheck.py            (parent)
"""
import collections
import json
import os
import re
import subprocess
import sys

V = os.path.dirname(os.path.dirname(os.path.abspath(__file__)))
sys.path.insert(0, V)
sys.path.insert(0, os.environ.get("VERIF_REPO", "/repo"))

OPS = [
    ("C07", "GitFile.with"), ("C07", "Index.write"), ("C07", "refs.set_if_equals"), ("C07", "refs.remove_if_equals(loose+packed)"),
    ("C07", "refs.pack_refs"), ("C07", "ConfigFile.write_to_path"), ("C07", "DiskObjectStore.add_object"),
    ("C07", "DiskObjectStore.add_objects(pack+idx)"), ("C07", "write_commit_graph"),
    ("C09", "WorkTree.commit"), ("C09", "add_thin_pack"), ("C09", "pack_loose_objects"), ("C09", "repack"),
    ("C09", "garbage_collect(grace=0)"), ("C09", "porcelain.add"), ("C09", "local push (receive)"),
]


def child(mode, prop, name, root):
    os.environ["PYTHONHASHSEED"] = "0"
    import importlib
    import tempfile

    mod = importlib.import_module("props." + prop)
    c09 = importlib.import_module("props.C09")
    if prop == "C07":
        setup, op = mod.FAULT_SCENARIOS[name]
    else:
        setup, op = (lambda r: mod.build_repo(r, False)), mod.OPS[name]
    os.makedirs(root)
    setup(root)
    tempfile._name_sequence = c09._DetNames()
    sys.stdout.write("READY\n")
    sys.stdout.flush()
    if mode == "plain":
        os.write(2, b"@@BEGIN@@\n")
        op(root)
        os.write(2, b"@@END@@\n")
    else:
        from engines import crashfs

        ctl, outcome = crashfs.run_op(root, op, all_ops=True)
        assert outcome[0] == "ok", outcome
        from engines import fsint

        steps = [(o, p) for o, p, n in ctl.steps if o in fsint.MUTATING]
        json.dump(steps, open(root + ".steps", "w"))


MUT = {
    "rename": "rename", "renameat": "rename", "renameat2": "rename", "unlink": "remove", "unlinkat": "remove", "mkdir": "mkdir",
    "mkdirat": "mkdir", "rmdir": "rmdir", "chmod": "chmod", "fchmodat": "chmod", "fchmod": "chmod", "utimensat": "utime",
    "link": "link", "linkat": "link", "symlink": "symlink", "symlinkat": "symlink", "fsync": "fsync", "fdatasync": "fsync",
    "ftruncate": "truncate", "truncate": "truncate",
}


def parse_strace(text, root):
    """-> Counter of (op, relpath) for mutating syscalls under root, between the BEGIN/END markers."""
    out = collections.Counter()
    fds = {}
    active = False
    for line in text.splitlines():
        line = re.sub(r"^\[pid\s+\d+\]\s*", "", line)
        line = re.sub(r"^\d+\s+", "", line)
        if "@@BEGIN@@" in line:
            active = True
            continue
        if "@@END@@" in line:
            active = False
            continue
        m = re.match(r"(\w+)\((.*)\)\s+=\s+(-?\d+)", line)
        if not m:
            continue
        call, args, ret = m.group(1), m.group(2), int(m.group(3))
        # the interposer numbers *attempted* mutating calls (mkdir EEXIST, utime/unlink ENOENT included)
        paths = re.findall(r'"((?:[^"\\]|\\.)*)"', args)
        if call in ("open", "openat"):
            if ret >= 0 and paths and paths[0].startswith(root):
                w = any(f in args for f in ("O_WRONLY", "O_RDWR", "O_CREAT", "O_TRUNC", "O_APPEND"))
                fds[ret] = (paths[0], w)
                if w and active:
                    out[("open_w", os.path.relpath(paths[0], root))] += 1
            elif ret >= 0:
                fds.pop(ret, None)
            continue
        if call == "close":
            fd = int(args.split(",")[0]) if args.split(",")[0].strip().isdigit() else None
            fds.pop(fd, None)
            continue
        if not active:
            continue
        if call in ("write", "pwrite64"):
            if ret < 0:
                continue
            fd = int(args.split(",")[0])
            if fd in fds and fds[fd][1]:
                out[("write", os.path.relpath(fds[fd][0], root))] += 1
            continue
        if call in MUT:
            op = MUT[call]
            if op in ("fsync", "truncate") and call in ("fsync", "fdatasync", "ftruncate", "fchmod"):
                fd = int(args.split(",")[0])
                if fd in fds:
                    out[(op if call != "fchmod" else "chmod", os.path.relpath(fds[fd][0], root))] += 1
                continue
            ps = [p for p in paths if p.startswith(root)]
            if not ps:
                continue
            target = ps[-1] if op in ("rename", "link", "symlink") else ps[0]
            out[(op, os.path.relpath(target, root))] += 1
    return out


def main():
    if len(sys.argv) > 1 and sys.argv[1] == "--child":
        return child(*sys.argv[2:6])
    base = "/dev/shm/strace-xc-%d" % os.getpid()
    os.makedirs(base)
    bad = 0
    try:
        for prop, name in OPS:
            r1 = os.path.join(base, "p")
            r2 = os.path.join(base, "i")
            subprocess.run(["rm", "-rf", r1, r2, r2 + ".steps"])
            env = dict(os.environ, PYTHONHASHSEED="0", PYTHONDONTWRITEBYTECODE="1")
            p = subprocess.run(["strace", "-f", "-e", "trace=%file,write,pwrite64,fsync,fdatasync,ftruncate,fchmod,close", "-s", "300", "-o", base + "/trace",
                                sys.executable, __file__, "--child", "plain", prop, name, r1], env=env, capture_output=True, text=True)
            if p.returncode != 0:
                print("FAILED (plain)", prop, name, p.stderr[-500:])
                bad += 1
                continue
            k = parse_strace(open(base + "/trace").read(), r1)
            p = subprocess.run([sys.executable, __file__, "--child", "interposed", prop, name, r2], env=env, capture_output=True, text=True)
            if p.returncode != 0:
                print("FAILED (interposed)", prop, name, p.stderr[-500:])
                bad += 1
                continue
            steps = collections.Counter((o if o != "replace" else "rename", pth) for o, pth in json.load(open(r2 + ".steps")))
            # pack names / tmp names are content-addressed or deterministic in both runs
            if k == steps:
                print("ok   %-4s %-40s %3d mutating syscalls agree" % (prop, name, sum(k.values())))
            else:
                bad += 1
                print("DIFF %-4s %s" % (prop, name))
                for key in sorted(set(k) | set(steps)):
                    if k.get(key, 0) != steps.get(key, 0):
                        print("       %-9s %-70s strace=%d interposer=%d" % (key[0], key[1], k.get(key, 0), steps.get(key, 0)))
    finally:
        subprocess.run(["rm", "-rf", base])
    print("strace cross-check: %d operation(s) disagree" % bad)
    return 1 if bad else 0


if __name__ == "__main__":
    sys.exit(main())
