#!/bin/sh
# usage: tools/run_all.sh [tier] [ids...]   -- run every registered check sequentially against /repo, summary on stdout
tier=${1:-quick}; shift 2>/dev/null
ids=${*:-$(python3 -c "import json;print(' '.join(c['property_id'] for c in json.load(open('/verif/MANIFEST.json'))['checks']))")}
cd /verif
bad=0
for id in $ids; do
  out=/dev/shm/runall-$id.$tier.log
  ./check $id --tier $tier > $out 2>&1; rc=$?
  echo "$id rc=$rc $(grep -c '^VIOLATION' $out) violation(s) $(grep -c '^KNOWN-FINDING' $out) known | $(tail -1 $out | cut -c1-150)"
  [ $rc -ne 0 ] && bad=1
done
exit $bad
