#!/venv/bin/python
"""Run the repository's baseline suite in DIR (default /repo) and compare with BASELINE.json's
stable_pass list.  usage: baseline_cmp.py [DIR] [-n N] [-- extra pytest args]
Exit 0 iff every stable_pass test passed."""
import json, os, subprocess, sys, tempfile, xml.etree.ElementTree as ET

args = sys.argv[1:]
d = "/repo"
n = "12"
extra = []
while args:
    a = args.pop(0)
    if a == "-n":
        n = args.pop(0)
    elif a == "--":
        extra = args
        break
    else:
        d = a
base = json.load(open("/root/.vp/BASELINE.json"))
want = set(base["stable_pass"])
out = os.path.join("/dev/shm", "baseline-%d.xml" % os.getpid())
cmd = ["/venv/bin/python", "-m", "pytest", "-q", "-p", "no:cacheprovider", "--timeout=900",
       "--continue-on-collection-errors", "--junitxml=" + out] + (["-n", os.environ.get("BASELINE_N", n), "--ignore=contrib/test_swift_smoke.py"] if n != "0" else []) + extra
env = dict(os.environ)
env.pop("DULWICH_VERIF", None)
env["PYTHONPATH"] = d
p = subprocess.run(cmd, cwd=d, env=env, capture_output=True, text=True)
print(p.stdout.strip().splitlines()[-1] if p.stdout.strip() else p.stderr[-500:])
passed = set()
for tc in ET.parse(out).getroot().iter("testcase"):
    if not any(c.tag in ("failure", "error", "skipped") for c in tc):
        passed.add("%s::%s" % (tc.get("classname"), tc.get("name")))
os.unlink(out)
missing = sorted(want - passed)
# tests/porcelain/__init__.py holds 566 unittest cases that pytest does not collect (the file is not named test_*.py);
# they pass on the pinned tree and are part of the project's suite, so a repair must keep them green as well
if not extra:
    q = subprocess.run(["/venv/bin/python", "-m", "unittest", "tests.porcelain"], cwd=d, env=env, capture_output=True, text=True)
    tail = (q.stderr.strip().splitlines() or ["?"])[-1]
    if q.returncode != 0:
        bad = [l for l in q.stderr.splitlines() if l.startswith(("FAIL:", "ERROR:"))]
        print("unittest tests.porcelain:", tail)
        for l in bad[:20]:
            print("  NOT-PASSING (unittest):", l)
        missing += bad or ["tests.porcelain (unittest run failed)"]
print("stable_pass=%d passed_now=%d missing=%d" % (len(want), len(passed & want), len(missing)))
for m in missing[:40]:
    print("  NOT-PASSING:", m)
sys.exit(1 if missing else 0)
