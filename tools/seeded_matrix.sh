#!/bin/sh
# Re-run every archived seeded change against its property's quick check (scratch worktree, /repo untouched)
# and record which violation keys fire -> /verif/seeded/MATRIX.md and seeded/<id>/detected.json
cd /verif
out=seeded/MATRIX.md
echo "# Seeded property-breaking changes vs. checks (quick tier, $(git -C /repo rev-parse --short HEAD))" > $out.tmp
echo "" >> $out.tmp
echo "| seeded | property | detected | violation keys |" >> $out.tmp
echo "|---|---|---|---|" >> $out.tmp
for d in seeded/C*-*; do
  sid=$(basename $d); prop=${sid%%-*}
  [ -n "$1" ] && [ "$1" != "$prop" ] && [ "$1" != "$sid" ] && { grep "^| $sid " $out >> $out.tmp 2>/dev/null; continue; }
  res=$(timeout 2400 tools/try_mutant.sh /verif/$d/patch.diff $prop 2>&1); trc=$?
  keys=$(echo "$res" | grep VIOLATION | sed 's/.*# //' | sed 's/ (.*//' | sort -u | head -6 | tr '\n' ';')
  if echo "$res" | grep -q "PATCH DOES NOT APPLY"; then det="patch no longer applies"; elif [ -n "$keys" ]; then det=yes; elif [ $trc -eq 124 ]; then det="NO (check did not finish in 40 min)"; elif echo "$res" | grep -q HARNESS; then det="harness error (exit 2)"; else det=NO; fi
  echo "| $sid | $prop | $det | $keys |" >> $out.tmp
  /venv/bin/python - "$d" "$det" "$keys" <<'PY'
import json,sys
d,det,keys=sys.argv[1:4]
json.dump({"check":"./check %s --tier quick"%d.split("/")[-1].split("-")[0],"detected":det,"violation_keys":[k for k in keys.split(";") if k]},open(d+"/detected.json","w"),indent=1)
PY
done
mv $out.tmp $out
cat $out
