"""Stand-alone reproductions for the C17 findings (plain dulwich calls, scratch space under /dev/shm).
Run:  cd /repo && /venv/bin/python /verif/findings_inbox/C17_repro.py"""

def defect1():
    import os, shutil, tempfile
    from dulwich import porcelain
    from dulwich.objects import Blob, Tree, Commit
    from dulwich.repo import Repo
    
    top = tempfile.mkdtemp(dir="/dev/shm")
    os.makedirs(os.path.join(top, "victim"))
    open(os.path.join(top, "victim", "b"), "w").write("precious\n")
    wt = os.path.join(top, "wt")
    r = Repo.init(wt, mkdir=True)
    
    def commit(tree):
        c = Commit(); c.tree = tree.id
        c.author = c.committer = b"A <a@example.com>"; c.author_time = c.commit_time = 0
        c.author_timezone = c.commit_timezone = 0; c.message = b"m"
        r.object_store.add_object(c); return c.id
    
    blob = Blob.from_string(b"x\n"); link = Blob.from_string(b"../victim")
    sub = Tree(); sub.add(b"b", 0o100644, blob.id)
    t_dir = Tree(); t_dir.add(b"a", 0o040000, sub.id)          # a/b
    t_link = Tree(); t_link.add(b"a", 0o120000, link.id)        # a -> ../victim
    for o in (blob, link, sub, t_dir, t_link): r.object_store.add_object(o)
    c_dir, c_link = commit(t_dir), commit(t_link)
    r.close()
    
    # variant A (two public calls): index/HEAD say "a/b", the work tree has no directory a
    porcelain.reset(wt, "mixed", c_dir)
    try:
        porcelain.checkout(wt, c_link, force=True)
    except Exception as e:
        print("checkout raised", type(e).__name__, e)
    print("variant A: victim/b still exists:", os.path.exists(os.path.join(top, "victim", "b")))
    
    # variant B (three plain steps): check out the link, let HEAD move (push into the checked-out branch /
    # fetch into the current branch / reset --soft), check out anything else
    open(os.path.join(top, "victim", "b"), "w").write("precious\n")
    shutil.rmtree(wt); r = Repo.init(wt, mkdir=True)
    for o in (blob, link, sub, t_dir, t_link): r.object_store.add_object(o)
    c_dir, c_link = commit(t_dir), commit(t_link)
    empty = Tree(); r.object_store.add_object(empty); c_empty = commit(empty)
    r.close()
    porcelain.checkout(wt, c_link)
    print("a ->", os.readlink(os.path.join(wt, "a")))
    porcelain.reset(wt, "soft", c_dir)
    try:
        porcelain.checkout(wt, c_empty, force=True)
    except Exception as e:
        print("checkout raised", type(e).__name__, e)
    print("variant B: victim/b still exists:", os.path.exists(os.path.join(top, "victim", "b")))
    shutil.rmtree(top)

def defect2():
    import io, os, shutil, tempfile
    from dulwich import porcelain
    from dulwich.objects import Blob, Tree, Commit
    from dulwich.repo import Repo
    
    top = tempfile.mkdtemp(dir="/dev/shm")
    wt = os.path.join(top, "wt")
    r = Repo.init(wt, mkdir=True)
    link = Blob.from_string(b".git/hooks/post-checkout")     # dangling symlink into the control directory
    t = Tree(); t.add(b"setup.sh", 0o120000, link.id)
    c = Commit(); c.tree = t.id; c.author = c.committer = b"A <a@example.com>"
    c.author_time = c.commit_time = 0; c.author_timezone = c.commit_timezone = 0; c.message = b"m"
    for o in (link, t, c): r.object_store.add_object(o)
    r.close()
    porcelain.checkout(wt, c.id)                                # legitimately creates the symlink
    patch = (b"diff --git a/setup.sh b/setup.sh\nnew file mode 100755\n--- /dev/null\n+++ b/setup.sh\n"
             b"@@ -0,0 +1 @@\n+#!/bin/sh -c 'echo pwned'\n")
    porcelain.apply_patch(wt, patch_file=io.BytesIO(patch))
    hook = os.path.join(wt, ".git", "hooks", "post-checkout")
    print("hook created:", os.path.exists(hook), oct(os.stat(hook).st_mode) if os.path.exists(hook) else "")
    print(open(hook).read() if os.path.exists(hook) else "")
    shutil.rmtree(top)

def defect3():
    import os, shutil, tempfile
    from dulwich import porcelain
    from dulwich.objects import Blob, Commit, ShaFile, Tree
    from dulwich.repo import Repo
    
    top = tempfile.mkdtemp(dir="/dev/shm")
    wt = os.path.join(top, "wt")
    r = Repo.init(wt, mkdir=True)
    blob = Blob.from_string(b"x\n")
    sub = Tree(); sub.add(b"a", 0o100644, blob.id)
    root = ShaFile.from_raw_string(Tree.type_num, b"40000 \0" + bytes.fromhex(sub.id.decode()))   # name == b""
    c = Commit(); c.tree = root.id; c.author = c.committer = b"A <a@example.com>"
    c.author_time = c.commit_time = 0; c.author_timezone = c.commit_timezone = 0; c.message = b"m"
    for o in (blob, sub, root, c): r.object_store.add_object(o)
    r.close()
    porcelain.checkout(wt, c.id)
    print(sorted(os.listdir(wt)))      # git: "fatal: empty filename in tree entry"
    shutil.rmtree(top)

def defect4():
    # Defect D: sparse checkout materialises / removes index paths without any path validation
    import os, shutil, tempfile
    from dulwich import porcelain
    from dulwich.objects import Blob, Commit, Tree
    from dulwich.repo import Repo

    top = tempfile.mkdtemp(dir="/dev/shm")
    open(os.path.join(top, "victim"), "w").write("precious\n")
    wt = os.path.join(top, "wt")
    r = Repo.init(wt, mkdir=True)
    hook = Blob.from_string(b"#!/bin/sh\necho pwned\n")
    hooks = Tree(); hooks.add(b"post-checkout", 0o100755, hook.id)
    git = Tree(); git.add(b"hooks", 0o040000, hooks.id)
    up = Tree(); up.add(b"victim", 0o100644, hook.id); up.add(b"dropped", 0o100644, hook.id)
    root = Tree(); root.add(b".git", 0o040000, git.id); root.add(b"..", 0o040000, up.id)
    c = Commit(); c.tree = root.id; c.author = c.committer = b"A <a@example.com>"
    c.author_time = c.commit_time = 0; c.author_timezone = c.commit_timezone = 0; c.message = b"m"
    for o in (hook, hooks, git, up, root, c): r.object_store.add_object(o)
    r.close()
    porcelain.reset(wt, "mixed", c.id)                      # index := hostile tree, nothing written yet
    porcelain.sparse_checkout(wt, patterns=["*"], cone=False)   # "include everything"
    print("hook created      :", os.path.exists(os.path.join(wt, ".git", "hooks", "post-checkout")))
    print("file dropped in ..:", os.path.exists(os.path.join(top, "dropped")))
    porcelain.sparse_checkout(wt, patterns=["/nothing"], force=True, cone=False)   # "include nothing"
    print("../victim survives:", os.path.exists(os.path.join(top, "victim")))
    shutil.rmtree(top)


if __name__ == "__main__":
    for f in (defect1, defect2, defect3, defect4):
        print("---", f.__name__)
        try:
            f()
        except Exception as e:  # a repaired tree refuses: that is the good outcome
            print("refused:", type(e).__name__, e)
