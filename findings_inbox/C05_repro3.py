"""C05 finding 3 — stand-alone reproduction (dulwich server + dulwich client, plain calls).

A shallow client asks a dulwich server (git:// or smart HTTP) for a commit that lies BELOW its own
shallow boundary, with a depth.  The server takes the client's "have <boundary commit>" to mean
that the client has the whole ancestry of that commit, although the client said
"shallow <boundary commit>" in the same request, and sends an empty pack.  The fetch succeeds;
the wanted commit never arrives.

Run:  /venv/bin/python C05_repro3.py [repo-root]     (exit 1 = defect reproduced)
"""
import os
import shutil
import sys
import tempfile
import threading

sys.path.insert(0, sys.argv[1] if len(sys.argv) > 1 else "/repo")
from dulwich.client import TCPGitClient  # noqa: E402
from dulwich.objects import Blob, Commit, Tree  # noqa: E402
from dulwich.repo import Repo  # noqa: E402
from dulwich.server import DictBackend, TCPGitServer  # noqa: E402

top = tempfile.mkdtemp(dir="/dev/shm" if os.path.isdir("/dev/shm") else None)


def commit(repo, text, parents, when):
    b = Blob.from_string(text)
    t = Tree()
    t.add(b"f", 0o100644, b.id)
    c = Commit()
    c.tree = t.id
    c.parents = parents
    c.author = c.committer = b"a <a@x>"
    c.author_time = c.commit_time = when
    c.author_timezone = c.commit_timezone = 0
    c.message = text
    for o in (b, t, c):
        repo.object_store.add_object(o)
    return c.id


rc = 2
try:
    src = Repo.init_bare(os.path.join(top, "src"), mkdir=True)
    a = commit(src, b"A\n", [], 1000)
    b = commit(src, b"B\n", [a], 1100)
    src.refs[b"refs/heads/main"] = b
    src.refs[b"refs/heads/old"] = a
    srv = TCPGitServer(DictBackend({b"/": src}), "127.0.0.1", 0)
    threading.Thread(target=srv.serve_forever, daemon=True).start()
    port = srv.server_address[1]

    dst = Repo.init_bare(os.path.join(top, "dst"), mkdir=True)
    TCPGitClient("127.0.0.1", port=port).fetch("/", dst, determine_wants=lambda refs, depth=None: [b], depth=1)
    dst.refs[b"refs/heads/main"] = b  # a shallow clone of main: offered as "have" from now on
    print("shallow clone of main : shallow =", dst.get_shallow())

    res = TCPGitClient("127.0.0.1", port=port).fetch("/", dst, determine_wants=lambda refs, depth=None: [a], depth=2)
    got = a in dst.object_store
    print("fetch old --depth=2   : returned", type(res).__name__, "- commit A arrived:", got)
    print("not reproduced" if got else "DEFECT REPRODUCED")
    rc = 0 if got else 1
    srv.shutdown()
    srv.server_close()
    dst.close()
    src.close()
finally:
    sys.stdout.flush()
    shutil.rmtree(top, ignore_errors=True)
    os._exit(rc)
