"""Stand-alone reproductions for the C14 findings (plain dulwich calls + C git for two of them).

    PYTHONPATH=/repo /venv/bin/python /verif/findings_inbox/C14_repro.py

Every section builds its own bare repository under /dev/shm and prints what dulwich answers with
and without the acceleration file.  Nothing of the verification harness is imported.
"""

import os
import shutil
import subprocess
import sys
import warnings

warnings.simplefilter("ignore")

from dulwich import porcelain
from dulwich.gc import garbage_collect
from dulwich.graph import can_fast_forward
from dulwich.object_store import MissingObjectFinder
from dulwich.objects import Blob, Commit, Tag, Tree
from dulwich.repo import Repo

ROOT = "/dev/shm/c14-repro-%d" % os.getpid()


def fresh(name):
    d = os.path.join(ROOT, name)
    shutil.rmtree(d, ignore_errors=True)
    os.makedirs(d)
    return d


def commit(tree, parents, n):
    c = Commit()
    c.tree = tree.id
    c.parents = [p.id for p in parents]
    c.author = c.committer = b"A <a@example.com>"
    c.author_time = c.commit_time = 1000000000 + n
    c.author_timezone = c.commit_timezone = 0
    c.message = b"c%d\n" % n
    return c


def tag(name, target, n):
    t = Tag()
    t.name = name
    t.tagger = b"A <a@example.com>"
    t.tag_time = 1000000000 + n
    t.tag_timezone = 0
    t.message = name + b"\n"
    t.object = (Commit, target.id)
    return t


def outcome(fn):
    try:
        return repr(fn())
    except Exception as e:
        return "raises " + type(e).__name__


def s(x):
    return x[:7].decode()


def d1_stale_midx():
    print("D1  stale multi-pack-index is trusted by `in`")
    d = fresh("d1")
    r = Repo.init_bare(d)
    st = r.object_store
    a, b = Blob.from_string(b"a"), Blob.from_string(b"b")
    st.add_objects([(a, None), (b, None)])
    st.write_midx()
    st.repack(exclude={b.id})  # what gc does with an unreachable object
    r.close()
    r = Repo(d)
    print("    with the stale file : b in store ->", b.id in r.object_store, "   store[b] ->", outcome(lambda: r.object_store[b.id]))
    r.close()
    os.remove(d + "/objects/pack/multi-pack-index")
    r = Repo(d)
    print("    file removed        : b in store ->", b.id in r.object_store)
    r.close()


def d2_stale_commit_graph():
    print("D2  stale commit-graph answers for a commit that gc has pruned")
    d = fresh("d2")
    r = Repo.init_bare(d)
    st = r.object_store
    t = Tree()
    c0 = commit(t, [], 0)
    c1 = commit(t, [c0], 1)
    for o in (t, c0, c1):
        st.add_object(o)
    r.refs[b"refs/heads/keep"] = c0.id
    r.refs[b"refs/heads/topic"] = c1.id
    st.write_commit_graph([c0.id, c1.id])
    del r.refs[b"refs/heads/topic"]
    garbage_collect(r, grace_period=None)  # prunes c1; objects/info/commit-graph stays
    r.close()
    r = Repo(d)
    print("    c1 in store ->", c1.id in r.object_store)
    print("    with the stale file : get_parents(c1) ->", outcome(lambda: [s(p) for p in r.get_parents(c1.id)]),
          "  reachable commits from c1 ->", outcome(lambda: sorted(s(x) for x in r.object_store.get_reachability_provider().get_reachable_commits([c1.id]))))
    r.close()
    os.remove(d + "/objects/info/commit-graph")
    r = Repo(d)
    print("    file removed        : get_parents(c1) ->", outcome(lambda: r.get_parents(c1.id)))
    r.close()


def d3_octopus():
    print("D3  commit-graph written by dulwich drops every parent after the second")
    d = fresh("d3")
    r = Repo.init_bare(d)
    st = r.object_store
    t = Tree()
    a, b, c = commit(t, [], 0), commit(t, [], 1), commit(t, [], 2)
    m = commit(t, [a, b, c], 3)
    for o in (t, a, b, c, m):
        st.add_object(o)
    r.refs[b"refs/heads/m"] = m.id
    print("    without commit-graph: parents(m) ->", [s(p) for p in r.get_parents(m.id)], "  can_fast_forward(c, m) ->", can_fast_forward(r, c.id, m.id))
    st.write_commit_graph([m.id])
    r.close()
    r = Repo(d)
    print("    with commit-graph   : parents(m) ->", [s(p) for p in r.get_parents(m.id)], "  can_fast_forward(c, m) ->", can_fast_forward(r, c.id, m.id))
    r.close()


def d4_tips_only():
    print("D4  porcelain.write_commit_graph(reachable=False) turns every listed commit into a root")
    d = fresh("d4")
    r = Repo.init_bare(d)
    st = r.object_store
    t = Tree()
    c0 = commit(t, [], 0)
    c1 = commit(t, [c0], 1)
    for o in (t, c0, c1):
        st.add_object(o)
    r.refs[b"refs/heads/m"] = c1.id
    r.close()
    porcelain.write_commit_graph(d, reachable=False)
    r = Repo(d)
    print("    parents(c1) ->", r.get_parents(c1.id), " expected", [s(c0.id)], "  walk from c1 ->", [s(e.commit.id) for e in r.get_walker(include=[c1.id])])
    r.close()


def d5_pack_refs_not_peeled():
    print("D5  pack_refs() writes '# pack-refs with: peeled' without peeling: get_peeled() returns the tag object")
    d = fresh("d5")
    r = Repo.init_bare(d)
    st = r.object_store
    t = Tree()
    c0 = commit(t, [], 0)
    tg = tag(b"v1", c0, 0)
    for o in (t, c0, tg):
        st.add_object(o)
    r.refs[b"refs/tags/v1"] = tg.id
    print("    loose ref      : get_peeled ->", s(r.get_peeled(b"refs/tags/v1")), "(commit %s, tag object %s)" % (s(c0.id), s(tg.id)))
    r.refs.pack_refs(all=True)  # also done by dulwich.gc.garbage_collect
    r.close()
    r = Repo(d)
    print("    after pack_refs: get_peeled ->", s(r.get_peeled(b"refs/tags/v1")))
    print("    " + open(d + "/packed-refs").read().replace("\n", "\n    "))
    r.close()


def d6_stale_peeled():
    print("D6  peeled value of a packed entry is served although a loose ref shadows it; pack_refs() then persists it")
    d = fresh("d6")
    r = Repo.init_bare(d)
    st = r.object_store
    t = Tree()
    c0 = commit(t, [], 0)
    c1 = commit(t, [c0], 1)
    t1, t2 = tag(b"v", c0, 0), tag(b"v", c1, 1)
    for o in (t, c0, c1, t1, t2):
        st.add_object(o)
    r.refs[b"refs/tags/v"] = t1.id
    r.close()
    subprocess.check_call(["git", "pack-refs", "--all"], cwd=d)  # packed-refs with the line "^<c0>"
    r = Repo(d)
    r.refs[b"refs/tags/v"] = t2.id  # the tag is re-pointed: loose ref, packed entry is stale
    r.close()
    r = Repo(d)
    print("    ref -> tag2 -> c1 = %s;  get_peeled ->" % s(c1.id), s(r.get_peeled(b"refs/tags/v")), "(c0 = %s)" % s(c0.id))
    r.refs.pack_refs(all=True)
    r.close()
    r = Repo(d)
    print("    after pack_refs():   get_peeled ->", s(r.get_peeled(b"refs/tags/v")),
          "  git show-ref -d ->", subprocess.run(["git", "show-ref", "-d"], cwd=d, capture_output=True, text=True).stdout.split("\n")[1][:7], "refs/tags/v^{}")
    r.close()


def d7_bitmap_missing():
    print("D7  one pack with a bitmap + one pack without: every reachability query / MissingObjectFinder raises")
    d = fresh("d7")
    r = Repo.init_bare(d)
    st = r.object_store
    t = Tree()
    c0 = commit(t, [], 0)
    c1 = commit(t, [c0], 1)
    st.add_objects([(t, None), (c0, None)])
    r.refs[b"refs/heads/m"] = c0.id
    st.generate_pack_bitmaps(r.refs.as_dict())  # == porcelain.repack(write_bitmaps=True)
    st.add_objects([(c1, None)])  # e.g. a push arrives: second pack, no bitmap
    r.refs[b"refs/heads/m"] = c1.id
    r.close()
    r = Repo(d)
    print("    MissingObjectFinder(haves=[c0], wants=[c1]) ->", outcome(lambda: sorted(s(x) for x, _ in MissingObjectFinder(r.object_store, haves=[c0.id], wants=[c1.id]))))
    r.close()
    for f in os.listdir(d + "/objects/pack"):
        if f.endswith(".bitmap"):
            os.remove(d + "/objects/pack/" + f)
    r = Repo(d)
    print("    bitmap removed                               ->", outcome(lambda: sorted(s(x) for x, _ in MissingObjectFinder(r.object_store, haves=[c0.id], wants=[c1.id]))))
    r.close()


def d8_bitmap_vs_traversal():
    print("D8  BitmapReachability and GraphTraversalReachability answer differently (same Repo object that wrote the bitmaps)")
    for layout in ("one pack", "two packs"):
        d = fresh("d8" + layout[:3])
        r = Repo.init_bare(d)
        st = r.object_store
        b0, b1 = Blob.from_string(b"0"), Blob.from_string(b"1")
        t0 = Tree()
        t0.add(b"f0", 0o100644, b0.id)
        t1 = Tree()
        t1.add(b"f0", 0o100644, b0.id)
        t1.add(b"f1", 0o100644, b1.id)
        c0 = commit(t0, [], 0)
        c1 = commit(t1, [c0], 1)
        c2 = commit(t1, [c1], 2)
        if layout == "one pack":
            st.add_objects([(o, None) for o in (b0, b1, t0, t1, c0, c1, c2)])
        else:
            st.add_objects([(o, None) for o in (b0, t0, c0)])
            st.add_objects([(o, None) for o in (b1, t1, c1, c2)])
        r.refs[b"refs/heads/m"] = c2.id
        names = {c0.id: "c0", c1.id: "c1", c2.id: "c2", t0.id: "t0", t1.id: "t1", b0.id: "b0", b1.id: "b1"}

        def ask(prov):
            return (sorted(names[x] for x in prov.get_reachable_commits([c2.id])),
                    sorted(names[x] for x in prov.get_reachable_commits([c2.id], exclude=[c1.id])),
                    sorted(names[x] for x in prov.get_reachable_objects([c2.id])))

        plain = ask(st.get_reachability_provider())
        st.generate_pack_bitmaps(r.refs.as_dict())
        withbm = ask(st.get_reachability_provider())
        print("    %-9s traversal: commits(c2)=%s commits(c2, exclude=c1)=%s objects(c2)=%s" % ((layout,) + plain))
        print("    %-9s bitmap   : commits(c2)=%s commits(c2, exclude=c1)=%s objects(c2)=%s" % ((layout,) + withbm))
        r.close()
        r = Repo(d)
        print("    %-9s bitmap, freshly opened Repo: objects(c2)=%s   <- the .bitmap file on disk is never consulted" % (
            layout, sorted(names[x] for x in r.object_store.get_reachability_provider().get_reachable_objects([c2.id]))))
        r.close()


def d9_damaged_commit_graph():
    print("D9  a commit-graph with one damaged byte is believed (no check of the trailing checksum / none written)")
    d = fresh("d9")
    r = Repo.init_bare(d)
    st = r.object_store
    t = Tree()
    c0 = commit(t, [], 0)
    c1 = commit(t, [c0], 1)
    c2 = commit(t, [c0], 2)
    for o in (t, c0, c1, c2):
        st.add_object(o)
    r.refs[b"refs/heads/a"] = c1.id
    r.refs[b"refs/heads/b"] = c2.id
    r.close()
    subprocess.check_call(["git", "commit-graph", "write", "--reachable"], cwd=d, stderr=subprocess.DEVNULL)
    p = d + "/objects/info/commit-graph"
    data = bytearray(open(p, "rb").read())
    r = Repo(d)
    order = sorted([c0.id, c1.id, c2.id])
    want = {x: [s(y) for y in r.get_parents(x)] for x in order}
    r.close()
    # CDAT chunk: 36 bytes per commit (tree 20, parent1 4, parent2 4, generation/time 8); flip parent1 of the 2nd/3rd entry
    cdat = 8 + 12 * (data[6] + 1) + 1024 + 20 * 3
    for k in (1, 2):
        if want[order[k]]:
            off = cdat + 36 * k + 20 + 3
            data[off] ^= 1 if data[off] ^ 1 < 3 else 3
            break
    open(p, "wb").write(bytes(data))
    r = Repo(d)
    got = {x: outcome(lambda: [s(y) for y in r.get_parents(x)]) for x in order}
    r.close()
    print("    parents before:", {s(k): v for k, v in want.items()})
    print("    parents after one changed byte:", {s(k): v for k, v in got.items()}, "  git commit-graph verify ->",
          "ok" if subprocess.run(["git", "commit-graph", "verify"], cwd=d, capture_output=True).returncode == 0 else "fails")


if __name__ == "__main__":
    try:
        for fn in (d1_stale_midx, d2_stale_commit_graph, d3_octopus, d4_tips_only, d5_pack_refs_not_peeled, d6_stale_peeled,
                   d7_bitmap_missing, d8_bitmap_vs_traversal, d9_damaged_commit_graph):
            fn()
            print()
    finally:
        shutil.rmtree(ROOT, ignore_errors=True)
    sys.stdout.flush()
    os._exit(0)  # (skip dulwich's ResourceWarning noise at interpreter shutdown)
