"""Stand-alone reproduction of the C13 defects: plain dulwich calls only.
Run:  PYTHONPATH=/repo /venv/bin/python repro.py"""
from dulwich.graph import can_fast_forward, find_merge_base, find_octopus_base, independent
from dulwich.objects import Commit, Tree
from dulwich.repo import MemoryRepo

B = 1000000000


def history(parents, times, author_times=None):
    """parents[i] = indexes of the parents of commit i (all < i); times[i] = its commit time."""
    repo = MemoryRepo()
    tree = Tree()
    repo.object_store.add_object(tree)
    ids = []
    for i, ps in enumerate(parents):
        c = Commit()
        c.tree = tree.id
        c.parents = [ids[p] for p in ps]
        c.author = c.committer = b"V <v@example.com>"
        c.commit_time = times[i]
        c.author_time = (author_times or times)[i]
        c.commit_timezone = c.author_timezone = 0
        c.message = b"c%d\n" % i
        repo.object_store.add_object(c)
        ids.append(c.id)
    return repo, ids


def names(ids, res):
    return ["c%d" % ids.index(x) for x in res]


# D1 -- can_fast_forward: min_stamp cut-off.  c0 <- c1 <- c2, the middle commit has an older clock.
repo, ids = history([[], [0], [1]], [100, 50, 200])
print("D1  can_fast_forward(c0, c2) =", can_fast_forward(repo, ids[0], ids[2]), "  expected True (c0 <- c1 <- c2)")

# D2 -- _find_lcas stops before _DNC has reached an already accepted candidate.
#   c0 <- c1 <- c2 ;  c3 = merge(c0, c2)
P = [[], [0], [1], [0, 2]]
repo, ids = history(P, [300, 200, 400, 100])
print("D2a find_merge_base([c2, c3]) =", names(ids, find_merge_base(repo, [ids[2], ids[3]])), "  expected ['c2']")
print("D2a independent([c2, c3])     =", names(ids, independent(repo, [ids[2], ids[3]])), "  expected ['c3']")
repo, ids = history(P, [300, 400, 200, 100])
print("D2b can_fast_forward(c2, c3)  =", can_fast_forward(repo, ids[2], ids[3]), "  expected True")
#   no backwards clock at all, only equal time stamps (whether it shows depends on the order of the ids):
repo, ids = history(P, [B, B, B + 1000, B + 2000], [B + 2000, B + 2000, B + 1000, B])
print("D2c (c0, c1 in the same second) find_merge_base([c3, c0, c2]) =",
      names(ids, find_merge_base(repo, [ids[3], ids[0], ids[2]])), "  expected ['c2']")
repo, ids = history([[], [], [0], [2], [0, 3]], [B + 1000, B, B + 1000, B + 1000, B + 1000], [B, B + 1000, B, B, B])
print("D2d (c0, c2, c3, c4 in the same second) find_merge_base([c3, c4]) =",
      names(ids, find_merge_base(repo, [ids[3], ids[4]])), "  expected ['c3']")

# D3 -- find_octopus_base does not reduce the union of the pairwise bases (monotone clocks).
#   c0 <- c1, c0 <- c2 ; c3 = merge(c1, c2) ; c4 = merge(c1, c2)   (criss-cross)
repo, ids = history([[], [0], [0], [1, 2], [1, 2]], [100, 200, 300, 400, 500])
print("D3  find_octopus_base([c3, c4, c1]) =", names(ids, find_octopus_base(repo, [ids[3], ids[4], ids[1]])),
      "  expected ['c1']")
