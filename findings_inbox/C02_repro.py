"""Stand-alone reproduction of the C02 findings (plain dulwich calls, no harness).

    /venv/bin/python /verif/findings_inbox/C02_repro.py            # against /repo
    VERIF_REPO=<checkout> /venv/bin/python /verif/findings_inbox/C02_repro.py

Prints one line per defect: DEFECT-n REPRODUCED / not reproduced.  Writes only under /dev/shm.
"""
import os
import shutil
import sys
import tempfile
import warnings

sys.path.insert(0, os.environ.get("VERIF_REPO", "/repo"))
warnings.simplefilter("ignore")

from dulwich.object_format import SHA256  # noqa: E402
from dulwich.object_store import DiskObjectStore  # noqa: E402
from dulwich.objects import ShaFile  # noqa: E402
from dulwich.pack import Pack, PackData, write_pack, write_pack_from_container, write_pack_objects  # noqa: E402

d = tempfile.mkdtemp(dir="/dev/shm", prefix="c02-repro-")
try:
    blob = ShaFile.from_raw_string(3, b"hello\n", object_format=SHA256)
    blob2 = ShaFile.from_raw_string(3, b"hello\nworld\n", object_format=SHA256)
    bid = blob.get_id(SHA256)
    tree_raw = b"100644 a\x00" + bytes.fromhex(bid.decode())
    tree = ShaFile.from_raw_string(2, tree_raw, object_format=SHA256)
    tid = tree.get_id(SHA256)
    want = sorted([bid, tid])

    # ---- defect 1: the pack writers name objects by SHA-1 in a SHA-256 pack
    write_pack(os.path.join(d, "p"), [(blob, None), (tree, None)], SHA256)
    p = Pack(os.path.join(d, "p"), object_format=SHA256)
    try:
        got = sorted(p)
        ok = got == want and all(p.get_raw(i)[0] in (2, 3) for i in got)
    except Exception as e:  # struct.error / KeyError: the index is garbage
        ok = False
        got = "%s: %s" % (type(e).__name__, e)
    p.close()
    print("DEFECT-1 (write_pack(SHA256) writes an index of SHA-1 names)", "not reproduced" if ok else "REPRODUCED: ids read back = %r" % (got,))
    with open(os.path.join(d, "q.pack"), "wb") as f:
        entries, _ = write_pack_objects(f.write, [blob, tree], SHA256)
    print("DEFECT-1b (write_pack_objects returns %d-byte names for a SHA-256 pack)" % len(next(iter(entries))),
          "REPRODUCED" if len(next(iter(entries))) != 32 else "not reproduced")

    # ---- defect 2: Pack.__getitem__ parses without the pack's object format
    pd = PackData(os.path.join(d, "q.pack"), object_format=SHA256)
    pd.create_index(os.path.join(d, "q.idx"), version=2)  # re-indexing names the objects correctly
    pd.close()
    p = Pack(os.path.join(d, "q"), object_format=SHA256)
    assert sorted(p) == want and p.get_raw(tid) == (2, tree_raw)
    try:
        o = p[tid]
        list(o.items())
        print("DEFECT-2 (Pack[tree] in a SHA-256 pack) not reproduced")
    except Exception as e:
        print("DEFECT-2 (Pack[tree] in a SHA-256 pack) REPRODUCED: %s: %s" % (type(e).__name__, e))
    p.close()

    # ---- defect 3: objects matched by .id (SHA-1) against SHA-256 names
    sd = os.path.join(d, "objects")
    os.makedirs(os.path.join(sd, "pack"))
    store = DiskObjectStore(sd, object_format=SHA256)
    store.add_objects([(blob, None), (blob2, None)])
    ids = [(blob.get_id(SHA256), None), (blob2.get_id(SHA256), None)]
    try:
        with open(os.path.join(d, "r.pack"), "wb") as f:
            write_pack_from_container(f.write, store, ids, SHA256, deltify=True, reuse_deltas=False)
        print("DEFECT-3 (write_pack_from_container(deltify=True) on a SHA-256 store) not reproduced")
    except KeyError as e:
        print("DEFECT-3 (write_pack_from_container(deltify=True) on a SHA-256 store) REPRODUCED: KeyError %s" % e)
    store.close()
finally:
    shutil.rmtree(d, ignore_errors=True)
