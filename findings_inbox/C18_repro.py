"""Stand-alone reproduction of the C18 findings (plain dulwich calls, no harness).

    PYTHONPATH=/repo /venv/bin/python /verif/findings_inbox/C18_repro.py

Every block builds a tiny repository in a temporary directory under /dev/shm, prints what dulwich
reports and what `git status` / the statement requires.  Nothing outside that directory is touched.
"""

import os
import shutil
import sys
import tempfile

os.environ.update(GIT_CONFIG_GLOBAL="/dev/null", GIT_CONFIG_NOSYSTEM="1")
base = tempfile.mkdtemp(prefix="c18-repro-", dir="/dev/shm" if os.path.isdir("/dev/shm") else None)
os.environ["HOME"] = base

from dulwich import porcelain  # noqa: E402
from dulwich.repo import Repo  # noqa: E402

n = [0]


def repo(files):
    """New repository with one commit holding files {name(bytes): content | ('link', target)}."""
    n[0] += 1
    root = os.path.join(base, "r%d" % n[0])
    os.mkdir(root)
    r = Repo.init(root)
    for name, v in files.items():
        full = os.path.join(os.fsencode(root), name)
        os.makedirs(os.path.dirname(full), exist_ok=True)
        if isinstance(v, tuple):
            os.symlink(v[1], full)
        else:
            with open(full, "wb") as f:
                f.write(v)
    r.get_worktree().stage([os.fsdecode(k) for k in files])
    r.get_worktree().commit(message=b"c", committer=b"C <c@example.com>", author=b"A <a@example.com>",
                            commit_timestamp=1000000000, commit_timezone=0, author_timestamp=1000000000, author_timezone=0)
    return r, os.fsencode(root)


def st(r, **kw):
    try:
        s = porcelain.status(r, **kw)
        return "staged=%s unstaged=%s untracked=%s" % ({k: v for k, v in s.staged.items() if v}, s.unstaged, s.untracked)
    except Exception as e:
        return "RAISES %s: %s" % (type(e).__name__, str(e)[:90])


def show(tag, got, want):
    print("%-4s %s\n     expected: %s" % (tag, got, want))


# D1 — path_to_tree_path follows symlinks
r, root = repo({b"a": b"AB", b"l": ("link", b"nowhere")})
show("D1a", st(r), "clean (the tracked symlink 'l' is not untracked)")
os.symlink(b"a", os.path.join(root, b"u"))
show("D1b", st(r), "untracked=[b'u']  (an untracked symlink that points at a tracked file)")
r, root = repo({b"a": b"AB", b"l": ("link", b"a")})
porcelain.remove(r, paths=["l"], cached=True)
show("D1c", "index after `rm --cached l`: %s" % sorted(r.open_index()), "[b'a']  (the symlink's entry goes, not its target's)")
r, root = repo({b"a": ("link", b"a")})
show("D1d", st(r), "clean (a symlink that points at itself is a valid tree entry)")

# D2 — symlinks to directories are walked as directories
r, root = repo({b"d/x": b"x"})
os.symlink(b"d", os.path.join(root, b"u"))
show("D2a", st(r, untracked_files="all"), "untracked=[b'u']")
show("D2b", st(r, untracked_files="normal"), "untracked=[b'u']   (not b'u/')")

# D3 — executable bit / file<->symlink changes are invisible to status and to add
r, root = repo({b"a": b"AB", b"b": b"AB"})
os.chmod(os.path.join(root, b"a"), 0o755)
os.unlink(os.path.join(root, b"b"))
os.symlink(b"AB", os.path.join(root, b"b"))
show("D3a", st(r), "unstaged=[b'a', b'b']  (git: ' M a', ' T b')")
porcelain.add(r, paths=["."])
idx = r.open_index()
show("D3b", "modes after add('.'): a=%o b=%o" % (idx[b"a"].mode, idx[b"b"].mode), "a=100755 b=120000")

# D4 — a tracked directory replaced by a file: ENOTDIR is not handled
r, root = repo({b"d/x": b"x"})
shutil.rmtree(os.path.join(root, b"d"))
with open(os.path.join(root, b"d"), "wb") as f:
    f.write(b"x")
show("D4a", st(r), "unstaged=[b'd/x'] untracked=[b'd']")
try:
    porcelain.add(r, paths=["."])
    show("D4b", "add('.') -> index %s" % sorted(r.open_index()), "[b'd']")
except Exception as e:
    show("D4b", "add('.') RAISES %s" % type(e).__name__, "index [b'd']")

# D5 — names that are not UTF-8
r, root = repo({b"\xff\xfe": b"AB"})
show("D5a", st(r), "clean")
with open(os.path.join(root, b"\xff\xfe"), "wb") as f:
    f.write(b"ABC")
show("D5b", st(r), "unstaged=[b'\\xff\\xfe']")
try:
    porcelain.add(r, paths=["."])
    show("D5c", "add('.') ok; status: " + st(r), "staged modify [b'\\xff\\xfe']")
except Exception as e:
    show("D5c", "add('.') RAISES %s" % type(e).__name__, "stages the modification")

# D6 — an untracked directory that holds only symlinks
r, root = repo({b"a": b"x"})
os.mkdir(os.path.join(root, b"n"))
os.symlink(b"nowhere", os.path.join(root, b"n", b"u"))
show("D6", st(r), "untracked=[b'n/']")

# D7 — switching from a branch with d/x to a branch where d is a file
r, root = repo({b"d/x": b"x"})
first = r.head()
porcelain.branch_create(r, "other")
porcelain.checkout(r, "other")
shutil.rmtree(os.path.join(root, b"d"))
with open(os.path.join(root, b"d"), "wb") as f:
    f.write(b"x")
porcelain.remove(r, paths=["d/x"], cached=True)
r.get_worktree().stage(["d"])
r.get_worktree().commit(message=b"d is a file", committer=b"C <c@example.com>", author=b"A <a@example.com>")
porcelain.checkout(r, "master")  # file -> directory works
try:
    porcelain.checkout(r, "other")  # directory -> file
    show("D7", "checkout other: ok, d is a %s" % ("file" if os.path.isfile(os.path.join(root, b"d")) else "directory"), "ok, file")
except Exception as e:
    show("D7", "checkout other RAISES %s: %s" % (type(e).__name__, str(e)[:60]), "switches (the work tree is clean)")

# D8 — staging a file where the index has paths below it (and the reverse)
r, root = repo({b"d/x": b"x"})
shutil.rmtree(os.path.join(root, b"d"))
os.symlink(b"nowhere", os.path.join(root, b"d"))
porcelain.add(r, paths=["d"])
show("D8a", "index after add('d'): %s" % sorted(r.open_index()), "[b'd']  (b'd' and b'd/x' cannot both be in an index)")
r, root = repo({b"d/x": b"x", b"a": b"x"})
shutil.rmtree(os.path.join(root, b"d"))
porcelain.add(r, paths=["d"])
show("D8b", "index after rm -r d; add('d'): %s" % sorted(r.open_index()), "[b'a']")

r, root = repo({b"a": b"x", b"b": b"x"})
os.unlink(os.path.join(root, b"b"))
os.mkdir(os.path.join(root, b"b"))
with open(os.path.join(root, b"b", b"x"), "wb") as f:
    f.write(b"x")
porcelain.add(r, paths=["b"])
r.get_worktree().unstage(["b"])
show("D8c", "index after b -> b/x; add('b'); unstage('b'): %s" % sorted(r.open_index()), "[b'a', b'b']  (as in HEAD)")
r, root = repo({b"d/x": b"x"})
try:
    r.get_worktree().unstage(["d"])
    show("D8d", "unstage('d') where HEAD has d/x: index %s" % sorted(r.open_index()), "[b'd/x']")
except AssertionError:
    show("D8d", "unstage('d') where HEAD has d/x RAISES AssertionError", "index [b'd/x']  (git restore --staged d)")

# D9 — symlink loop makes the ignore manager raise ELOOP
r, root = repo({b"a": b"x"})
os.symlink(b"q", os.path.join(root, b"p"))
os.symlink(b"p", os.path.join(root, b"q"))
show("D9", st(r), "untracked=[b'p', b'q']")

# D10 — rm --cached of a tracked path whose directory has become a symlink
r, root = repo({b"d/e/z": b"x"})
shutil.rmtree(os.path.join(root, b"d", b"e"))
os.symlink(b"nowhere", os.path.join(root, b"d", b"e"))
try:
    porcelain.remove(r, paths=["d/e/z"], cached=True)
    show("D10", "index: %s" % sorted(r.open_index()), "[]")
except Exception as e:
    show("D10", "rm --cached d/e/z RAISES %s: %s" % (type(e).__name__, e), "removes the entry (git: rm 'd/e/z')")

# D11 — restoring a path whose bytes are already right leaves a wrong executable bit (and checkout(paths=) then stages it)
r, root = repo({b"a": b"AB"})
os.chmod(os.path.join(root, b"a"), 0o755)
porcelain.add(r, paths=["a"])
r.get_worktree().commit(message=b"x", committer=b"C <c@example.com>", author=b"A <a@example.com>")
os.chmod(os.path.join(root, b"a"), 0o644)
porcelain.reset_file(r, "a")
show("D11a", "reset_file('a') after chmod -x: mode %o" % (os.stat(os.path.join(root, b"a")).st_mode & 0o777), "755 (HEAD has 100755)")
porcelain.checkout(r, paths=["a"])
show("D11b", "checkout(paths=['a']): file mode %o, index mode %o" % (os.stat(os.path.join(root, b"a")).st_mode & 0o777, r.open_index()[b"a"].mode),
     "755 / 100755  (git checkout HEAD -- a)")

# D12 — a file deleted by hand survives in the index when switching to a branch that does not have it
r, root = repo({b"a": b"x", b"b": b"y"})
porcelain.branch_create(r, "other")
porcelain.checkout(r, "other")
porcelain.remove(r, paths=["a"])
r.get_worktree().commit(message=b"no a", committer=b"C <c@example.com>", author=b"A <a@example.com>")
porcelain.checkout(r, "master")
os.unlink(os.path.join(root, b"a"))
porcelain.checkout(r, "other")
show("D12", "rm a; checkout other: index %s, %s" % (sorted(r.open_index()), st(r)), "index [b'b'], clean  (git: clean)")

# D13 — a negation in a nested .gitignore does not override the parent's pattern
r, root = repo({b".gitignore": b"*.log\n", b"sub/.gitignore": b"!keep.log\n", b"sub/t": b"x"})
for name in (b"sub/keep.log", b"sub/other.log", b"top.log"):
    with open(os.path.join(root, name), "wb") as f:
        f.write(b"k")
show("D13", st(r, untracked_files="all"), "untracked=[b'sub/keep.log']  (git status: ?? sub/keep.log)")

shutil.rmtree(base, ignore_errors=True)
sys.exit(0)
