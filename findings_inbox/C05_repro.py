"""C05 finding 1 — stand-alone reproduction (plain dulwich calls + C git as the server).

A depth-limited fetch over a stateful transport (git://, ssh, subprocess) loses the server's
"shallow <sha>" answer when it arrives while the client is still sending "have" lines: the
receiver ends up with a commit whose parent is absent and with an EMPTY shallow file, i.e. a
repository that is no longer complete (and that dulwich itself then trips over).

The race is made deterministic here by a can_read() that waits 0.3 s before polling (= a server
that answers quickly, the normal case on a LAN).  Run:  /venv/bin/python C05_repro.py [repo-root]
"""
import os
import shutil
import subprocess
import sys
import tempfile
import time

sys.path.insert(0, sys.argv[1] if len(sys.argv) > 1 else "/repo")
from dulwich.client import SubprocessGitClient  # noqa: E402
from dulwich.repo import Repo  # noqa: E402

top = tempfile.mkdtemp(dir="/dev/shm" if os.path.isdir("/dev/shm") else None)
env = dict(os.environ, GIT_AUTHOR_NAME="a", GIT_AUTHOR_EMAIL="a@x", GIT_COMMITTER_NAME="a", GIT_COMMITTER_EMAIL="a@x",
           GIT_CONFIG_NOSYSTEM="1", HOME=top)
os.environ.pop("GIT_PROTOCOL", None)  # protocol v0, as dulwich's git:// and ssh clients talk to most servers


def git(*a, cwd):
    return subprocess.run(["git", *a], cwd=cwd, env=env, check=True, capture_output=True).stdout.strip()


try:
    src = os.path.join(top, "src")
    os.mkdir(src)
    git("init", "-q", "-b", "old", cwd=src)
    git("commit", "-q", "--allow-empty", "-m", "A (root, the receiver has it)", cwd=src)
    git("checkout", "-q", "--orphan", "new", cwd=src)
    git("commit", "-q", "--allow-empty", "-m", "B (root)", cwd=src)
    git("commit", "-q", "--allow-empty", "-m", "C (child of B)", cwd=src)
    a, b, c = (git("rev-parse", r, cwd=src) for r in ("old", "new~1", "new"))

    dst = Repo.init_bare(os.path.join(top, "dst"), mkdir=True)
    SubprocessGitClient().fetch(src, dst, determine_wants=lambda refs, depth=None: [a])
    dst.refs[b"refs/heads/old"] = a  # offered as "have"

    class Client(SubprocessGitClient):
        def _connect(self, cmd, path, protocol_version=None):
            proto, can_read, stderr = super()._connect(cmd, path, protocol_version)
            return proto, (lambda: (time.sleep(0.3), can_read())[1]), stderr

    res = Client().fetch(src, dst, determine_wants=lambda refs, depth=None: [c], depth=1)
    dst.refs[b"refs/remotes/origin/new"] = c
    print("server said shallow:", res.new_shallow, " (git itself would record", c.decode(), ")")
    print("dst.get_shallow()  :", dst.get_shallow())
    print("C present:", c in dst.object_store, " parent B present:", b in dst.object_store)
    try:
        n = len(list(dst.get_walker(include=[c])))
        print("walk from C ok,", n, "commits")
    except Exception as e:
        print("walk from C fails:", type(e).__name__, e)
    fsck = subprocess.run(["git", "fsck", "--connectivity-only"], cwd=dst.path, env=env, capture_output=True, text=True)
    print("git fsck:", (fsck.stdout + fsck.stderr).strip().splitlines()[:2])
    bad = c in dst.object_store and b not in dst.object_store and c not in dst.get_shallow()
    print("DEFECT REPRODUCED" if bad else "not reproduced")
    dst.close()
    sys.stdout.flush()
    shutil.rmtree(top, ignore_errors=True)
    os._exit(1 if bad else 0)
finally:
    shutil.rmtree(top, ignore_errors=True)
