"""The seeded property-breaking changes used to show that C14 can fail (see props/C14.NOTES.md).
Each block edits a scratch worktree at /dev/shm/bw-C14 (never /repo): git -C /repo worktree add --detach /dev/shm/bw-C14 HEAD;
run one block; VERIF_REPO=/dev/shm/bw-C14 ./check C14 --tier quick; git -C /dev/shm/bw-C14 checkout .
"""
import sys
which = sys.argv[1]

if which == "m1":
    # M1: commit-graph reader takes the second parent from the first slot
    p = "/dev/shm/bw-C14/dulwich/commit_graph.py"; s = open(p).read()
    old = "                parents.append(oids[parent2_pos])\n"
    new = "                parents.append(oids[parent1_pos])\n"
    assert s.count(old) == 1; open(p, "w").write(s.replace(old, new))

if which == "m1b":
    # M1b: extra edge list read one entry too far (octopus merges)
    p = "/dev/shm/bw-C14/dulwich/commit_graph.py"; s = open(p).read()
    old = "        offset = index * 4\n"
    new = "        offset = (index + 1) * 4\n"
    assert s.count(old) == 1; open(p, "w").write(s.replace(old, new))

if which == "m2":
    # M2: bitmap bit positions assigned in pack (offset) order instead of index order
    p = "/dev/shm/bw-C14/dulwich/bitmap.py"; s = open(p).read()
    old = "    for pos, (sha, _offset, _crc32) in enumerate(pack_index.iterentries()):\n        sha_to_pos[sha] = pos\n\n    if progress:\n        progress(\"Selecting commits for bitmap\")"
    new = "    for pos, (sha, _offset, _crc32) in enumerate(\n        sorted(pack_index.iterentries(), key=lambda e: e[1])\n    ):\n        sha_to_pos[sha] = pos\n\n    if progress:\n        progress(\"Selecting commits for bitmap\")"
    assert s.count(old) == 1; open(p, "w").write(s.replace(old, new))

if which == "m3":
    # M3: peeled lines of packed-refs are ignored
    p = "/dev/shm/bw-C14/dulwich/refs.py"; s = open(p).read()
    old = "                        if peeled:\n                            self._peeled_refs[name] = peeled\n"
    new = "                        if peeled:\n                            pass\n"
    assert s.count(old) == 1; open(p, "w").write(s.replace(old, new))

if which == "m4":
    # M4: a multi-pack-index hit whose pack is gone is final (no fall back to the packs)
    p = "/dev/shm/bw-C14/dulwich/object_store.py"; s = open(p).read()
    old = "                except (KeyError, PackFileDisappeared):\n                    # Pack disappeared or object not found, fall through to standard lookup\n                    pass\n"
    new = "                except PackFileDisappeared:\n                    # Pack disappeared, fall through to standard lookup\n                    pass\n"
    assert s.count(old) == 1; open(p, "w").write(s.replace(old, new))

if which == "m5":
    # M5: the packed-refs cache is never revalidated against the file
    p = "/dev/shm/bw-C14/dulwich/refs.py"; s = open(p).read()
    old = "            and self._packed_refs_key != self._current_packed_refs_key()\n"
    new = "            and False\n"
    assert s.count(old) == 1; open(p, "w").write(s.replace(old, new))

if which == "m6":
    # M6: commit-graph writer stores the two parents in swapped slots
    p = "/dev/shm/bw-C14/dulwich/commit_graph.py"; s = open(p).read()
    old = "            elif len(entry.parents) == 2:\n                parent1_pos = oid_to_index.get(entry.parents[0], GRAPH_PARENT_MISSING)\n                parent2_pos = oid_to_index.get(entry.parents[1], GRAPH_PARENT_MISSING)\n"
    new = "            elif len(entry.parents) == 2:\n                parent1_pos = oid_to_index.get(entry.parents[1], GRAPH_PARENT_MISSING)\n                parent2_pos = oid_to_index.get(entry.parents[0], GRAPH_PARENT_MISSING)\n"
    assert s.count(old) == 1; open(p, "w").write(s.replace(old, new))

if which == "m7":
    # M7: version-1 pack index: offsets of neighbouring entries swapped
    p = "/dev/shm/bw-C14/dulwich/pack.py"; s = open(p).read()
    old = "    def _unpack_offset(self, i: int) -> int:\n        offset = (0x100 * 4) + (i * self._entry_size)\n        return int(unpack_from(\">L\", self._contents, offset)[0])\n\n    def _unpack_crc32_checksum(self, i: int) -> None:\n        # Not stored in v1 index files"
    new = "    def _unpack_offset(self, i: int) -> int:\n        offset = (0x100 * 4) + ((i ^ 1) * self._entry_size)\n        return int(unpack_from(\">L\", self._contents, offset)[0])\n\n    def _unpack_crc32_checksum(self, i: int) -> None:\n        # Not stored in v1 index files"
    assert s.count(old) == 1; open(p, "w").write(s.replace(old, new))
