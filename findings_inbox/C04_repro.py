"""Stand-alone reproductions for the C04 findings (plain dulwich calls, no harness).

    /venv/bin/python /verif/findings_inbox/C04_repro.py [F1 F2 F3 F6 F7 F8 F9]      (default: all)

Every reproduction prints what it observes; F1 is run under a 5 s alarm because it does not end.
"""

import hashlib
import io
import os
import shutil
import signal
import struct
import sys
import tempfile
import zlib

sys.path.insert(0, os.environ.get("VERIF_REPO", "/repo"))

from dulwich.object_format import DEFAULT_OBJECT_FORMAT as OF  # noqa: E402
from dulwich.object_store import DiskObjectStore, MemoryObjectStore  # noqa: E402
from dulwich.objects import Blob, Commit, Tree  # noqa: E402
from dulwich.pack import Pack, write_pack_index_v2, write_pack_objects  # noqa: E402

SCRATCH = tempfile.mkdtemp(prefix="c04repro-", dir="/dev/shm" if os.path.isdir("/dev/shm") else None)


def hdr(type_num, size):
    c = (type_num << 4) | (size & 15)
    size >>= 4
    out = bytearray()
    while size:
        out.append(c | 0x80)
        c = size & 0x7F
        size >>= 7
    out.append(c)
    return bytes(out)


def pack_of(entries):
    body = b"".join(entries)
    data = b"PACK" + struct.pack(">LL", 2, len(entries)) + body
    return data + hashlib.sha1(data).digest()


def blob_entry(data):
    return hdr(3, len(data)) + zlib.compress(data)


def ref_delta_entry(base_id, delta):
    return hdr(7, len(delta)) + base_id + zlib.compress(delta)


def three_objects():
    b = Blob.from_string(b"hello\n")
    t = Tree()
    t.add(b"a", 0o100644, b.id)
    c = Commit()
    c.tree = t.id
    c.author = c.committer = b"A <a@example.com>"
    c.author_time = c.commit_time = 1000000000
    c.author_timezone = c.commit_timezone = 0
    c.message = b"one\n"
    return [b, t, c]


def valid_pack():
    f = io.BytesIO()
    write_pack_objects(f.write, [(o, None) for o in three_objects()], object_format=OF)
    return f.getvalue()


def F1():
    """Pack.get_raw never returns on two REF deltas that name each other (forged idx)."""
    n0, n1 = hashlib.sha1(b"n0").digest(), hashlib.sha1(b"n1").digest()
    delta = b"\x03\x03\x03abc"  # base size 3, result size 3, insert "abc"
    e0, e1 = ref_delta_entry(n1, delta), ref_delta_entry(n0, delta)
    data = pack_of([e0, e1])
    base = os.path.join(SCRATCH, "pack-cycle")
    with open(base + ".pack", "wb") as f:
        f.write(data)
    with open(base + ".idx", "wb") as f:
        write_pack_index_v2(f, sorted([(n0, 12, 0), (n1, 12 + len(e0), 0)]), data[-20:])
    print("F1: %d-byte pack, two REF deltas naming each other" % len(data))

    def alarm(*a):
        raise TimeoutError("still running after 5 s")

    signal.signal(signal.SIGALRM, alarm)
    signal.alarm(5)
    try:
        print("F1: get_raw ->", Pack(base, object_format=OF).get_raw(n0))
    except TimeoutError as e:
        print("F1: Pack.get_raw:", e)
    except Exception as e:
        print("F1: Pack.get_raw raised %s: %s   (fixed)" % (type(e).__name__, e))
    finally:
        signal.alarm(0)


def F2():
    """MemoryObjectStore: a pack that fails half way leaves its first objects in the store."""
    blob = b"second blob\n"
    missing = hashlib.sha1(b"no such object").digest()
    data = pack_of([blob_entry(blob), ref_delta_entry(missing, b"\x03\x03\x03abc")])
    for how in ("add_pack+commit", "add_thin_pack"):
        store = MemoryObjectStore()
        try:
            if how == "add_thin_pack":
                store.add_thin_pack(io.BytesIO(data).read, None)
            else:
                f, commit, abort = store.add_pack()
                f.write(data)
                commit()
            print("F2: %s succeeded?!" % how)
        except Exception as e:
            print("F2: %s raised %s; objects now in the store: %r" % (how, type(e).__name__, sorted(store)))


def F3():
    """DiskObjectStore.add_pack().commit(): the rollback of a pack that fails validation is itself
    defeated by BufferError; the broken pack stays installed."""
    data = valid_pack()[:-1]  # the last byte of the trailer never arrived
    root = os.path.join(SCRATCH, "f3")
    os.makedirs(os.path.join(root, "pack"))
    store = DiskObjectStore(root)
    f, commit, abort = store.add_pack()
    f.write(data)
    try:
        commit()
        print("F3: commit() succeeded?!")
    except Exception as e:
        print("F3: commit() raised %s: %s" % (type(e).__name__, e))
    fresh = DiskObjectStore(root)
    print("F3: pack directory:", sorted(os.listdir(os.path.join(root, "pack"))))
    for i in sorted(fresh):
        try:
            fresh.get_raw(i)
            print("F3:   visible", i.decode(), "readable")
        except Exception as e:
            print("F3:   visible", i.decode(), "UNREADABLE: %s" % type(e).__name__)


def _small_pair():
    data = valid_pack()
    root = os.path.join(SCRATCH, "pair")
    shutil.rmtree(root, ignore_errors=True)
    os.makedirs(os.path.join(root, "pack"))
    store = DiskObjectStore(root)
    f, commit, abort = store.add_pack()
    f.write(data)
    pack = commit()
    base = pack._basename
    store.close()
    return root, base


def _vmpeak():
    with open("/proc/self/status") as f:
        for line in f:
            if line.startswith("VmPeak:"):
                return int(line.split()[1])
    return 0


def F6():
    """read_bitmap: one damaged byte in a word count -> MemoryError / a reservation of gigabytes."""
    from dulwich.bitmap import generate_bitmap, read_bitmap, write_bitmap

    root, base = _small_pair()
    store = DiskObjectStore(root)
    pk = Pack(base, object_format=OF)
    tip = [o for o in three_objects() if o.type_name == b"commit"][0].id
    bm = generate_bitmap(pack_index=pk.index, object_store=store, refs={b"refs/heads/main": tip}, pack_checksum=pk.get_stored_checksum())
    write_bitmap(base + ".bitmap", bm)
    with open(base + ".bitmap", "rb") as f:
        good = f.read()
    import resource

    resource.setrlimit(resource.RLIMIT_AS, (2 << 30, 2 << 30))
    for flip in (0x80, 0x04):  # word count of the first type bitmap: bytes 36..39
        bad = bytearray(good)
        bad[36] ^= flip
        with open(base + ".bitmap", "wb") as f:
            f.write(bad)
        before = _vmpeak()
        try:
            read_bitmap(base + ".bitmap", pack_index=pk.index)
            print("F6: byte 36 ^= %#x: read without error" % flip)
        except BaseException as e:
            print("F6: byte 36 ^= %#x of a %d-byte bitmap: %s %s; peak address space grew by %d MiB (limit 2 GiB)" % (
                flip, len(good), type(e).__name__, e, (_vmpeak() - before) >> 10))


def F9():
    """EWAH run-length bomb: a 76-byte .bitmap expands, bit by bit, into a Python set of 2**24 (or 2**32) ints."""
    import resource
    import time

    from dulwich.bitmap import read_bitmap

    root, base = _small_pair()
    pk = Pack(base, object_format=OF)

    def ewah(bit_count, words):
        return struct.pack(">II", bit_count, len(words)) + b"".join(struct.pack(">Q", w) for w in words) + struct.pack(">I", 0)

    run_words = 1 << 18  # x 64 = 2**24 bits set
    data = b"BITM" + struct.pack(">HHI", 1, 1, 0) + pk.get_stored_checksum() + ewah(1 << 24, [1 | (run_words << 1)]) + ewah(0, []) * 3
    with open(base + ".bitmap", "wb") as f:
        f.write(data)
    resource.setrlimit(resource.RLIMIT_AS, (4 << 30, 4 << 30))
    before, t = _vmpeak(), time.process_time()
    try:
        bm = read_bitmap(base + ".bitmap", pack_index=pk.index)
        print("F9: %d-byte bitmap of a %d-object pack read in %.1f s CPU; commit bitmap has %d bits; peak address space +%d MiB" % (
            len(data), len(pk), time.process_time() - t, len(bm.commit_bitmap), (_vmpeak() - before) >> 10))
    except Exception as e:
        print("F9: read_bitmap raised %s: %s   (fixed)" % (type(e).__name__, e))


def F7():
    """commit-graph reader: one damaged byte in a chunk offset -> MemoryError."""
    from dulwich.commit_graph import read_commit_graph

    root, base = _small_pair()
    store = DiskObjectStore(root)
    tip = [o for o in three_objects() if o.type_name == b"commit"][0].id
    store.write_commit_graph([tip])
    p = os.path.join(root, "info", "commit-graph")
    with open(p, "rb") as f:
        good = f.read()
    bad = bytearray(good)
    bad[8 + 12 + 4 + 2] ^= 0x20  # third byte of the second table-of-contents offset
    with open(p, "wb") as f:
        f.write(bad)
    try:
        read_commit_graph(p)
        print("F7: read without error")
    except BaseException as e:
        print("F7: one bit flipped in a %d-byte commit-graph: %s %s" % (len(good), type(e).__name__, e))


def F8():
    """pack index: fan-out table not checked against the file size."""
    root, base = _small_pair()
    with open(base + ".idx", "rb") as f:
        good = f.read()
    bad = bytearray(good)
    bad[8 + 255 * 4] ^= 0x10  # most significant byte of the last fan-out entry: 3 -> 268435459 objects
    with open(base + ".idx", "wb") as f:
        f.write(bad)
    import resource

    resource.setrlimit(resource.RLIMIT_AS, (2 << 30, 2 << 30))
    pk = Pack(base, object_format=OF)
    try:
        print("F8: len(pack) =", len(pk))
        print("F8: names:", len(list(pk.index)))
    except BaseException as e:
        print("F8: one bit flipped in a %d-byte idx: iterating the index raised %s (address space limit 2 GiB)" % (len(good), type(e).__name__))


def G1():
    """The per-call inflation bound "declared + 1" turns into "no limit" once exactly declared + 1 bytes have come out:
    a 128 KiB pack whose single entry declares 65528 bytes makes every pack reader inflate 64 MiB."""
    import resource

    from dulwich.pack import PackData

    filler = bytes((i * 7 + 3) % 251 + 1 for i in range(65536 - 2 - 5))  # stored block: zlib header + 5 + filler = exactly 64 KiB of input
    zeros = bytes(64 << 20)
    co = zlib.compressobj(9, zlib.DEFLATED, -15)
    bomb = co.compress(zeros) + co.flush()
    z = b"\x78\x9c\x00" + struct.pack("<HH", len(filler), len(filler) ^ 0xFFFF) + filler + bomb + struct.pack(">L", zlib.adler32(filler + zeros))
    data = pack_of([hdr(3, len(filler) - 1) + z])  # declared = what the first 64 KiB inflate to, minus one

    import tracemalloc

    for how in ("PackData.iter_unpacked (buffer reader)", "MemoryObjectStore.add_thin_pack (stream reader)"):
        tracemalloc.start()
        try:
            if how.startswith("PackData"):
                list(PackData.from_file(io.BytesIO(data), OF).iter_unpacked())
            else:
                MemoryObjectStore().add_thin_pack(io.BytesIO(data).read, None)
            print("G1: %s accepted?!" % how)
        except Exception as e:
            print("G1: %d-byte pack, entry declares %d bytes: %s raised %s(%s) after allocating up to %d MiB" % (
                len(data), len(filler) - 1, how, type(e).__name__, e, tracemalloc.get_traced_memory()[1] >> 20))
        tracemalloc.stop()


def G2():
    """Bundle.store_objects / porcelain.unpack_objects add objects while the pack is still being resolved."""
    from dulwich.bundle import Bundle
    from dulwich.pack import PackData

    blob = b"second blob\n"
    missing = hashlib.sha1(b"no such object").digest()
    data = pack_of([blob_entry(blob), ref_delta_entry(missing, b"\x03\x03\x03abc")])
    store = MemoryObjectStore()
    b = Bundle()
    b.version, b.capabilities, b.prerequisites, b.references = 2, {}, [], {}
    b.pack_data = PackData.from_file(io.BytesIO(data), OF)
    try:
        b.store_objects(store)
        print("G2: store_objects succeeded?!")
    except Exception as e:
        print("G2: Bundle.store_objects raised %s; objects now in the store: %r" % (type(e).__name__, sorted(store)))
    b.close()
    from dulwich import porcelain
    from dulwich.repo import Repo

    root = os.path.join(SCRATCH, "g2")
    os.makedirs(root)
    Repo.init_bare(root).close()
    data = pack_of([blob_entry(blob), hdr(2, 14) + zlib.compress(b"100644 a\x00short")])  # a blob and a tree that does not parse
    with open(os.path.join(SCRATCH, "in.pack"), "wb") as f:
        f.write(data)
    e0 = blob_entry(blob)
    with open(os.path.join(SCRATCH, "in.idx"), "wb") as f:
        write_pack_index_v2(f, sorted([(hashlib.sha1(b"blob %d\x00" % len(blob) + blob).digest(), 12, 0), (hashlib.sha1(b"x").digest(), 12 + len(e0), 0)]), data[-20:])
    try:
        porcelain.unpack_objects(os.path.join(SCRATCH, "in.pack"), root)
        print("G2: unpack_objects succeeded?!")
    except Exception as e:
        r = Repo(root)
        print("G2: porcelain.unpack_objects raised %s; objects now in the repository: %r" % (type(e).__name__, sorted(r.object_store)))
        r.close()


if __name__ == "__main__":
    which = sys.argv[1:] or ["F1", "F2", "F3", "F6", "F7", "F8", "F9", "G1", "G2"]
    try:
        for w in which:
            globals()[w]()
    finally:
        shutil.rmtree(SCRATCH, ignore_errors=True)
