"""C05 finding 2 — stand-alone reproduction (plain dulwich calls + C git as the server).

A normal (no depth) fetch over protocol v2 into a repository that is already shallow returns
successfully WITHOUT reading the pack: the v2 response starts with a `shallow-info` section the
client does not expect, it mistakes the delim-pkt for the end of the side-band stream, and the
caller gets a FetchPackResult although not a single object arrived.

Run:  /venv/bin/python C05_repro2.py [repo-root]     (exit 1 = defect reproduced)
"""
import os
import shutil
import subprocess
import sys
import tempfile

sys.path.insert(0, sys.argv[1] if len(sys.argv) > 1 else "/repo")
from dulwich.client import SubprocessGitClient  # noqa: E402
from dulwich.repo import Repo  # noqa: E402

top = tempfile.mkdtemp(dir="/dev/shm" if os.path.isdir("/dev/shm") else None)
env = dict(os.environ, GIT_AUTHOR_NAME="a", GIT_AUTHOR_EMAIL="a@x", GIT_COMMITTER_NAME="a", GIT_COMMITTER_EMAIL="a@x",
           GIT_CONFIG_NOSYSTEM="1", HOME=top)
os.environ["GIT_PROTOCOL"] = "version=2"  # what ssh/http transports negotiate with any modern server


def git(*a, cwd):
    return subprocess.run(["git", *a], cwd=cwd, env=env, check=True, capture_output=True).stdout.strip()


try:
    src = os.path.join(top, "src")
    os.mkdir(src)
    git("init", "-q", "-b", "main", cwd=src)
    git("commit", "-q", "--allow-empty", "-m", "A", cwd=src)
    git("commit", "-q", "--allow-empty", "-m", "B", cwd=src)
    git("branch", "other", "main~1", cwd=src)
    a, b = (git("rev-parse", r, cwd=src) for r in ("main~1", "main"))

    dst = Repo.init_bare(os.path.join(top, "dst"), mkdir=True)
    SubprocessGitClient().fetch(src, dst, determine_wants=lambda refs, depth=None: [b], depth=1)
    dst.refs[b"refs/remotes/origin/main"] = b
    print("after `fetch --depth=1 main`: shallow =", dst.get_shallow())

    res = SubprocessGitClient().fetch(src, dst, determine_wants=lambda refs, depth=None: [a])  # branch `other`
    print("second fetch (no depth) of", a.decode()[:10], "returned normally:", type(res).__name__)
    got = a in dst.object_store
    print("object arrived:", got)
    dst.close()
    print("not reproduced" if got else "DEFECT REPRODUCED")
    sys.stdout.flush()
    shutil.rmtree(top, ignore_errors=True)
    os._exit(0 if got else 1)
finally:
    shutil.rmtree(top, ignore_errors=True)
