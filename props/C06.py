"""C06 — a push reports success exactly for the refs it changed; server refs stay valid.

E3-style exhaustive enumeration: all server ref states x all command lists (<=2 quick, <=3
thorough) x capability sets, through ReceivePackHandler.handle() fed real pkt-lines (disk repo and
MemoryRepo) and through LocalGitClient.send_pack; oracle = 30-line receive-pack semantics.
E1: two pushers racing on the same refs at system-call granularity; the reports and the final ref
map must be explained by some sequential order of the two pushes.
"""

from __future__ import annotations

import itertools
import os
from io import BytesIO

from engines import sysched
from engines.common import Acc, HarnessError, fresh_dir, pmap_acc, rmtree, rp, split

ZERO = b"0" * 40
R1 = b"refs/heads/r1"
R2 = b"refs/heads/r2"
RN = b"refs/heads/new"
C3 = b"3" * 40  # exists nowhere


# --------------------------------------------------------------------------- fixtures

_OBJ = {}


def objs():
    if _OBJ:
        return _OBJ
    from dulwich.objects import Blob, Commit, Tag, Tree

    def commit(tree, parents, msg, t):
        c = Commit()
        c.tree = tree.id
        c.parents = parents
        c.author = c.committer = b"A <a@example.com>"
        c.author_time = c.commit_time = t
        c.author_timezone = c.commit_timezone = 0
        c.message = msg
        return c

    b = Blob.from_string(b"base\n")
    t = Tree()
    t.add(b"f", 0o100644, b.id)
    c1 = commit(t, [], b"c1\n", 1000)
    c2 = commit(t, [c1.id], b"c2\n", 2000)
    b4 = Blob.from_string(b"only in the pack\n")
    t4 = Tree()
    t4.add(b"f", 0o100644, b4.id)
    c4 = commit(t4, [c2.id], b"c4\n", 4000)
    tag = Tag()
    tag.name = b"t5"
    tag.object = (Commit, c1.id)
    tag.tagger = b"A <a@example.com>"
    tag.tag_time = 1500
    tag.tag_timezone = 0
    tag.message = b"tag\n"
    _OBJ.update(b=b, t=t, c1=c1, c2=c2, b4=b4, t4=t4, c4=c4, tag=tag)
    return _OBJ


def names():
    o = objs()
    return {ZERO: "0", o["c1"].id: "c1", o["c2"].id: "c2", C3: "c3(missing)", o["c4"].id: "c4(in pack)", o["tag"].id: "t5", None: "-"}


def nm(v):
    if isinstance(v, dict):
        return {k.decode().split("/")[-1]: nm(x) for k, x in sorted(v.items())}
    return names().get(v, v)


def make_repo(kind, path, state, packed=False):
    """state: {ref: sha}.  Server store holds b, t, c1, c2, tag."""
    from dulwich.repo import MemoryRepo, Repo

    o = objs()
    if kind == "disk":
        os.makedirs(path)
        r = Repo.init_bare(path)
    else:
        r = MemoryRepo()
    for k in ("b", "t", "c1", "c2", "tag"):
        r.object_store.add_object(o[k])
    for ref, v in state.items():
        r.refs[ref] = v
    if kind == "disk":
        r.refs.set_symbolic_ref(b"HEAD", R1)
        if packed:
            r.refs.pack_refs(all=True)
    return r


def pack_bytes(with_c4):
    from dulwich.object_format import SHA1
    from dulwich.pack import write_pack_objects

    o = objs()
    f = BytesIO()
    lst = [(o[k], None) for k in ("b4", "t4", "c4")] if with_c4 else []
    write_pack_objects(f.write, lst, SHA1, deltify=False)
    return f.getvalue()


# names check-ref-format refuses, and one that collides as file/directory with r1.  Not in the list: names with a space (not
# representable in a command line), and HEAD / names outside refs/ (the statement does not forbid a server to accept them).
BAD_NAMES = [b"refs/heads/bad..name", b"refs/heads/x.lock", b"refs/heads/.hidden", b"refs/heads/end.", b"refs/heads/at@{x",
             b"refs/heads/r1/sub"]


# --------------------------------------------------------------------------- reference model


def model(state, store, cmds, atomic, delete_refs=True, pack_has_c4=False, pack_ok=True, df_conflicts=True):
    """Returns (reports {ref: 'ok'|'ng'}, final_state).  30-line receive-pack semantics."""
    o = objs()
    have = set(store)
    if pack_ok and pack_has_c4:
        have |= {o["c4"].id, o["t4"].id, o["b4"].id}
    st = dict(state)

    def applicable(cur_state, old, new, ref):
        from engines.refmodels import refname

        if not refname.valid(ref):
            return False  # "funny refname"
        cur = cur_state.get(ref, ZERO)
        if cur != old:
            return False
        if df_conflicts and new != ZERO and any(k != ref and (k.startswith(ref + b"/") or ref.startswith(k + b"/")) for k in cur_state):
            return False  # would have to be a file and a directory at once (files backend only)
        if new == ZERO:
            return delete_refs
        return new in have

    def apply(cur_state, old, new, ref):
        if new == ZERO:
            cur_state.pop(ref, None)
        else:
            cur_state[ref] = new

    rep = {}
    if not pack_ok:
        return {ref: "ng" for _, _, ref in cmds}, st
    if atomic:
        tmp = dict(st)
        ok = True
        for old, new, ref in cmds:
            if not applicable(tmp, old, new, ref):
                ok = False
                break
            apply(tmp, old, new, ref)
        if ok:
            return {ref: "ok" for _, _, ref in cmds}, tmp
        return {ref: "ng" for _, _, ref in cmds}, st
    for old, new, ref in cmds:
        if applicable(st, old, new, ref):
            apply(st, old, new, ref)
            rep[ref] = "ok"
        else:
            rep[ref] = "ng"
    return rep, st


# --------------------------------------------------------------------------- driving the handler


def run_handler(repo, cmds, caps, pack):
    """Feed real pkt-lines to ReceivePackHandler.handle(); returns (unpack_status, {ref: ('ok'|'ng', reason)})."""
    from dulwich.protocol import Protocol, pkt_line
    from dulwich.server import DictBackend, ReceivePackHandler

    inp = BytesIO()
    first = True
    for old, new, ref in cmds:
        line = old + b" " + new + b" " + ref
        if first:
            line += b"\0" + b" ".join(caps)
            first = False
        inp.write(pkt_line(line + b"\n"))
    inp.write(b"0000")
    if pack is not None:
        inp.write(pack)
    inp.seek(0)
    out = BytesIO()
    proto = Protocol(inp.read, out.write)
    h = ReceivePackHandler(DictBackend({b"/": repo}), [b"/"], proto, stateless_rpc=True)
    h.handle()
    return parse_report(out.getvalue(), b"side-band-64k" in caps)


def parse_report(data, sideband):
    from engines.refmodels import pktline

    frames, st = pktline.decode_prefixwise(data)
    if st != "ok":
        raise HarnessError("server output is not a pkt-line stream: %r" % data[:200])
    if sideband:
        inner = b""
        for f in frames:
            if f is None:
                continue
            if f[:1] == b"\x01":
                inner += f[1:]
        frames, st = pktline.decode_prefixwise(inner)
        if st != "ok":
            raise HarnessError("side-band payload is not a pkt-line stream: %r" % inner[:200])
    unpack = None
    rep = {}
    for f in frames:
        if f is None:
            continue
        line = f.rstrip(b"\n")
        if line.startswith(b"unpack "):
            unpack = line[7:]
        elif line.startswith(b"ok "):
            rep[line[3:]] = ("ok", b"")
        elif line.startswith(b"ng "):
            ref, _, why = line[3:].partition(b" ")
            rep[ref] = ("ng", why)
    return unpack, rep


def read_refs(repo):
    out = {}
    for k in repo.refs.allkeys():
        if k == b"HEAD":
            continue
        try:
            out[k] = repo.refs[k]
        except KeyError:
            pass
    return out


# --------------------------------------------------------------------------- one case


def case_push(acc, kind, state, packed, cmds, atomic, sideband, delete_refs, via):
    """via: 'handler' | 'local-client'."""
    o = objs()
    state = {k: v for k, v in state.items()}
    cmds = [tuple(c) for c in cmds]
    d = fresh_dir("c06")
    try:
        repo = make_repo(kind, os.path.join(d, "srv"), state, packed)
        store = {o[k].id for k in ("b", "t", "c1", "c2", "tag")}
        needs_pack = any(new != ZERO for _, new, _ in cmds)
        with_c4 = any(new == o["c4"].id for _, new, _ in cmds)
        want_rep, want_state = model(state, store, cmds, atomic, delete_refs, with_c4, df_conflicts=(kind == "disk"))
        acc.count("pushes")
        rpl = rp(case_push, kind, state, packed, [list(c) for c in cmds], atomic, sideband, delete_refs, via)
        desc = "%s/%s%s state=%r cmds=%r atomic=%s" % (
            via, kind, "+packed" if packed else "", nm(state),
            [(r.decode().split("/")[-1], nm(old), nm(new)) for old, new, r in cmds], atomic)
        if via == "handler":
            caps = [b"report-status"] + ([b"atomic"] if atomic else []) + ([b"side-band-64k"] if sideband else []) + ([b"delete-refs"] if delete_refs else [])
            if not delete_refs:
                # narrow the server's advertised capabilities
                from dulwich.server import ReceivePackHandler

                orig = ReceivePackHandler.capabilities
                ReceivePackHandler.capabilities = lambda self: [c for c in orig(self) if c != b"delete-refs"]
            try:
                try:
                    unpack, rep = run_handler(repo, cmds, caps, pack_bytes(with_c4) if needs_pack else None)
                except Exception as e:
                    from dulwich.errors import GitProtocolError

                    if isinstance(e, GitProtocolError) and not delete_refs:
                        # aborting the connection is a legitimate answer to a client that sends a delete
                        # without the server having offered delete-refs; nothing is reported, so only
                        # the validity of the refs can be judged
                        acc.outcome("no-delete-refs:protocol-error")
                        for ref, v in read_refs(repo).items():
                            if v not in repo.object_store:
                                acc.violation("receive-pack:handler:ref-names-missing-object", "%s: %s" % (desc, ref.decode()), rpl)
                        return
                    else:
                        acc.violation("receive-pack:handler-raises:%s" % type(e).__name__, "%s: %r" % (desc, e), rpl)
                        return
            finally:
                if not delete_refs:
                    ReceivePackHandler.capabilities = orig
            got_rep = {ref: st for ref, (st, why) in rep.items()}
        else:
            from dulwich.client import LocalGitClient

            src = make_repo("mem", None, {})
            for k in ("b4", "t4", "c4"):
                src.object_store.add_object(o[k])
            new_refs = {}
            for old, new, ref in cmds:
                new_refs[ref] = new
            srv_path = os.path.join(d, "srv")

            def update_refs(refs):
                out = dict(refs)
                out.pop(b"HEAD", None)
                for old, new, ref in cmds:
                    out[ref] = new
                return out

            def gen(have, want, ofs_delta=False, progress=None):
                lst = [(o[k], None) for k in ("b4", "t4", "c4")] if with_c4 else []
                return len(lst), iter([])  # objects are supplied below through a real pack

            try:
                c = LocalGitClient()
                from dulwich.pack import pack_objects_to_data

                def gen2(have, want, ofs_delta=False, progress=None):
                    lst = [(o[k], None) for k in ("b4", "t4", "c4")] if with_c4 else []
                    return pack_objects_to_data(lst)

                kw = {"atomic": True} if atomic else {}
                res = c.send_pack(srv_path, update_refs, gen2, **kw)
                got_rep = {}
                for old, new, ref in cmds:
                    st = (res.ref_status or {}).get(ref)
                    got_rep[ref] = "ok" if st is None else "ng"
            except Exception as e:
                # the local client reports a refused push by raising: all commands count as rejected
                got_rep = {ref: "ng" for _, _, ref in cmds}
                acc.outcome("local-client-raises:%s" % type(e).__name__)
            # the local path compares against the *client's own view* of old values: it reads the
            # current refs, so every command is issued with the right old value
        final = read_refs(repo) if kind == "disk" else read_refs(repo)
        if kind == "disk":
            from dulwich.repo import Repo

            fresh = Repo(os.path.join(d, "srv"))
            final = read_refs(fresh)
            srv_store = fresh.object_store
        else:
            srv_store = repo.object_store
        # every ref names an object the server has
        for ref, v in final.items():
            if v not in srv_store:
                acc.violation("receive-pack:%s:ref-names-missing-object" % via, "%s: %s -> %s not in the server store" % (desc, ref.decode(), nm(v)), rpl)
                break
        if via == "local-client":
            # oracle for the local path: reports truthful w.r.t. the final state, refs valid, atomicity
            for old, new, ref in cmds:
                holds = final.get(ref, ZERO) == new
                if got_rep[ref] == "ok" and not holds:
                    acc.violation("send_pack:local:reported-ok-but-ref-does-not-hold-value", "%s: %s reported ok, is %s" % (desc, ref.decode(), nm(final.get(ref))), rpl)
                    break
            if atomic:
                applied = [final.get(ref, ZERO) == new and state.get(ref, ZERO) != new for old, new, ref in cmds]
                changed = [final.get(ref, ZERO) != state.get(ref, ZERO) for old, new, ref in cmds]
                must = [state.get(ref, ZERO) != new for old, new, ref in cmds]
                if any(changed) and not all(c or not m for c, m in zip(changed, must)):
                    acc.violation("send_pack:local:atomic-push-partially-applied", "%s: final %r" % (desc, nm(final)), rpl)
            acc.outcome("local:%s" % ",".join(got_rep[r] for _, _, r in cmds))
            if kind == "disk":
                fresh.close()
            return
        acc.outcome("%s:%s" % ("atomic" if atomic else "plain", ",".join("%s/%s" % (want_rep[r], got_rep.get(r, "none")) for _, _, r in cmds)))
        # reported ok <=> applied
        for old, new, ref in cmds:
            w, g = want_rep[ref], got_rep.get(ref)
            if g is None:
                acc.violation("receive-pack:no-status-for-ref", "%s: no status line for %s" % (desc, ref.decode()), rpl)
                break
            if w != g:
                cur = state.get(ref, ZERO)
                if g == "ok":
                    why = ("stale-old-value" if cur != old else "new-value-missing-from-store" if new != ZERO else "delete-without-capability")
                    if atomic and cur == old and (new == ZERO or new in store or new == o["c4"].id):
                        why = "atomic-sibling-failed"
                    acc.violation("receive-pack:reported-ok-but-must-be-rejected:%s" % why,
                                  "%s: %s reported ok; current was %s; final %s" % (desc, ref.decode(), nm(cur), nm(final.get(ref))), rpl)
                else:
                    acc.violation("receive-pack:reported-ng-but-applicable", "%s: %s reported ng (%r)" % (desc, ref.decode(), rep[ref][1]), rpl)
                break
        if final != want_state:
            diff = [r for r in set(final) | set(want_state) if final.get(r) != want_state.get(r)]
            r0 = sorted(diff)[0]
            cmd0 = [c for c in cmds if c[2] == r0]
            kindv = "atomic-push-partially-applied" if atomic and want_state == state else (
                "ref-changed-although-old-value-stale" if cmd0 and state.get(r0, ZERO) != cmd0[0][0] else
                "ref-set-to-missing-object" if cmd0 and final.get(r0) == cmd0[0][1] and cmd0[0][1] not in store | {o["c4"].id} else "final-refs-differ-from-model")
            acc.violation("receive-pack:%s" % kindv, "%s: final refs %r, expected %r" % (desc, nm(final), nm(want_state)), rpl)
        if kind == "disk":
            fresh.close()
    finally:
        rmtree(d)


# --------------------------------------------------------------------------- enumeration


def server_states():
    o = objs()
    vals = [None, o["c1"].id, o["c2"].id]
    for a, b in itertools.product(vals, repeat=2):
        st = {}
        if a:
            st[R1] = a
        if b:
            st[R2] = b
        yield st


def commands():
    o = objs()
    for ref in (R1, R2, RN):
        for old in (ZERO, o["c1"].id, o["c2"].id):
            for new in (ZERO, o["c1"].id, o["c2"].id, C3, o["c4"].id):
                yield (old, new, ref)


def command_lists(maxlen):
    cs = list(commands())
    for c in cs:
        yield [c]
    if maxlen >= 2:
        for a, b in itertools.permutations(cs, 2):
            if a[2] != b[2]:
                yield [a, b]
    if maxlen >= 3:
        # triples: one command per ref, restricted new values (keeps the space ~50k)
        o = objs()
        small = [c for c in cs if c[1] in (ZERO, o["c2"].id, C3)]
        for a, b, c in itertools.product([x for x in small if x[2] == R1], [x for x in small if x[2] == R2], [x for x in small if x[2] == RN]):
            yield [a, b, c]


def case_history(acc, state, packed, pushes, atomic):
    """A history of several pushes against one server (disk, optionally with packed refs): every push is
    judged against the model state left by the previous ones."""
    o = objs()
    d = fresh_dir("c06h")
    try:
        from dulwich.repo import Repo

        repo = make_repo("disk", os.path.join(d, "srv"), dict(state), packed)
        repo.close()
        store = {o[k].id for k in ("b", "t", "c1", "c2", "tag")}
        cur = dict(state)
        caps = [b"report-status", b"delete-refs"] + ([b"atomic"] if atomic else [])
        rpl = rp(case_history, state, packed, [[list(c) for c in p] for p in pushes], atomic)
        for i, cmds in enumerate(pushes):
            cmds = [tuple(c) for c in cmds]
            repo = Repo(os.path.join(d, "srv"))
            try:
                needs_pack = any(new != ZERO for _, new, _ in cmds)
                with_c4 = any(new == o["c4"].id for _, new, _ in cmds)
                want_rep, want_state = model(cur, store, cmds, atomic, True, with_c4)
                if with_c4 and any(want_rep[r] == "ok" for _, n_, r in cmds if n_ == o["c4"].id) or with_c4:
                    store |= {o["c4"].id, o["t4"].id, o["b4"].id}
                unpack, rep = run_handler(repo, cmds, caps, pack_bytes(with_c4) if needs_pack else None)
            finally:
                repo.close()
            fresh = Repo(os.path.join(d, "srv"))
            try:
                final = read_refs(fresh)
            finally:
                fresh.close()
            acc.count("history_pushes")
            got = {ref: st for ref, (st, _) in rep.items()}
            desc = "history%s state=%r pushes=%r (push %d)" % ("+packed" if packed else "", nm(state),
                                                              [[(r.decode().split("/")[-1], nm(a), nm(b)) for a, b, r in p] for p in pushes], i + 1)
            if got != want_rep:
                acc.violation("receive-pack:history:report-differs-from-model", "%s: reported %r, expected %r" % (desc, got, want_rep), rpl)
                return
            if final != want_state:
                acc.violation("receive-pack:history:final-refs-differ-from-model", "%s: refs %r, expected %r" % (desc, nm(final), nm(want_state)), rpl)
                return
            cur = want_state
        acc.outcome("history:%d pushes ok" % len(pushes))
    finally:
        rmtree(d)


def work(task):
    acc = Acc()
    for args in task:
        if args[0] == "history":
            case_history(acc, *args[1:])
        else:
            case_push(acc, *args)
    return acc


# --------------------------------------------------------------------------- races (E1)


def local_push(srv_path, cmds, atomic, seen=None):
    """One push through LocalGitClient.send_pack; returns {ref: 'ok'|'ng'} as the client reports it.
    `seen` receives the ref values the client read (they are the old values it conditions its updates on)."""
    from dulwich.client import LocalGitClient
    from dulwich.pack import pack_objects_to_data

    def update_refs(refs):
        if seen is not None:
            seen.update(refs)
        out = dict(refs)
        out.pop(b"HEAD", None)
        for old, new, ref in cmds:
            out[ref] = new
        return out

    def gen(have, want, ofs_delta=False, progress=None):
        return pack_objects_to_data([])

    res = LocalGitClient().send_pack(srv_path, update_refs, gen, **({"atomic": True} if atomic else {}))
    return {ref: ("ok" if (res.ref_status or {}).get(ref) is None else "ng") for old, new, ref in cmds}


class PushRace(sysched.Scenario):
    nactors = 2
    via = "handler"

    def __init__(self, state, cmds0, cmds1, atomic, packed=False):
        self.state = state
        self.cmds = [cmds0, cmds1]
        self.atomic = atomic
        self.packed = packed
        self.name = ("packed " if packed else "") + "race state=%r A=%r B=%r atomic=%s" % (
            nm(state), [(r.decode().split("/")[-1], nm(a), nm(b)) for a, b, r in cmds0],
            [(r.decode().split("/")[-1], nm(a), nm(b)) for a, b, r in cmds1], atomic)

    def setup(self, root):
        r = make_repo("disk", os.path.join(root, "srv"), self.state, self.packed)
        cfg = r.get_config()
        cfg.set((b"gc",), b"auto", b"0")
        cfg.write_to_path()
        r.close()

    def actor(self, i, root, rec):
        from dulwich.repo import Repo

        repo = Repo(os.path.join(root, "srv"))
        try:
            caps = [b"report-status", b"delete-refs"] + ([b"atomic"] if self.atomic else [])
            cmds = self.cmds[i]
            needs_pack = any(new != ZERO for _, new, _ in cmds)
            rec("call", i)
            if self.via == "local-client":
                class _Seen(dict):
                    def update(self_, refs):  # noqa: N805
                        dict.update(self_, refs)
                        # the client conditions each update on the value it read itself
                        rec("effective", [(self_.get(ref, ZERO), new, ref) for old, new, ref in cmds])

                seen = _Seen()
                try:
                    rep = local_push(os.path.join(root, "srv"), cmds, self.atomic, seen)
                    rec("ret", rep)
                except Exception as e:
                    rec("exc", "%s: %s" % (type(e).__name__, str(e)[:80]))
                return
            try:
                unpack, rep = run_handler(repo, cmds, caps, pack_bytes(False) if needs_pack else None)
                if unpack != b"ok":
                    # "unpack <error>": the whole push is rejected, no per-ref lines follow
                    rec("unpack-error", unpack[:60])
                    rec("ret", {ref: "ng" for _, _, ref in cmds})
                else:
                    rec("ret", {ref: st for ref, (st, _) in rep.items()})
            except Exception as e:
                rec("exc", "%s: %s" % (type(e).__name__, str(e)[:80]))
        finally:
            repo.close()

    def final_refs(self, ex, root):
        from dulwich.repo import Repo

        r = Repo(os.path.join(root, "srv"))
        try:
            return read_refs(r)
        finally:
            r.close()

    def check(self, ex, root):
        o = objs()
        store = {o[k].id for k in ("b", "t", "c1", "c2", "tag")}
        final = self.final_refs(ex, root)
        got = {}
        cmds_of = {0: self.cmds[0], 1: self.cmds[1]}
        for a, k, p, _ in ex.history:
            if k == "ret":
                got[a] = p
            elif k == "exc":
                got[a] = None  # errored: must have had no effect
            elif k == "effective":
                cmds_of[a] = [tuple(c) for c in p]
        ex.extra["outcome"] = "A=%r B=%r final=%r%s" % (got.get(0), got.get(1), nm(final), "".join(" unpack-error(%d)=%r" % (a, p) for a, k, p, _ in ex.history if k == "unpack-error"))
        if self.atomic:
            # an atomic push is one indivisible operation: some order of the two pushes explains everything
            for order in ((0, 1), (1, 0)):
                st = dict(self.state)
                ok = True
                for a in order:
                    if got.get(a) is None:
                        continue
                    if all(v == "ng" for v in got[a].values()):
                        continue  # a push rejected as a whole (possibly spuriously, under contention) has no effect
                    rep, st2 = model(st, store, cmds_of[a], True)
                    if rep != got[a]:
                        ok = False
                        break
                    st = st2
                if ok and st == final:
                    return []
        else:
            # a plain push is a sequence of independent per-ref updates: some interleaving of the two
            # command sequences (each in its own order) explains every report and the final refs
            seqs = [[(a, c) for c in cmds_of[a]] if got.get(a) is not None else [] for a in (0, 1)]
            n0, n1 = len(seqs[0]), len(seqs[1])
            for pos in itertools.combinations(range(n0 + n1), n0):
                merged = []
                i0 = i1 = 0
                for k in range(n0 + n1):
                    if k in pos:
                        merged.append(seqs[0][i0])
                        i0 += 1
                    else:
                        merged.append(seqs[1][i1])
                        i1 += 1
                st = dict(self.state)
                ok = True
                for a, c in merged:
                    if got[a].get(c[2]) == "ng":
                        continue  # rejected (possibly spuriously: the ref was locked): must have had no effect
                    rep, st = model(st, store, [c], False)
                    if rep[c[2]] != got[a].get(c[2]):
                        ok = False
                        break
                if ok and st == final:
                    return []
        if self.atomic:
            # Atomicity by undo is not isolation: while an atomic push that ends up rejected is being applied and
            # undone, another pusher may see (and condition its own update on) one of its transient values.  The
            # statement asks for truthful reports, CAS per ref and all-or-none *outcomes*, which we check directly:
            # per ref the accepted updates form a chain from the initial value, where a step may also start from a
            # value a rejected atomic push transiently installed.
            transient = {}
            for a in (0, 1):
                if got.get(a) is None or all(v == "ng" for v in got[a].values()):
                    for old, new, ref in cmds_of[a]:
                        transient.setdefault(ref, set()).add(new)
            allornone = all(got.get(a) is None or len(set(got[a].values())) <= 1 for a in (0, 1))
            okcmds = [(a, c) for a in (0, 1) if got.get(a) for c in cmds_of[a] if got[a].get(c[2]) == "ok"]
            refs_ = {c[2] for _, c in okcmds} | set(self.state) | set(final)
            chain_ok = allornone
            for ref in refs_:
                mine = [c for _, c in okcmds if c[2] == ref]
                ok_ref = False
                for perm in itertools.permutations(mine):
                    cur = self.state.get(ref, ZERO)
                    good = True
                    for old, new, _ in perm:
                        if old != cur and old not in transient.get(ref, ()):
                            good = False
                            break
                        cur = new
                    if good and cur == final.get(ref, ZERO):
                        ok_ref = True
                        break
                if not ok_ref:
                    chain_ok = False
            if chain_ok:
                ex.extra["outcome"] += " [explained with a transient value of a rolled-back atomic push]"
                return []
        kind = "both-report-success-for-contended-ref" if all(
            got.get(a) and all(v == "ok" for v in got[a].values()) for a in (0, 1)) else "reports-and-final-refs-not-explained-by-any-order"
        return [("receive-pack:race:%s" % kind, "%s -> %s" % (self.name, ex.extra["outcome"]))]


class MemPushRace(PushRace):
    """Two receive-pack requests served by threads of one process on ONE MemoryRepo (DictBackend).  There is no file
    system in between: scheduling points are the source lines of the ref container's methods, and the container's
    lock becomes a cooperative lock (as in C08's in-memory commit scenario)."""

    via = "handler-memory"

    def __init__(self, state, cmds0, cmds1, atomic, packed=False):
        import dulwich.refs

        super().__init__(state, cmds0, cmds1, atomic, False)
        self.trace_files = {dulwich.refs.__file__}
        self.trace_functions = {"set_if_equals", "add_if_new", "remove_if_equals", "__getitem__", "follow",
                                "read_ref", "read_loose_ref", "__setitem__", "__delitem__", "get_packed_refs"}
        dulwich.refs.threading = sysched.coop_threading

    def setup(self, root):
        pass

    def begin(self, ex, ctl, root):
        ex.extra["repo"] = make_repo("memory", None, self.state)

    def actor(self, i, root, rec):
        repo = rec.ex.extra["repo"]
        caps = [b"report-status", b"delete-refs"] + ([b"atomic"] if self.atomic else [])
        cmds = self.cmds[i]
        needs_pack = any(new != ZERO for _, new, _ in cmds)
        rec("call", i)
        try:
            unpack, rep = run_handler(repo, cmds, caps, pack_bytes(False) if needs_pack else None)
            if unpack != b"ok":
                rec("unpack-error", unpack[:60])
                rec("ret", {ref: "ng" for _, _, ref in cmds})
            else:
                rec("ret", {ref: st for ref, (st, _) in rep.items()})
        except Exception as e:
            rec("exc", "%s: %s" % (type(e).__name__, str(e)[:80]))

    def final_refs(self, ex, root):
        return read_refs(ex.extra["repo"])


def _race_scenario(state, c0, c1, atomic, packed, via):
    if via == "handler-memory":
        sc = MemPushRace(state, c0, c1, atomic)
    else:
        sc = PushRace(state, c0, c1, atomic, packed)
        sc.via = via
    if via != "handler":
        sc.name = "[%s] %s" % (via, sc.name)
    return sc


def work_race(task):
    acc = Acc()
    state, c0, c1, atomic, bound = task[:5]
    packed = task[5] if len(task) > 5 else False
    sc = _race_scenario(state, c0, c1, atomic, packed, task[6] if len(task) > 6 else "handler")
    st = sysched.explore_scenario(sc, bound, conflict_filter=(sc.via != "handler-memory"))
    acc.count("race_scenarios")
    acc.count("race_executions", st["executions"])
    acc.count("race_points", st["points_total"])
    for oc, n in st["outcomes"].items():
        acc.outcome("race:" + oc, n)
    if st["uninterposed"]:
        raise HarnessError("uninterposed access: %r" % st["uninterposed"])
    acc.sample({"scenario": st["scenario"][:200], "executions": st["executions"], "per_preemptions": st["per_preemptions"]}, cap=2)
    for v in st["violations"]:
        acc.violation(v["key"], "%s [schedule %s; %d schedule(s)]" % (v["summary"], v["choices"], v["count"]),
                      rp("case_race_replay", state, [list(c) for c in c0], [list(c) for c in c1], atomic, v["choices"], packed, sc.via))
    return acc


def case_race_replay(acc, state, c0, c1, atomic, choices, packed=False, via="handler"):
    sc = _race_scenario(state, [tuple(c) for c in c0], [tuple(c) for c in c1], atomic, packed, via)
    exp = sysched.Explorer(sc, 99)
    try:
        ex, viol = exp.replay(choices)
        for key, summary in viol:
            acc.violation(key, summary)
    finally:
        exp.close()


def run(ctx):
    q = ctx.quick
    o = objs()
    items = []
    lists = list(command_lists(2 if q else 3))
    for state in server_states():
        for cmds in lists:
            for atomic in (False, True):
                items.append(("disk", state, False, cmds, atomic, False, True, "handler"))
    # secondary axes on single commands and pairs touching r1: memory repo, packed refs, side-band, no delete-refs
    small = [c for c in lists if len(c) == 1 or (len(c) == 2 and c[0][2] == R1 and c[1][2] == R2 and c[1][1] in (ZERO, o["c2"].id, C3) and c[0][1] in (ZERO, o["c2"].id, C3))]
    for state in server_states():
        for cmds in small:
            for atomic in (False, True):
                items.append(("mem", state, False, cmds, atomic, False, True, "handler"))
                items.append(("disk", state, True, cmds, atomic, True, True, "handler"))
                items.append(("disk", state, False, cmds, atomic, False, False, "handler"))
    # names the server must refuse (git: "funny refname") or cannot store (file/directory conflict with an existing ref),
    # alone and next to a good command, before and after it
    c1_, c2_ = o["c1"].id, o["c2"].id
    for bad in BAD_NAMES:
        for state in ({R1: c1_}, {R1: c1_, R2: c2_}):
            for cmds in ([(ZERO, c1_, bad)], [(c1_, c2_, R1), (ZERO, c1_, bad)], [(ZERO, c1_, bad), (c1_, c2_, R1)], [(ZERO, c2_, bad), (c1_, ZERO, R1)]):
                for atomic in (False, True):
                    items.append(("disk", state, False, cmds, atomic, False, True, "handler"))
                    items.append(("mem", state, False, cmds, atomic, False, True, "handler"))
                    items.append(("disk", state, True, cmds, atomic, False, True, "handler"))
    # in-process local push path: command lists whose old values are the ones the client sees
    for state in server_states():
        for cmds in lists:
            if len(cmds) > 2 or not all(state.get(ref, ZERO) == old for old, new, ref in cmds):
                continue
            for atomic in (False, True):
                items.append(("disk", state, False, cmds, atomic, False, True, "local-client"))
    # histories of two pushes on one ref (update/delete/create chains over loose and packed refs)
    r1cmds = [c for c in commands() if c[2] == R1 and c[1] != C3]
    for state in server_states():
        for packed in (False, True):
            for a in r1cmds:
                for b in r1cmds:
                    items.append(("history", state, packed, [[a], [b]], False))
    tasks = split(ctx.order(items), ctx.jobs * 8)
    pmap_acc(work, tasks, ctx.acc, jobs=ctx.jobs)
    # races
    c1, c2 = o["c1"].id, o["c2"].id
    races = []
    for state in ({R1: c1}, {R1: c1, R2: c1}):
        for atomic in (False, True):
            races.append((state, [(c1, c2, R1)], [(c1, ZERO, R1)], atomic, 2 if q else 3))
            races.append((state, [(c1, c2, R1)], [(c1, c2, R1)], atomic, 2 if q else 3))
            if R2 in state:
                races.append((state, [(c1, c2, R1), (c1, c2, R2)], [(c1, ZERO, R2)], atomic, 2))
                races.append((state, [(c1, c2, R1), (c1, c2, R2)], [(c1, ZERO, R2), (c1, ZERO, R1)], atomic, 2))
    races.append(({}, [(ZERO, c1, RN)], [(ZERO, c2, RN)], False, 2 if q else 3))
    # two in-process local pushers (the client reads the refs, then applies its updates conditionally)
    races.append(({R1: c1}, [(c1, c2, R1)], [(c1, ZERO, R1)], False, 2 if q else 3, False, "local-client"))
    races.append(({R1: c1}, [(c1, c2, R1)], [(c1, c2, R1)], False, 2 if q else 3, True, "local-client"))
    races.append(({R1: c1, R2: c1}, [(c1, c2, R1), (c1, c2, R2)], [(c1, ZERO, R2)], True, 2, False, "local-client"))
    # ... racing to create the same ref (absent in both snapshots), and create vs. create-then-delete
    races.append(({}, [(ZERO, c1, RN)], [(ZERO, c2, RN)], False, 2 if q else 3, False, "local-client"))
    races.append(({R1: c1}, [(ZERO, c2, RN)], [(ZERO, c1, RN)], True, 2, False, "local-client"))
    races.append(({R1: c1}, [(ZERO, c2, RN), (c1, c2, R1)], [(ZERO, c1, RN)], False, 2, True, "local-client"))
    # two requests served by threads of one process on one MemoryRepo (line-level scheduling inside the ref container)
    races.append(({R1: c1}, [(c1, c2, R1)], [(c1, c2, R1)], False, 2, False, "handler-memory"))
    races.append(({R1: c1}, [(c1, c2, R1)], [(c1, ZERO, R1)], False, 2, False, "handler-memory"))
    races.append(({}, [(ZERO, c1, RN)], [(ZERO, c2, RN)], False, 2, False, "handler-memory"))
    races.append(({R1: c1, R2: c1}, [(c1, c2, R1), (c1, c2, R2)], [(c1, ZERO, R2)], True, 2, False, "handler-memory"))
    # the same contention on refs that live only in packed-refs
    races.append(({R1: c1}, [(c1, c2, R1)], [(c1, ZERO, R1)], False, 2 if q else 3, True))
    races.append(({R1: c1}, [(c1, c2, R1)], [(c1, c2, R1)], False, 2 if q else 3, True))
    races.append(({R1: c1, R2: c1}, [(c1, c2, R1), (c1, c2, R2)], [(c1, ZERO, R2), (c1, ZERO, R1)], True, 2, True))
    pmap_acc(work_race, ctx.order(races), ctx.acc, jobs=ctx.jobs)
    n = ctx.acc.n
    ctx.level = "model_checking"
    ctx.coverage.update(
        states=9,
        transitions=n.get("pushes", 0),
        traces_validated_against_impl=n.get("pushes", 0) + n.get("race_executions", 0),
        evaluations=n.get("pushes", 0) + n.get("race_executions", 0),
        distinct_nontrivial=len(ctx.acc.classes),
        rule="all 9 server ref states (r1,r2 in {absent,c1,c2}) x all command lists of <=%d commands over refs {r1,r2,new} x old {0,c1,c2} x new {0,c1,c2,missing,in-pack} "
             "(distinct refs per list) x atomic on/off through ReceivePackHandler.handle() with real pkt-lines on a disk repo; MemoryRepo / packed refs + side-band / no delete-refs "
             "on the single commands and r1-pairs; LocalGitClient.send_pack on the lists whose old values are current; E1 races of two handlers with <=2-3 preemptions "
             "(conflict-filtered). distinct_nontrivial = distinct (expected/reported) status vectors." % (2 if q else 3),
        exhaustive=True,
        race_executions=n.get("race_executions", 0),
    )
    ctx.assumptions += [
        "reference semantics: a command is applicable iff current == old (zero = absent) and the new value is zero or present in store+pack; atomic applies all iff all applicable",
        "a GitProtocolError for a delete without the delete-refs capability counts as rejecting every command",
        "racing pushers are processes sharing only the repository directory",
    ]


def replay(ctx, obj):
    import sys

    from engines.common import replay_generic

    return replay_generic(sys.modules[__name__], ctx, obj)
