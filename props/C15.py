"""C15 — Rust extensions and pure-Python fallbacks are observationally equivalent.

Every function with two implementations is called, on every element of a declared finite input
space, once in an interpreter that binds the Rust extension rebuilt from the working tree
(common.rust_paths(), loaded by path) and once in a sibling interpreter in which the extension
imports are blocked before dulwich is imported (so every public name is the pure-Python twin).
Both run inside the E6 sandbox, so aborts, panics and hangs are observations.

    parse_tree          token strings of tree entries (mode x separator x name x NUL x id length),
                        <= 3 entries, both id lengths, strict on/off; all raw strings over a small alphabet
    sorted_tree_items   all dicts of <= 3 (4) entries over prefix-related names x {file, dir}
                        x every insertion order x name_order on/off
    apply_delta         the C03 hostile space (exhaustive short strings + structured families)
    create_delta        the C03 pair space; outputs may differ, all four encoder/decoder pairings must
                        give back the target
    bisect_find_sha     all sorted tables of <= 4 ids of a 5-id universe x every probe x all (start, end)
                        around the table, incl. start > end, negative, and tables placed at the 32-bit limits
    _merge_entries      all pairs of trees of <= 2 (3) entries x path prefix
    _is_tree            every entry kind, None, mode None
    _count_blocks       all blobs over {a, LF, NUL} of length <= 6 (8) + line lengths 63/64/65, 2^16+-1,
                        x chunkings
    repository level    tree ids, Tree.from_string().items()/check(), tree_changes + rename detection,
                        deltified pack write + read-back — same results with and without the extensions

Oracle (the statement): same return value, or failure in both (exception classes may differ; a
panic, a killed process or a hang is never "failure").
"""

from __future__ import annotations

import itertools
import re

from engines import deltaspace as ds
from engines import sandbox
from engines.common import Acc, HarnessError, pmap_acc, replay_generic, rp, split
from engines.refmodels import delta as refdelta

SETUP = "props.C15:sb_setup"
SETUP_ARG = ["B0", "B1", "B3", "B5", "BL", "BA", "BK"]
CALL = "props.C15:sb_call"
FAST = {"wall_s": 90, "cpu_s": 5, "max_timeouts": 3}  # the CPU limit decides; the wall clock only catches sleeping hangs

_RELEASE = [False]  # thorough tier runs a second pass against the release build


def pools(release=False):
    rs = sandbox.get_pool("rust-release" if release else "rust", setup=SETUP, setup_arg=SETUP_ARG)
    py = sandbox.get_pool("py", setup=SETUP, setup_arg=SETUP_ARG)
    return rs, py


# =========================================================================== sandbox side


def sb_setup(arg):
    import dulwich.diff_tree  # noqa: F401
    import dulwich.objects  # noqa: F401
    import dulwich.pack  # noqa: F401

    return ds.sb_setup(arg)


_TREES = {}


def _tree(desc):
    """desc: None or a tuple of (name, mode, hexsha) in insertion order."""
    if desc is None:
        return None
    t = _TREES.get(desc)
    if t is None:
        from dulwich.objects import Tree

        t = Tree()
        for name, mode, sha in desc:
            t.add(name, mode, sha)
        if len(_TREES) > 5000:
            _TREES.clear()
        _TREES[desc] = t
    return t


def _entry(e):
    return None if e is None else (e.path, e.mode, e.sha)


def _table(ids, offset):
    n = len(ids)

    def unpack_name(i):
        k = i - offset
        if 0 <= k < n:
            return ids[k]
        raise IndexError("index %d outside the table" % i)

    return unpack_name


_SCRATCH = [0]


def _scratch_dir():
    import os

    _SCRATCH[0] += 1
    d = os.path.join(os.getcwd(), "c15-%d-%d" % (os.getpid(), _SCRATCH[0]))
    os.makedirs(d)
    return d


def sb_call(x):
    """x = (function name, args...) -> normalised result.  Exceptions propagate to the sandbox."""
    fn = x[0]
    if fn == "parse_tree":
        from dulwich.objects import parse_tree

        _, text, sha_len, strict = x
        return [tuple(e) for e in parse_tree(text, sha_len=sha_len, strict=strict)]
    if fn == "sorted_tree_items":
        from dulwich.objects import sorted_tree_items

        _, items, name_order = x
        d = {}
        for name, mode, sha in items:
            d[name] = (mode, sha)
        return [(e.path, e.mode, e.sha) for e in sorted_tree_items(d, name_order)]
    if fn == "apply_delta":
        return ds.sb_decode(x[1:])
    if fn == "create_delta":
        return ds.sb_encode(x[1:])
    if fn == "bisect_find_sha":
        from dulwich.pack import bisect_find_sha

        _, ids, offset, start, end, probe = x
        return bisect_find_sha(start, end, probe, _table(ids, offset))
    if fn == "_merge_entries":
        from dulwich.diff_tree import _merge_entries

        _, path, d1, d2 = x
        return [(_entry(a), _entry(b)) for a, b in _merge_entries(path, _tree(d1), _tree(d2))]
    if fn == "_is_tree":
        from dulwich.diff_tree import _is_tree
        from dulwich.objects import TreeEntry

        _, what = x
        if what == "none":
            return _is_tree(None)
        return _is_tree(TreeEntry(b"x", what, b"1" * 40))
    if fn == "_count_blocks":
        from dulwich.diff_tree import _count_blocks
        from dulwich.objects import Blob

        _, chunks = x
        b = Blob()
        b.chunked = list(chunks)
        return sorted(dict(_count_blocks(b)).items())
    if fn == "repo_tree":
        from dulwich.objects import Tree

        _, items = x
        t = Tree()
        for name, mode, sha in items:
            t.add(name, mode, sha)
        return (t.id, t.as_raw_string(), [tuple(e) for e in t.items()])
    if fn == "repo_parse":
        from dulwich.objects import Tree

        _, text = x
        t = Tree.from_string(text)
        items = [tuple(e) for e in t.items()]
        try:
            t.check()
            chk = "ok"
        except Exception as e:  # both configurations must agree on *whether* it passes
            chk = "rejected"
            del e
        return (items, chk, t.id)
    if fn == "repo_diff":
        from dulwich.diff_tree import RenameDetector, tree_changes
        from dulwich.object_store import MemoryObjectStore
        from dulwich.objects import Blob

        _, blobs, d1, d2, harder = x
        store = MemoryObjectStore()
        ids = []
        for content in blobs:
            b = Blob.from_string(content)
            store.add_object(b)
            ids.append(b.id)

        def mk(desc):
            t = _tree(tuple((n, m, ids[k]) for n, m, k in desc))
            store.add_object(t)
            return t.id

        t1, t2 = mk(d1), mk(d2)
        det = RenameDetector(store, find_copies_harder=harder)
        out = []
        for c in tree_changes(store, t1, t2, rename_detector=det, include_trees=False):
            out.append((c.type, _entry(c.old), _entry(c.new)))
        return out
    if fn == "repo_pack":
        import shutil

        from dulwich.object_format import SHA1
        from dulwich.objects import Blob
        from dulwich.pack import Pack, write_pack

        _, contents, window = x
        objs = [Blob.from_string(c) for c in contents]
        d = _scratch_dir()
        try:
            base = d + "/pack-x"
            write_pack(base, [(o, None) for o in objs], SHA1, deltify=True, delta_window_size=window)
            p = Pack(base, object_format=SHA1)
            try:
                got = []
                ndelta = 0
                for o in objs:
                    t, data = p.get_raw(o.id)
                    got.append((o.id, t, bytes(data)))
                listing = sorted(p.index)
                for u in p.data.iter_unpacked():
                    if u.pack_type_num in (6, 7):
                        ndelta += 1
                missing = (b"f" * 40) in p
            finally:
                p.close()
            return (got, listing, missing, ndelta > 0)
        finally:
            shutil.rmtree(d, ignore_errors=True)
    raise AssertionError(fn)


# =========================================================================== comparison


def _slug(s, n=50):
    s = re.sub(r"[0-9]+", "N", s)
    return re.sub(r"[^A-Za-z]+", "_", s).strip("_")[:n] or "x"


def bad_of(obs):
    if obs.kind == "sig":
        return "killed-" + obs.value
    if obs.kind == "timeout":
        return "timeout-" + obs.value
    if obs.kind == "exit":
        return "process-exited"
    if obs.kind == "exc":
        cls, mro, msg = obs.value
        if "PanicException" in mro or cls.startswith("pyo3_runtime"):
            return "panic:" + _slug(msg)
    return None


def compare(acc: Acc, fn, feature, o_rs, o_py, show, replay, tag="rust"):
    """The statement: same return value, or failure in both."""
    acc.count("comparisons")
    acc.count("comparisons:" + fn)
    if o_rs.kind == "skipped" or o_py.kind == "skipped":  # circuit breaker of the sandbox
        acc.count("skipped_after_timeouts")
        acc.outcome("eq:%s:skipped-after-timeouts" % fn)
        return True
    b_rs, b_py = bad_of(o_rs), bad_of(o_py)
    rel = None
    if isinstance(feature, tuple):  # (name used when a process dies / hangs, name used when values diverge)
        feature = feature[0] if (b_rs or b_py) else feature[1]
    if b_rs or b_py:
        side, b = (tag, b_rs) if b_rs else ("python", b_py)
        rel = "%s-%s" % (side, b)
        if not b.startswith("panic:"):
            rel += ":" + feature
    elif o_rs.kind == "ret" and o_py.kind == "ret":
        if o_rs.value != o_py.value:
            rel = "results-differ:" + feature
    elif o_rs.kind == "ret":
        rel = "%s-returns-python-raises:%s" % (tag, feature)
    elif o_py.kind == "ret":
        rel = "python-returns-%s-raises:%s" % (tag, feature)
    if rel is None:
        if o_rs.kind == "ret":
            acc.outcome("eq:%s:same-value" % fn)
        else:
            acc.outcome("eq:%s:both-fail:%s/%s" % (fn, o_rs.value[0].rsplit(".", 1)[-1], o_py.value[0].rsplit(".", 1)[-1]))
        return True
    acc.outcome("eq:%s:DIVERGE:%s" % (fn, rel.split(":")[0]))

    def short(o):
        if o.kind == "ret":
            return "returns %s" % (repr(o.value)[:160],)
        if o.kind == "exc":
            return "raises %s(%s)" % (o.value[0], o.value[2][:80])
        return "%s %s" % (o.kind, o.value)

    acc.violation("equiv:%s:%s" % (fn, rel), "%s: %s %s | python %s" % (show, tag, short(o_rs), short(o_py)), replay)
    return False


def run_cmp(acc: Acc, fn, inputs, feature_of, show_of, replay_of, aux=None):
    """inputs: list of sb_call argument tuples (without the function name).
    aux(acc, value) -> value: strips (and records) parts of a returned value that are not compared."""
    if not inputs:
        return
    rs, py = pools(_RELEASE[0])
    tag = "rust-release" if _RELEASE[0] else "rust"
    calls = [(fn,) + tuple(i) for i in inputs]
    r_rs, r_py = sandbox.observe_all([(rs, CALL, calls), (py, CALL, calls)], **FAST)
    for i, a, b in zip(inputs, r_rs, r_py):
        if aux is not None:
            a, b = [o._replace(value=aux(acc, o.value)) if o.kind == "ret" else o for o in (a, b)]
        compare(acc, fn, feature_of(i), a, b, show_of(i), replay_of(i), tag=tag)


def case_call(acc: Acc, fn, args, release=False):
    """Replay entry: one input of one function in both configurations."""
    old = _RELEASE[0]
    _RELEASE[0] = bool(release)
    try:
        args = _retuple(args)
        FAMILIES[fn](acc, [tuple(args)])
    finally:
        _RELEASE[0] = old


def _retuple(o):
    """JSON replay turns the hashable descriptors into lists; make them tuples again."""
    if isinstance(o, list):
        return tuple(_retuple(x) for x in o)
    if isinstance(o, tuple):
        return tuple(_retuple(x) for x in o)
    return o


def _rp(fn, i):
    return rp(case_call, fn, tuple(i), _RELEASE[0])


# =========================================================================== parse_tree

MODES = [b"100644", b"40000", b"100755", b"120000", b"160000", b"0100644", b"0", b"00", b"+100644", b"+0", b"-1", b"-0",
         b"1_0", b"_1", b"\t7", b"7\n", b"7\x0b", b" 7", b"0o7", b"0O7", b"0x7", b"0b1", b"", b"777777777777", b"37777777777",
         b"40000000000", b"8", b"9", b"a", b"\xff", b"\xd9\xa1"]
NAMES = [b"a", b"", b"a/b", b"\xff"]
IDLENS = [0, 19, 20, 21, 32]
VALID = [(b"100644", b"f"), (b"40000", b"d")]


def _entry_bytes(mode, sep, name, nul, idlen, k):
    return mode + (b" " if sep else b"") + name + (b"\0" if nul else b"") + bytes([0xA0 + k]) * idlen


def parse_tree_texts(sha_len, thorough):
    """All token strings of <= 3 entries in which at most one entry is arbitrary (the others are
    valid entries), plus all pairs of entries from a reduced token set.  (A few texts occur twice;
    they are simply evaluated twice.)"""
    arb = [(m, s, n, z, l) for m in MODES for s in (True, False) for n in NAMES for z in (True, False) for l in IDLENS]
    val = [_entry_bytes(m, True, n, True, sha_len, 5 + i) for i, (m, n) in enumerate(VALID)]
    ctxs = [((), ())]
    ctxs += [((v,), ()) for v in val] + [((), (v,)) for v in val]
    ctxs += [((v,), (w,)) for v in val for w in val] + [((v, w), ()) for v in val for w in val] + [((), (v, w)) for v in val for w in val]
    for pre, post in ctxs:
        pre, post = b"".join(pre), b"".join(post)
        for a in arb:
            yield pre + _entry_bytes(*a, 0) + post
    names = (b"a", b"") if thorough else (b"a",)
    seps = (True, False) if thorough else (True,)
    red = [_entry_bytes(m, s, n, z, l, 0) for m in MODES for s in seps for n in names for z in (True, False)
           for l in (sha_len - 1, sha_len, sha_len + 1)]
    red2 = [_entry_bytes(m, s, n, z, l, 1) for m in MODES for s in seps for n in names for z in (True, False)
            for l in (sha_len - 1, sha_len, sha_len + 1)]
    for ea in red:
        for eb in red2:
            yield ea + eb


RAW_ALPHA_Q = [b"1", b"0", b" ", b"\0", b"a"]
RAW_ALPHA_T = [b"1", b"0", b"7", b" ", b"\0", b"a", b"-"]


def parse_tree_raw(thorough):
    alpha, n = (RAW_ALPHA_T, 5) if thorough else (RAW_ALPHA_Q, 4)
    for s in ds.strings(alpha, n):
        yield s
        yield s + b"i" * 20
        yield s + b"i" * 32


_WS = b"\t\n\r\x0b\x0c "


def mode_feature(mode_text: bytes):
    if mode_text == b"":
        return "empty"
    if any(c in _WS for c in mode_text):
        return "whitespace"
    if mode_text[:1] == b"-":
        return "minus-sign"
    core = mode_text[1:] if mode_text[:1] == b"+" else mode_text
    if core and all(c in b"01234567" for c in core):
        if int(core, 8) > 0xFFFFFFFF:
            return "value-above-u32"
        if core is not mode_text:
            return "plus-sign"
        if mode_text[:1] == b"0":
            return "leading-zero"
        return None
    if mode_text[:1] == b"+":
        return "plus-sign"
    if b"_" in mode_text:
        return "underscore"
    if mode_text[:2].lower() in (b"0o", b"0x", b"0b"):
        return "radix-prefix"
    return "non-octal-character"


def _int8_accepts(mode_text):
    try:
        int(mode_text, 8)
        return True
    except ValueError:
        return False


_STRICT_OCTAL = re.compile(rb"\+?[0-7]+\Z")


def _u32_radix8_accepts(mode_text):
    return bool(_STRICT_OCTAL.match(mode_text)) and int(mode_text, 8) <= 0xFFFFFFFF


def parse_tree_feature(i):
    """Name of the mode token that explains a divergence: the first one on which Python's int(x, 8)
    and a plain unsigned 32-bit octal parse disagree; failing that, the first irregular token.
    (Only used to name violation classes, never for the verdict.)"""
    text, sha_len, strict = i
    pos = 0
    first = None
    while pos < len(text):
        sp = text.find(b" ", pos)
        if sp < 0:
            first = first or "no-space"
            break
        mt = text[pos:sp]
        f = mode_feature(mt)
        if f and _int8_accepts(mt) != _u32_radix8_accepts(mt):
            return "mode-" + f
        if f and not (f == "leading-zero" and not strict):
            first = first or "mode-" + f
        nul = text.find(b"\0", sp)
        if nul < 0:
            first = first or "no-nul"
            break
        pos = nul + 1 + sha_len
    if first:
        return first
    if pos > len(text):
        return "id-truncated"
    return "regular"


def fam_parse_tree(acc, inputs):
    run_cmp(acc, "parse_tree", inputs, parse_tree_feature,
            lambda i: "parse_tree(%r, sha_len=%d, strict=%s)" % (i[0][:60], i[1], i[2]), lambda i: _rp("parse_tree", i))


# =========================================================================== sorted_tree_items

STI_NAMES = [b"a", b"a.b", b"a/", b"ab", b"a-", b"a0", b"a/b"]
FILE, DIR = 0o100644, 0o40000


def sti_inputs(max_entries):
    sha = b"1" * 40
    yield ((), True)
    yield ((), False)
    for k in range(1, max_entries + 1):
        for names in itertools.combinations(STI_NAMES, k):
            for kinds in itertools.product((FILE, DIR), repeat=k):
                ents = tuple((n, m, sha) for n, m in zip(names, kinds))
                for perm in itertools.permutations(ents):
                    yield (perm, True)
                    yield (perm, False)


def sti_feature(i):
    items = i[0]
    if any(b"/" in n for n, _, _ in items):
        return "name-contains-slash"
    return "regular"


def fam_sorted_tree_items(acc, inputs):
    run_cmp(acc, "sorted_tree_items", inputs, sti_feature,
            lambda i: "sorted_tree_items({%s}, name_order=%s)" % (", ".join("%r:%o" % (n, m) for n, m, _ in i[0]), i[1]),
            lambda i: _rp("sorted_tree_items", i))


# =========================================================================== apply_delta / create_delta


def delta_feature(i):
    bref, d, form = i
    return refdelta.analyse(len(ds.base_of(bref)), d).features()[0]


def delta_feature_full(i):
    bref, d, form = i
    a = refdelta.analyse(len(ds.base_of(bref)), d)
    f = a.features()
    # value divergences sit at the first instruction that does not fit: name it when there is one;
    # deaths and hangs are named after the header anomaly
    for x in f:
        if x.endswith("-op"):
            return (f[0], x)
    return (f[0], f[0])


def fam_apply_delta(acc, inputs):
    run_cmp(acc, "apply_delta", inputs, delta_feature_full,
            lambda i: "apply_delta(%s, %s%s)" % (ds.describe(ds.base_of(i[0])), i[1][:40].hex(), "" if not i[2] else ", chunked"),
            lambda i: _rp("apply_delta", i))


def fam_create_delta(acc, inputs):
    """inputs: (base spec, target spec, form).  Bytes may differ; every pairing must decode to the target."""
    rs, py = pools(_RELEASE[0])
    tag = "rust-release" if _RELEASE[0] else "rust"
    calls = [("create_delta",) + tuple(i) for i in inputs]
    e_rs, e_py = sandbox.observe_all([(rs, CALL, calls), (py, CALL, calls)], wall_s=900, cpu_s=200)
    dec = []
    for i, a, b in zip(inputs, e_rs, e_py):
        for o in (a, b):
            if o.kind == "ret" and o.value[0] == "d":
                dec.append(("apply_delta", i[0], o.value[1], 0))
    d_rs, d_py = sandbox.observe_all([(rs, CALL, dec), (py, CALL, dec)], **FAST)
    k = 0
    for i, a, b in zip(inputs, e_rs, e_py):
        acc.count("comparisons")
        acc.count("comparisons:create_delta")
        want = ds.summarise(ds.resolve(i[1]))
        show = "create_delta(%s, %s)" % (ds.describe(i[0]), ds.describe(i[1]))
        ok = True
        for enc_tag, o in ((tag, a), ("python", b)):
            if not (o.kind == "ret" and o.value[0] == "d"):
                other = b if o is a else a
                if not bad_of(o) and o.kind == "exc" and other.kind == "exc" and not bad_of(other):
                    continue  # failure in both
                ok = False
                acc.violation("equiv:create_delta:%s-encoder-%s" % (enc_tag, bad_of(o) or ("raises" if o.kind == "exc" else "bad-return-type")),
                              "%s: %s %r" % (show, o.kind, o.value if o.kind != "ret" else o.value[:1]), _rp("create_delta", i))
                continue
            for dec_tag, res in ((tag, d_rs), ("python", d_py)):
                r = res[k]
                if r.kind == "skipped":
                    acc.count("skipped_after_timeouts")
                    continue
                if r.kind != "ret" or r.value != want:
                    ok = False
                    acc.violation("equiv:create_delta:%s-delta-via-%s-decoder:%s" % (
                        enc_tag, dec_tag, "wrong-output" if r.kind == "ret" else (bad_of(r) or "raises")),
                        "%s: delta %s decodes to %s %r, want %r" % (show, o.value[1][:40].hex(), r.kind, r.value, want),
                        _rp("create_delta", i))
            k += 1
        same = a.kind == "ret" and b.kind == "ret" and a.value == b.value
        acc.outcome("eq:create_delta:%s" % ("DIVERGE" if not ok else "same-bytes" if same else "different-bytes-both-decode"))


# =========================================================================== bisect_find_sha

U20 = [bytes([k]) * 20 for k in (0x10, 0x20, 0x30, 0x40, 0x50)]
U32 = [bytes([k]) * 32 for k in (0x10, 0x20, 0x30)]
I32 = 2**31


def bisect_inputs(thorough):
    for uni, maxn in ((U20, 4), (U32, 2)):
        tables = [()] + [t for n in range(1, maxn + 1) for t in itertools.combinations(uni, n)]
        for ids in tables:
            n = len(ids)
            offsets = [0]
            if uni is U20 and n:
                offsets += [I32 - 1 - n, I32 - n, I32 - n + 1, 2**30, 2**30 + 1, I32, 2**32]
                if thorough:
                    offsets += [2**30 - 1, I32 // 2 - 1, 2**32 - 1, 2**33]
            for off in offsets:
                lo, hi = off - 2, off + n + 1
                for start in range(lo, hi + 1):
                    for end in range(lo, hi + 1):
                        if off and not thorough and (start < off - 1 or end > off + n):
                            continue
                        for probe in uni:
                            yield (ids, off, start, end, probe)


def bisect_feature(i):
    ids, off, start, end, probe = i
    if start > end:
        return "start>end"
    if start < 0 or end < 0:
        return "negative-index"
    if max(start, end) >= I32:
        return "index>=2^31"
    if start + end >= I32 or 2 * end >= I32:  # (lo + hi) can reach 2 * end while the search narrows
        return "index-sum>=2^31"
    if start < off or end >= off + len(ids):
        return "range-beyond-table"
    return "regular"


def fam_bisect(acc, inputs):
    run_cmp(acc, "bisect_find_sha", inputs, bisect_feature,
            lambda i: "bisect_find_sha(start=%d, end=%d, sha=%s.., table of %d ids at index %d)" % (i[2], i[3], i[4][:1].hex(), len(i[0]), i[1]),
            lambda i: _rp("bisect_find_sha", i))


# =========================================================================== trees for _merge_entries / _is_tree

T_NAMES = [b"a", b"a.b", b"ab", b"b"]
S1, S2, S3, S4 = b"1" * 40, b"2" * 40, b"3" * 40, b"4" * 40
T_KINDS = [(0o100644, S1), (0o100644, S2), (0o100755, S1), (0o40000, S3), (0o120000, S1), (0o160000, S4)]


T_NAMES_ODD = [b"/a"]  # names no valid tree contains but parse_tree / Tree.add accept (joined to the path prefix)


def tree_descs(max_entries):
    """None, the empty tree, all trees of <= max_entries entries over T_NAMES x T_KINDS, and all trees of
    <= max_entries - 1 entries that contain a name of T_NAMES_ODD."""
    out = [None, ()]
    for k in range(1, max_entries + 1):
        for names in itertools.combinations(T_NAMES, k):
            for kinds in itertools.product(T_KINDS, repeat=k):
                out.append(tuple((n, m, s) for n, (m, s) in zip(names, kinds)))
    for k in range(1, max_entries):
        for names in itertools.combinations(T_NAMES_ODD + T_NAMES, k):
            if not any(n in T_NAMES_ODD for n in names):
                continue
            for kinds in itertools.product(T_KINDS, repeat=k):
                out.append(tuple((n, m, s) for n, (m, s) in zip(names, kinds)))
    return out


def merge_feature(i):
    path, d1, d2 = i
    if path and any(n.startswith(b"/") for d in (d1, d2) if d for n, _, _ in d):
        return "name-starts-with-slash"
    if path.endswith(b"/") and (d1 or d2):
        return "path-ends-with-slash"
    return "regular"


def fam_merge_entries(acc, inputs):
    run_cmp(acc, "_merge_entries", inputs, merge_feature,
            lambda i: "_merge_entries(%r, %r, %r)" % (i[0], i[1], i[2]), lambda i: _rp("_merge_entries", i))


IS_TREE_INPUTS = ["none", None, 0, 0o40000, 0o40755, 0o100644, 0o100755, 0o120000, 0o160000, 0o140000, 0o170000, 0o60000, 0o20000]


def fam_is_tree(acc, inputs):
    run_cmp(acc, "_is_tree", inputs, lambda i: "regular", lambda i: "_is_tree(mode=%r)" % (i[0],), lambda i: _rp("_is_tree", i))


# =========================================================================== _count_blocks

CB_ALPHA = [b"a", b"\n", b"\0"]


# every byte at which bytes.splitlines() ends a line; only LF ends a block
CB_SEPS = [b"\n", b"\r", b"\x0b", b"\x0c", b"\x1c", b"\x1d", b"\x1e", b"\x85"]
CB_ALPHA_SEP = [b"a"] + CB_SEPS + [b"\0"]


def _chunkings(s):
    yield ((s,),)
    if len(s) > 1:
        yield (tuple(s[i:i + 1] for i in range(len(s))),)
        for cut in range(1, len(s)):
            yield ((s[:cut], s[cut:]),)


def count_blocks_inputs(thorough):
    n = 8 if thorough else 6
    for s in ds.strings(CB_ALPHA, n):
        yield from _chunkings(s)
    # line-separator-like bytes: all strings over {a, LF, CR, VT, FF, FS, GS, RS, NEL, NUL} x every chunking
    # (so also a chunk boundary between CR and LF)
    for s in ds.strings(CB_ALPHA_SEP, 5 if thorough else 4):
        if any(c in b"\r\x0b\x0c\x1c\x1d\x1e\x85" for c in s):  # the others are in the space above
            yield from _chunkings(s)
    for ln in (62, 63, 64, 65, 66, 127, 128, 129, 2**16 - 1, 2**16, 2**16 + 1):
        x = b"x" * ln
        for content in (x, x + b"\n", x + b"\n" + x, b"y" + x + b"\n" + b"z" * 64, x[: ln // 2] + b"\n" + x[ln // 2:]):
            yield ((content,),)
            yield ((content[:63], content[63:64], content[64:]),)
            yield ((content[:1], content[1:]),)
    # the separators at and around the 64-byte block boundary, alone and as CR LF / CR CR LF
    for ln in (61, 62, 63, 64, 65):
        x = b"x" * ln
        for sep in CB_SEPS[1:] + [b"\r\n", b"\r\r\n", b"\n\r"]:
            for content in (x + sep, x + sep + b"y" * 70, x + sep + b"y" * 10 + sep + b"z"):
                yield ((content,),)
                yield ((content[:ln + 1], content[ln + 1:]),)  # chunk boundary inside / right after the separator
                yield ((content[:64], content[64:]),)
    yield ((),)
    yield ((b"", b""),)


def count_blocks_feature(i):
    data = b"".join(i[0])
    if any(c in b"\r\x0b\x0c\x1c\x1d\x1e\x85" for c in data):
        return "line-separator-other-than-LF"
    return "regular"


def fam_count_blocks(acc, inputs):
    run_cmp(acc, "_count_blocks", inputs, count_blocks_feature,
            lambda i: "_count_blocks(chunks=%s)" % (repr([c[:12] for c in i[0]][:4]) + ("(%d bytes)" % sum(map(len, i[0])))),
            lambda i: _rp("_count_blocks", i))


# =========================================================================== repository level

LINES = [b"line %d of the file\n" % k for k in range(12)]
R_BLOBS = [
    b"".join(LINES),
    b"".join(LINES[:5] + [b"changed line\n"] + LINES[6:]),
    b"".join(LINES[:3]),
    b"completely different content\n" * 6,
    b"x" * 65 + b"\n" + b"y" * 64 + b"\n" + b"z" * 63,
    b"",
    # CR-only line ends (one "line" for the block counter): moved with one record prepended
    b"".join(b"record %d of the log\r" % k for k in range(12)),
    b"a new first record\r" + b"".join(b"record %d of the log\r" % k for k in range(12)),
]


def repo_tree_inputs(max_entries):
    for items, name_order in sti_inputs(max_entries):
        if name_order:
            yield (items,)


def repo_parse_inputs():
    seen = set()
    for t in parse_tree_texts(20, False):
        if t not in seen:
            seen.add(t)
            yield (t,)


def repo_diff_inputs(thorough):
    nb = len(R_BLOBS)
    names = [b"a", b"b"]
    descs = [()]
    for k in range(nb):
        descs.append(((b"a", 0o100644, k),))
        descs.append(((b"b", 0o100644, k),))
    if thorough:
        for k in range(nb):
            for j in range(nb):
                descs.append(((b"a", 0o100644, k), (b"b", 0o100644, j)))
    else:
        for k in range(3):
            for j in range(3):
                descs.append(((b"a", 0o100644, k), (b"b", 0o100644, j)))
    del names
    for d1 in descs:
        for d2 in descs:
            for harder in (False, True):
                yield (tuple(R_BLOBS), d1, d2, harder)


def repo_pack_inputs(thorough):
    pool = R_BLOBS[:5] + [("cyc", 3000, 1), ("cat", ("cyc", 3000, 1), b"tail")]
    pool = [ds.build(p) for p in pool]
    sizes = (2, 3) if thorough else (2,)
    for k in sizes:
        for combo in itertools.permutations(range(len(pool)), k):
            yield (tuple(pool[c] for c in combo), 10)
    yield (tuple(pool), 10)
    yield (tuple(pool), 1)


def repo_feature(fn):
    def f(i):
        if fn == "repo_tree":
            return sti_feature((i[0], True))
        if fn == "repo_parse":
            return parse_tree_feature((i[0], 20, False))
        return "regular"

    return f


def _diff_aux(acc, value):
    """Vacuity guard: which kinds of change the scenarios really produced."""
    for c in value:
        acc.outcome("repo_diff:change:" + str(c[0]))
    return value


def _pack_aux(acc, value):
    """Whether a delta was chosen depends on the encoder's output size and is not compared."""
    if value[3]:
        acc.outcome("repo_pack:deltas-used")
    return value[:3]


def _fam_repo(fn):
    def fam(acc, inputs):
        run_cmp(acc, fn, inputs, repo_feature(fn), lambda i: "%s(%s)" % (fn, repr(i)[:200]), lambda i: _rp(fn, i),
                aux={"repo_pack": _pack_aux, "repo_diff": _diff_aux}.get(fn))

    return fam


FAMILIES = {
    "parse_tree": fam_parse_tree,
    "sorted_tree_items": fam_sorted_tree_items,
    "apply_delta": fam_apply_delta,
    "create_delta": fam_create_delta,
    "bisect_find_sha": fam_bisect,
    "_merge_entries": fam_merge_entries,
    "_is_tree": fam_is_tree,
    "_count_blocks": fam_count_blocks,
    "repo_tree": _fam_repo("repo_tree"),
    "repo_parse": _fam_repo("repo_parse"),
    "repo_diff": _fam_repo("repo_diff"),
    "repo_pack": _fam_repo("repo_pack"),
}


# =========================================================================== tasks


def gen_parse_tree(sha_len, strict, thorough):
    for t in parse_tree_texts(sha_len, thorough):
        yield (t, sha_len, strict)
    for t in parse_tree_raw(thorough):
        yield (t, sha_len, strict)


GENS = {
    "parse_tree": gen_parse_tree,
    "bisect_find_sha": lambda thorough: bisect_inputs(thorough),
    "sorted_tree_items": lambda n: sti_inputs(n),
    "_count_blocks": lambda thorough: count_blocks_inputs(thorough),
    "create_delta": lambda n: ((b, t, 0) for b, t in ds.small_pairs(n)),
    "repo_diff": lambda thorough: repo_diff_inputs(thorough),
}


def work(task):
    """Harness failures are carried home in the Acc and raised by run() (raising inside a pool worker
    would leave the other workers of the pool hanging)."""
    acc = Acc()
    try:
        _work(acc, task)
    except Exception as e:
        import traceback

        acc = Acc()
        acc.note("harness_error", "%r in task %r\n%s" % (e, repr(task)[:200], traceback.format_exc()))
    return acc


def _work(acc, task):
    kind, release = task[0], task[1]
    _RELEASE[0] = release
    if kind == "list":  # explicit list of inputs of one family
        _, _, fn, inputs = task
        FAMILIES[fn](acc, inputs)
    elif kind == "gen":  # every nparts-th element of a generated space (built here, not in the parent)
        _, _, fn, args, part, nparts = task
        inputs = [x for k, x in enumerate(GENS[fn](*args)) if k % nparts == part]
        FAMILIES[fn](acc, inputs)
    elif kind == "hostile":
        _, _, prefix, max_len = task
        inputs = [(b, s, 0) for s in ds.hostile_strings(prefix, max_len) for b in ds.HOSTILE_BASES]
        fam_apply_delta(acc, inputs)
    elif kind == "scopy":
        _, _, cmd, thorough, part, nparts = task
        fam_apply_delta(acc, [(b, d, 0) for _, b, d in ds.structured_copy([cmd], ds.copy_values(thorough))[part::nparts]])
    elif kind == "swidth":
        _, _, cmds = task
        fam_apply_delta(acc, [(b, d, 0) for _, b, d in ds.structured_copy_widths(cmds)])
    elif kind == "merge":
        _, _, descs_a, max_entries, paths = task
        allb = tree_descs(max_entries)
        fam_merge_entries(acc, [(p, a, b) for a in descs_a for b in allb for p in paths])
    else:
        raise AssertionError(kind)


def _build_tasks(ctx, release, q):
    J = ctx.jobs
    tasks = []

    def chunked(fn, inputs, parts):
        inputs = list(inputs)
        for part in split(ctx.order(inputs), parts):
            tasks.append(("list", release, fn, part))
        return len(inputs)

    def generated(fn, args, per_task):
        n = sum(1 for _ in GENS[fn](*args))
        nparts = max(1, min(n, -(-n // per_task)))
        for part in range(nparts):
            tasks.append(("gen", release, fn, args, part, nparts))
        return n

    counts = {}
    # slow single items first
    bp = ds.boundary_pairs(not q)
    heavy = sorted(bp, key=lambda x: -(ds.spec_len(x[1]) + ds.spec_len(x[2])))
    for tag, b, t in heavy:
        tasks.append(("list", release, "create_delta", [(b, t, 0)]))
    counts["create_delta"] = len(heavy)
    nheavy = len(tasks)
    counts["create_delta"] += generated("create_delta", (4 if q else 5,), 4000)
    counts["parse_tree"] = 0
    for sha_len in (20, 32):
        for strict in (False, True):
            counts["parse_tree"] += generated("parse_tree", (sha_len, strict, not q), 20000)
    counts["sorted_tree_items"] = generated("sorted_tree_items", (3 if q else 4,), 5000)
    counts["bisect_find_sha"] = generated("bisect_find_sha", (not q,), 20000)
    counts["_is_tree"] = chunked("_is_tree", [(m,) for m in IS_TREE_INPUTS], 1)
    counts["_count_blocks"] = generated("_count_blocks", (not q,), 5000)
    # _merge_entries: all ordered pairs of trees
    me = 2 if q else 3
    descs = tree_descs(me)
    paths = (b"", b"d", b"d/")
    for part in split(ctx.order(descs), J * 4):
        tasks.append(("merge", release, part, me, paths))
    counts["_merge_entries"] = len(descs) ** 2 * len(paths)
    # apply_delta: the C03 hostile space
    hl = 5 if q else 6
    if release and not q:
        hl = 5
    for prefix in ds.hostile_prefixes():
        tasks.append(("hostile", release, prefix, hl))
    counts["apply_delta"] = ds.hostile_count(hl) * len(ds.HOSTILE_BASES)
    st = [(b, d, f) for _, b, d in ds.structured_small() for f in (0, 1)]
    counts["apply_delta"] += chunked("apply_delta", st, J)
    nvals = len(ds.copy_values(not q))
    for cmd in range(0x80, 0x100):
        nparts = max(1, 10 * nvals ** bin(cmd & 0x7F).count("1") // 40000)
        for part in range(nparts):
            tasks.append(("scopy", release, cmd, not q, part, nparts))
    counts["apply_delta"] += 2 * 5 * (1 + nvals) ** 7
    for lo in range(0x80, 0x100, 4):  # copy instructions at the width boundaries (offset + size up to and beyond 2^32)
        tasks.append(("swidth", release, list(range(lo, lo + 4))))
    counts["apply_delta"] += ds.copy_width_count()
    # repository level
    counts["repo_tree"] = chunked("repo_tree", repo_tree_inputs(3), J)
    counts["repo_parse"] = chunked("repo_parse", repo_parse_inputs(), J * 2)
    counts["repo_diff"] = generated("repo_diff", (not q,), 500)
    counts["repo_pack"] = chunked("repo_pack", repo_pack_inputs(not q), J)
    return tasks[:nheavy] + ctx.order(tasks[nheavy:]), counts


def run(ctx):
    q = ctx.quick
    from engines import common

    paths = common.rust_paths()
    builds = [False]
    if not q:
        common.rust_paths(release=True)
        builds.append(True)
    info = {}
    for rel in builds:
        rs, py = pools(rel)
        info["rust-release" if rel else "rust"] = rs.info
        info["py"] = py.info
    sandbox.drop_pools()
    tasks = []
    expected = {}
    for rel in builds:
        t, counts = _build_tasks(ctx, rel, q)
        tasks += t
        for k, v in counts.items():
            expected[k] = expected.get(k, 0) + v
    t_setup = ctx.elapsed()
    pmap_acc(work, tasks, ctx.acc, jobs=ctx.jobs)
    ctx.coverage["phases_wall_s"] = {"build+task-list": round(t_setup, 1), "enumeration": round(ctx.elapsed() - t_setup, 1)}
    if "harness_error" in ctx.acc.notes:
        raise HarnessError(ctx.acc.notes["harness_error"])

    n = ctx.acc.n
    for fn, want in sorted(expected.items()):
        got = n.get("comparisons:" + fn, 0)
        if got != want:
            raise HarnessError("enumeration of %s incomplete: %d comparisons, expected %d" % (fn, got, want))
    classes = ctx.acc.classes
    # vacuity guards
    for fn in expected:
        if fn in ("create_delta",):
            if not (classes.get("eq:create_delta:different-bytes-both-decode") and classes.get("eq:create_delta:same-bytes")):
                raise HarnessError("vacuous: create_delta outputs never differed / never agreed")
            continue
        if not classes.get("eq:%s:same-value" % fn):
            raise HarnessError("vacuous: %s never returned the same value in both configurations" % fn)
    for fn in ("parse_tree", "apply_delta", "bisect_find_sha"):
        if not any(c.startswith("eq:%s:both-fail" % fn) for c in classes):
            raise HarnessError("vacuous: %s never failed in both configurations" % fn)
    for fn in ("sorted_tree_items", "_merge_entries", "_is_tree", "_count_blocks", "repo_tree", "repo_diff", "repo_pack"):
        odd = [c for c in classes if c.startswith("eq:%s:both-fail" % fn)]
        if odd:  # these spaces contain only well-formed inputs: a failure in both is a harness bug
            raise HarnessError("unexpected failure of %s on well-formed input in both configurations: %r" % (fn, odd))
    for kind in ("add", "delete", "modify", "rename", "copy"):
        if not classes.get("repo_diff:change:" + kind):
            raise HarnessError("vacuous: the diff scenarios never produced a %r change" % kind)
    if not classes.get("repo_pack:deltas-used"):
        raise HarnessError("vacuous: the pack scenarios never produced a deltified pack")
    ctx.level = "exploration"
    if n.get("skipped_after_timeouts"):
        ctx.coverage["cap"] = ("%d comparisons were skipped by the timeout circuit breaker (3 timeouts per batch); the "
                               "timeouts themselves are reported as violations" % n["skipped_after_timeouts"])
    ctx.coverage.update(
        evaluations=n.get("comparisons", 0),
        distinct_nontrivial=len([c for c in classes if c.startswith("eq:") and not c.endswith(":same-value")]),
        exhaustive=not n.get("skipped_after_timeouts"),
        per_function={k[len("comparisons:"):]: v for k, v in sorted(n.items()) if k.startswith("comparisons:")},
        outcome_classes=dict(sorted(classes.items())),
        rule=(
            "E4+E6 differential: each input of each declared space is evaluated by the Rust extension (%s build of the working "
            "tree, loaded by path) and by the pure-Python twin (sibling interpreter with the extension imports blocked), both in "
            "sandboxed workers; verdict = same normalised return value, or an ordinary exception in both. "
            "distinct_nontrivial = outcome classes other than 'same value'."
            % ("debug" if q else "debug and release")
        ),
        bounds={
            "parse_tree": {"mode_tokens": len(MODES), "names": len(NAMES), "id_lengths": IDLENS, "max_entries": 3, "sha_len": [20, 32],
                           "raw_alphabet": [a.decode("latin1") for a in (RAW_ALPHA_Q if q else RAW_ALPHA_T)], "raw_len": 4 if q else 5},
            "sorted_tree_items": {"names": [x.decode() for x in STI_NAMES], "max_entries": 3 if q else 4},
            "create_delta": {"pair_len": 4 if q else 5, "boundary_pairs": len(ds.boundary_pairs(not q))},
            "apply_delta": {"hostile_len": 5 if q else 6, "hostile_len_release": None if q else 5, "bases": list(ds.HOSTILE_BASES)},
            "bisect_find_sha": {"universe": 5, "max_table": 4, "offsets": "0 and around 2^30, 2^31, 2^32"},
            "_merge_entries": {"names": len(T_NAMES), "kinds": len(T_KINDS), "max_entries": 2 if q else 3},
            "_count_blocks": {"alphabet": "a LF NUL", "max_len": 6 if q else 8},
        },
        implementations={k: {kk: v[kk] for kk in ("ext", "apply_delta", "parse_tree", "_count_blocks", "dulwich")} for k, v in info.items()},
    )
    ctx.acc.sample({"parse_tree_first": repr(next(iter(parse_tree_texts(20, False)))), "modes": [m.decode("latin1") for m in MODES]})
    ctx.acc.sample({"sorted_tree_items_last": repr(list(sti_inputs(2))[-1])})
    ctx.assumptions += [
        "PYTHONHASHSEED=0 in both interpreters, so hash(bytes) (the keys of _count_blocks) is comparable across processes",
        "inputs stay inside the types the signatures promise (bytes names, int modes within u32, 20/32-byte ids); "
        "type confusion (str names, bytearray ids) is not enumerated",
        "'failure in both' accepts different exception classes; PanicException, a killed worker or a timeout is never a failure",
        "repository-level clause: tree ids / parsed trees / tree_changes with rename detection / deltified pack read-back, "
        "computed on the same inputs with and without the extensions; pack *bytes* may differ (delta choice), contents may not",
        "extension paths: %s" % {k: v for k, v in paths.items() if k != "_build_s"},
    ]


def replay(ctx, obj):
    import sys

    from engines import common

    common.rust_paths()
    if any((c.get("replay") or {}).get("args", [None, None, False])[-1] for c in obj.get("cases", [])):
        common.rust_paths(release=True)
    return replay_generic(sys.modules[__name__], ctx, obj)
