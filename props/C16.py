"""C16 — ref backends obey one contract; the files backend matches git's own view.

E3: breadth-first search over ref-operation histories.  A state is the backend's storage
(directory snapshot / dict); every transition applies one real operation through a fresh container,
a warm live container and (cache coherence) a warm *bystander* container, and compares the outcome
and the observable map (as_dict, keys, symrefs, membership, per-name reads) with a map model.
Thorough: C git (for-each-ref, symbolic-ref) must list the same refs from every distinct files state.
E4: ref-name validity for every byte string up to length 4 over a 17-character alphabet plus token
strings, against an independent transcription of git-check-ref-format(1) and the git binary.
"""

from __future__ import annotations

import itertools
import os

from engines import statespace
from engines.common import Acc, HarnessError, fresh_dir, git, pmap, rmtree, rp, split
from engines.refmodels import refname as refname_model

X = b"1" * 40
Y = b"2" * 40
ZERO = b"0" * 40
HEAD = b"HEAD"
A = b"refs/heads/a"
AB = b"refs/heads/a/b"
B = b"refs/heads/b"
T = b"refs/tags/t"
U3 = [HEAD, A, AB]
U5 = [HEAD, A, AB, B, T]
NM = {X: "X", Y: "Y", ZERO: "ZERO", None: "None"}


def nm(v):
    if isinstance(v, tuple):
        return "sym:" + v[1].decode()
    if isinstance(v, dict):
        return {k.decode(): nm(x) for k, x in sorted(v.items())}
    if isinstance(v, (set, frozenset, list)):
        return sorted(nm(x) for x in v)
    if isinstance(v, bytes):
        return NM.get(v, v.decode())
    return NM.get(v, v)


# --------------------------------------------------------------------------- model


def m_chain(st, name):
    """Names visited following symrefs from name; (last_name, value|None, loop?)."""
    depth = 0
    cur = name
    while isinstance(st.get(cur), tuple):
        cur = st[cur][1]
        depth += 1
        if depth > 5:
            return cur, None, True
    return cur, st.get(cur), False


def collides(st, real):
    if real == HEAD:
        return False
    for m in st:
        if m == real or m == HEAD:
            continue
        if m.startswith(real + b"/") or real.startswith(m + b"/"):
            return True
    return False


def m_step(st, op):
    """Returns (acceptable_outcomes, new_state).  An outcome is ('ret', v) or ('refused',)."""
    k = op[0]
    new = dict(st)
    if k in ("cas", "set"):
        if k == "set":
            _, n, v = op
            old = None
        else:
            _, n, old, v = op
        real, cur, loop = m_chain(st, n)
        if loop:
            # the chain never ends: the operation applies to the name itself, whose current content is a
            # symbolic ref (never equal to an object id or to "absent")
            real, cur = n, b"<symref>"
        cond = old is None or (cur if cur is not None else ZERO) == old
        if collides(st, real):
            return ([("refused",)] + ([] if cond else [("ret", False)])), st
        if not cond:
            return [("ret", False)], st
        new[real] = v
        return [("ret", True if k == "cas" else None)], new
    if k == "add":
        _, n, v = op
        real, cur, loop = m_chain(st, n)
        if loop:
            return [("ret", False), ("refused",)], st
        if cur is not None:
            return [("ret", False)] + ([("refused",)] if collides(st, real) else []), st
        if collides(st, real):
            return [("refused",), ("ret", False)], st
        new[real] = v
        return [("ret", True)], new
    if k in ("rm", "del"):
        if k == "del":
            _, n = op
            old = None
        else:
            _, n, old = op
        cur = st.get(n)
        extra = [("refused",)] if (cur is None and collides(st, n)) else []  # absent name that is a directory of refs
        if old is not None:
            c = cur if isinstance(cur, bytes) else (ZERO if cur is None else None)
            if c != old:
                return [("ret", False)] + extra, st
        new.pop(n, None)
        return [("ret", True if k == "rm" else None)] + extra, new
    if k == "symref":
        _, n, t = op
        if collides(st, n):
            return [("refused",)], st
        new[n] = ("sym", t)
        return [("ret", None)], new
    if k == "pack":
        return [("ret", None)], st
    raise AssertionError(op)


def m_observe(st, names):
    out = {"keys": set(st), "symrefs": {n: v[1] for n, v in st.items() if isinstance(v, tuple)}, "dict": {}, "read": {}, "in": {}}
    for n in names:
        real, cur, loop = m_chain(st, n)
        out["read"][n] = "loop" if loop else (cur if cur is not None else "KeyError")
        out["in"][n] = n in st
        if n in st and cur is not None and not loop:
            out["dict"][n] = cur
    return out


# --------------------------------------------------------------------------- real side


def do_op(refs, op):
    k = op[0]
    try:
        if k == "cas":
            return ("ret", refs.set_if_equals(op[1], op[2], op[3]))
        if k == "set":
            refs[op[1]] = op[2]
            return ("ret", None)
        if k == "add":
            return ("ret", refs.add_if_new(op[1], op[2]))
        if k == "rm":
            return ("ret", refs.remove_if_equals(op[1], op[2]))
        if k == "del":
            del refs[op[1]]
            return ("ret", None)
        if k == "symref":
            return ("ret", refs.set_symbolic_ref(op[1], op[2]))
        if k == "pack":
            return ("ret", refs.pack_refs(all=op[1]))
    except Exception as e:
        return ("refused", type(e).__name__)
    raise AssertionError(op)


def observe(refs, names):
    from dulwich.refs import SymrefLoop

    out = {"read": {}, "in": {}}
    for f, fn in (("keys", lambda: set(refs.allkeys())), ("symrefs", lambda: dict(refs.get_symrefs())), ("dict", lambda: dict(refs.as_dict()))):
        try:
            out[f] = fn()
        except Exception as e:  # an observer that raises is an observation, not a harness failure
            out[f] = "raised %s" % type(e).__name__
    for n in names:
        try:
            out["read"][n] = refs[n]
        except KeyError:
            out["read"][n] = "KeyError"
        except SymrefLoop:
            out["read"][n] = "loop"
        except Exception as e:
            out["read"][n] = "raised %s" % type(e).__name__
        try:
            out["in"][n] = n in refs
        except Exception as e:
            out["in"][n] = "raised %s" % type(e).__name__
    return out


def tolerate_known(bname, got, model_after, note):
    """Known, separately recorded deviations of the reftable backend are reported under their own
    precise keys (note(key, text)) and then normalised away, so that the search keeps exploring and
    any *other* deviation still surfaces under a different key."""
    if bname != "reftable":
        return got
    got = dict(got)
    ins = dict(got["in"])
    for n, v in ins.items():
        if v == "raised KeyError":
            note("reftable:__contains__:raises-KeyError-for-absent-ref", "%r in refs raised KeyError" % n)
            ins[n] = False
    got["in"] = ins
    if isinstance(got["keys"], set):
        targets = {v[1] for v in model_after.values() if isinstance(v, tuple)}
        extra = {k for k in got["keys"] if k not in model_after and k in targets}
        if extra:
            note("reftable:allkeys:lists-absent-symref-targets", "allkeys() contains %r which are only targets of symbolic refs" % sorted(extra))
            got["keys"] = got["keys"] - extra
    if got["symrefs"] == "raised KeyError":
        note("reftable:get_symrefs:raises-KeyError-with-dangling-symref", "get_symrefs() raised KeyError")
        got["symrefs"] = {n: v[1] for n, v in model_after.items() if isinstance(v, tuple)}
    return got


def diff_obs(want, got):
    for f in ("keys", "symrefs", "dict", "read", "in"):
        if want[f] != got[f]:
            return "%s: expected %r, got %r" % (f, nm(want[f]) if f != "in" else want[f], nm(got[f]) if f != "in" and not isinstance(got[f], str) else got[f])
    return None


# --------------------------------------------------------------------------- backends


class DiskBackend:
    name = "files"
    follows_symrefs_on_write = True

    def initial(self, names):
        d = fresh_dir("c16i")
        os.makedirs(os.path.join(d, "refs", "heads"))
        os.makedirs(os.path.join(d, "refs", "tags"))
        with open(os.path.join(d, "HEAD"), "wb") as f:
            f.write(b"ref: refs/heads/a\n")
        snap = statespace.snapshot(d)
        rmtree(d)
        return snap, {HEAD: ("sym", A)}

    def open(self, snap, root):
        from dulwich.refs import DiskRefsContainer

        statespace.restore(snap, root)
        return DiskRefsContainer(root)

    def reopen(self, root):
        from dulwich.refs import DiskRefsContainer

        return DiskRefsContainer(root)

    def save(self, refs, root):
        return statespace.snapshot(root)

    def key(self, snap, model):
        return snap


class DictBackend:
    name = "dict"
    follows_symrefs_on_write = False

    def initial(self, names):
        return ((HEAD, b"ref: refs/heads/a"),), {HEAD: ("sym", A)}

    def open(self, snap, root):
        from dulwich.refs import DictRefsContainer

        return DictRefsContainer(dict(snap))

    def reopen(self, root):
        return None

    def save(self, refs, root):
        return tuple(sorted(refs._refs.items()))

    def key(self, snap, model):
        return snap


class ReftableBackend:
    name = "reftable"
    follows_symrefs_on_write = False

    def initial(self, names):
        d = fresh_dir("c16r")
        r = self._mk(d)
        r.set_symbolic_ref(HEAD, A)
        snap = statespace.snapshot(d)
        rmtree(d)
        return snap, {HEAD: ("sym", A)}

    def _mk(self, root):
        import dulwich.reftable as rt

        # own the two sources of nondeterminism in table names: time and random
        ntab = len([f for f in os.listdir(os.path.join(root, "reftable")) if f.endswith(".ref")]) if os.path.isdir(os.path.join(root, "reftable")) else 0

        class _T:
            @staticmethod
            def time():
                _T.n += 1
                return 1000.0 + ntab + _T.n * 0.000001

        _T.n = 0

        class _R:
            @staticmethod
            def randint(a, b):
                _R.n += 1
                return (ntab * 1000 + _R.n) & 0xFFFFFFFF

        _R.n = 0
        rt.time = _T
        rt.random = _R
        return rt.ReftableRefsContainer(root)

    def open(self, snap, root):
        statespace.restore(snap, root)
        return self._mk(root)

    def reopen(self, root):
        return self._mk(root)

    def save(self, refs, root):
        return statespace.snapshot(root)

    def key(self, snap, model):
        ntab = len([1 for rel, k, p in snap if rel.endswith(".ref")])
        return (tuple(sorted((k, v) for k, v in model.items())), ntab)


BACKENDS = {"files": DiskBackend, "dict": DictBackend, "reftable": ReftableBackend}


def menu(names, st, backend):
    ops = []
    for n in names:
        for old in (None, X, Y, ZERO):
            for v in (X, Y):
                ops.append(("cas", n, old, v))
        for v in (X, Y):
            ops.append(("add", n, v))
            ops.append(("set", n, v))
        for old in (None, X, Y):
            ops.append(("rm", n, old))
        ops.append(("del", n))
        for t in names:
            if t != n and t != HEAD:
                ops.append(("symref", n, t))
    ops.append(("pack", False))
    ops.append(("pack", True))
    if backend.follows_symrefs_on_write:
        return ops
    # other backends: only sequences that do not write through symbolic refs or use colliding names
    out = []
    for op in ops:
        k = op[0]
        if k == "pack":
            if backend.name in ("dict", "reftable"):
                continue  # packing is a files-backend notion (reftable: NotImplementedError)
            out.append(op)
            continue
        n = op[1]
        if k in ("cas", "set", "add") and isinstance(st.get(n), tuple):
            continue
        if k in ("cas", "set", "add", "symref"):
            # would the name collide with an existing ref?
            if any(m != n and m != HEAD and (m.startswith(n + b"/") or n.startswith(m + b"/")) for m in st):
                continue
        out.append(op)
    return out


def opname(op):
    return "%s(%s)" % (op[0], ",".join(nm(a) if not isinstance(a, bool) else str(a) for a in op[1:]))


# --------------------------------------------------------------------------- one transition


def transition(acc, bname, names, snap, model, op, path, work):
    """Apply op from (snap, model) three ways and judge.  Returns (new_snap, new_model) or None."""
    backend = BACKENDS[bname]()
    want_outcomes, new_model = m_step(model, op)
    want_obs = m_observe(new_model, names)
    root = os.path.join(work, "r")
    K = "%s:%s:" % (bname, op[0])
    desc = lambda: "%s after [%s] from state %r" % (opname(op), " ; ".join(opname(o) for o in path[-4:]), nm(model))  # noqa: E731
    rpl = rp("case_sequence", bname, [n for n in names], list(path) + [op])

    # 1. fresh container
    nviol_before = sum(v[0] for v in acc.viol.values())
    real_acc = acc

    class _First:
        """Record only the first failing aspect of a transition (one root cause, one key)."""
        done = False

        def violation(self, key, summary, replay=None):
            if not _First.done:
                _First.done = True
                real_acc.violation(key, summary, replay)

        def count(self, *a):
            real_acc.count(*a)

        def outcome(self, *a):
            real_acc.outcome(*a)

    acc = _First()
    refs = backend.open(snap, root)
    got = do_op(refs, op)
    acc.count("transitions")
    cat = ("refused",) if got[0] == "refused" else got
    acc.outcome("%s:%s:%s" % (bname, op[0], "refused:" + got[1] if got[0] == "refused" else repr(got[1])))
    if cat not in want_outcomes:
        acc.violation(K + "wrong-outcome", "%s: expected %r, got %r" % (desc(), want_outcomes, got), rpl)
    def note(key, text):
        real_acc.violation(key, "%s: %s" % (desc(), text), rpl)

    def observe_(r, names_):
        return tolerate_known(bname, observe(r, names_), new_model, note)

    new_snap = backend.save(refs, root)
    live = observe_(refs, names)
    why = diff_obs(want_obs, live)
    if why:
        acc.violation(K + "state-differs-from-model(live-container)", "%s: %s" % (desc(), why), rpl)
    fresh = backend.reopen(root)
    if fresh is not None:
        why2 = diff_obs(want_obs, observe_(fresh, names))
        if why2:
            acc.violation(K + "state-differs-from-model(reopened)", "%s: %s" % (desc(), why2), rpl)
    if cat == ("refused",) and new_snap != snap and bname != "reftable":
        # a refused operation may leave lock-free debris (empty directories) but no ref change: judged by obs above
        pass

    # 2. warm live container (caches filled before the operation), and a warm bystander that must
    #    notice the change made by somebody else
    if bname != "dict":
        refs_w = backend.open(snap, root)
        observe(refs_w, names)
        bystander = backend.reopen(root)
        observe(bystander, names)
        got_w = do_op(refs_w, op)
        cat_w = ("refused",) if got_w[0] == "refused" else got_w
        if cat_w not in want_outcomes:
            acc.violation(K + "wrong-outcome(warm-container)", "%s: expected %r, got %r" % (desc(), want_outcomes, got_w), rpl)
        why = diff_obs(want_obs, observe_(refs_w, names))
        if why:
            acc.violation(K + "stale-view(warm-container)", "%s: %s" % (desc(), why), rpl)
        why = diff_obs(want_obs, observe_(bystander, names))
        if why:
            acc.violation(K + "stale-view(bystander-container)", "%s: %s" % (desc(), why), rpl)
        # the bystander now performs a CAS that must see the new value
        if bname == "files" or bname == "reftable":
            for n in names[1:2]:
                _, cur, loop = m_chain(new_model, n)
                if isinstance(new_model.get(n), tuple) or loop or collides(new_model, n):
                    continue
                stale = X if cur != X else Y
                r2 = do_op(bystander, ("cas", n, stale, stale))
                if r2 != ("ret", False) and cur != stale:
                    acc.violation(K + "bystander-cas-on-stale-value-succeeds", "%s then cas(%s,%s): %r" % (desc(), n.decode(), nm(stale), r2), rpl)
    if _First.done:
        return None  # implementation and model have diverged: do not explore (and blame) successors
    return new_snap, new_model


def case_sequence(acc, bname, names, ops):
    """Replay: run a sequence of operations from the backend's initial state, judging the last."""
    backend = BACKENDS[bname]()
    names = [bytes(n) for n in names]
    snap, model = backend.initial(names)
    work = fresh_dir("c16s")
    try:
        path = []
        for i, op in enumerate(ops):
            op = tuple(op)
            sub = Acc() if i < len(ops) - 1 else acc
            r = transition(sub, bname, names, snap, model, op, path, work)
            if r is None:
                if i < len(ops) - 1:
                    acc.merge(sub)
                break
            snap, model = r
            path.append(op)
    finally:
        rmtree(work)


def case_steps(acc, bname, names, ops):
    """Run a fixed sequence of operations from the backend's initial state, judging EVERY step against the model
    (fresh, warm and bystander containers, as in the BFS)."""
    backend = BACKENDS[bname]()
    names = [bytes(n) for n in names]
    snap, model = backend.initial(names)
    work = fresh_dir("c16q")
    try:
        path = []
        for op in ops:
            op = tuple(op)
            r = transition(acc, bname, names, snap, model, op, path, work)
            if r is None:
                break
            snap, model = r
            path.append(op)
    finally:
        rmtree(work)


def length_sweep_tasks(quick):
    """Record-encoding boundaries: ref names of every length 12..44 (the reftable record header packs
    (suffix_length << 3 | type) into a varint: 16 bytes is the first two-byte value), with a sibling that shares
    all but the last byte (prefix compression), through create / update / symref / delete (tombstone) / re-create."""
    out = []
    for L in range(12, 45 if quick else 140):
        name = b"refs/heads/" + b"n" * (L - 11)
        sib = name[:-1] + b"m"
        link = b"refs/tags/" + b"l" * (L - 10)
        ops = [("set", name, X), ("cas", name, X, Y), ("set", sib, X), ("symref", link, name), ("rm", name, Y), ("add", name, X),
               ("del", link), ("rm", sib, None), ("del", name)]
        for bname in ("files", "dict", "reftable"):
            out.append(("steps", bname, [HEAD, name, sib, link], ops))
    # many updates of one table stack (update-index varint crosses 127 -> 128)
    many = []
    for i in range(135 if quick else 300):
        many.append(("set", A, X if i % 2 == 0 else Y))
    out.append(("steps", "reftable", [HEAD, A], many))
    return out


def case_symref_depth(acc, k, dangling):
    """A loop-free chain of k symbolic refs s1 -> s2 -> ... -> sk -> t.  All backends and C git must agree on whether s1
    resolves (git follows at most 5 levels)."""
    chain = [b"refs/heads/s%d" % i for i in range(1, k + 1)]
    target = b"refs/heads/t"
    got = {}
    work = fresh_dir("c16d")
    try:
        for bname in ("files", "dict", "reftable"):
            backend = BACKENDS[bname]()
            snap, _model = backend.initial([HEAD])
            root = os.path.join(work, bname)
            refs = backend.open(snap, root)
            if not dangling:
                refs[target] = X
            for i in range(k - 1, -1, -1):
                refs.set_symbolic_ref(chain[i], chain[i + 1] if i + 1 < k else target)
            fresh = backend.reopen(root) or refs
            o = observe(fresh, [chain[0]])
            r = o["read"][chain[0]]
            got[bname] = ("resolves" if r == X else "unresolvable" if r in ("KeyError", "loop") else r,
                          o["in"][chain[0]], isinstance(o["dict"], dict) and chain[0] in o["dict"])
            acc.count("transitions")
            if bname == "files":
                os.makedirs(os.path.join(root, "objects"), exist_ok=True)
                if not os.path.exists(os.path.join(root, "config")):
                    with open(os.path.join(root, "config"), "wb") as f:
                        f.write(b"[core]\n\trepositoryformatversion = 0\n\tbare = true\n")
                p = git(["rev-parse", "--verify", "-q", chain[0].decode()], cwd=root, check=False, env={"GIT_DIR": root})
                got["git"] = ("resolves" if p.returncode == 0 and p.stdout.strip() == X else "unresolvable",)
        acc.outcome("symref-depth:%d%s:%s" % (k, ":dangling" if dangling else "", "/".join("%s=%s" % (b, got[b][0]) for b in sorted(got))))
        rpl = rp(case_symref_depth, k, dangling)
        what = "chain of %d symbolic refs ending in %s" % (k, "nothing" if dangling else "a ref with value X")
        if got["files"][0] != got["git"][0]:
            acc.violation("files:symref-depth:dulwich-%s-git-%s" % (got["files"][0], got["git"][0]), "%s: %r" % (what, got), rpl)
        for b in ("dict", "reftable"):
            if got[b] != got["files"]:
                acc.violation("%s:symref-depth:differs-from-files-backend" % b, "%s: read/in/as_dict = %r" % (what, got), rpl)
    finally:
        rmtree(work)


def work_sweeps(task):
    acc = Acc()
    if task[0] == "steps":
        case_steps(acc, task[1], task[2], task[3])
    elif task[0] == "depth":
        case_symref_depth(acc, task[1], task[2])
    else:
        raise AssertionError(task)
    return acc


def case_reftable_zero(acc):
    """old value ZERO means 'must not exist' (files and dict backends); recorded once for reftable."""
    b = ReftableBackend()
    snap, model = b.initial(U3)
    work = fresh_dir("c16z")
    try:
        refs = b.open(snap, os.path.join(work, "r"))
        r1 = do_op(refs, ("cas", AB, ZERO, X))
        acc.count("transitions")
        if r1 != ("ret", True):
            acc.violation("reftable:set_if_equals:ZERO-old-value-not-treated-as-absent",
                          "set_if_equals(%s, ZERO, X) on an absent ref returned %r (files/dict backends: True)" % (AB.decode(), r1), rp(case_reftable_zero))
    finally:
        rmtree(work)


# --------------------------------------------------------------------------- peeled values across re-packing
# "packing refs changes nothing observable - and C git lists the same refs": the peeled value of a ref (Repo.get_peeled,
# refs.get_peeled, the ^{} lines of git show-ref -d) is observable, and packed-refs caches it.  Histories over a real
# repository with annotated tags (incl. a tag of a tag): set / delete / pack(all) / pack(tags only) / re-open.
_PEEL = {}
PT = b"refs/tags/t"
PM = b"refs/heads/m"


def peel_universe():
    if _PEEL:
        return _PEEL
    from dulwich.objects import Blob, Commit, Tag, Tree

    b = Blob.from_string(b"c16\n")
    t = Tree()
    t.add(b"f", 0o100644, b.id)

    def commit(parents, msg, when):
        c = Commit()
        c.tree = t.id
        c.parents = parents
        c.author = c.committer = b"A <a@example.com>"
        c.author_time = c.commit_time = when
        c.author_timezone = c.commit_timezone = 0
        c.message = msg
        return c

    def tag(name, obj, cls, when):
        g = Tag()
        g.name = name
        g.object = (cls, obj.id)
        g.tagger = b"A <a@example.com>"
        g.tag_time = when
        g.tag_timezone = 0
        g.message = name + b"\n"
        return g

    c1 = commit([], b"c1\n", 1000)
    c2 = commit([c1.id], b"c2\n", 2000)
    t1 = tag(b"t1", c1, Commit, 1500)
    t2 = tag(b"t2", c2, Commit, 2500)
    tt = tag(b"tt", t1, Tag, 2600)
    _PEEL.update(objs=[b, t, c1, c2, t1, t2, tt], ids={"c1": c1.id, "c2": c2.id, "T1": t1.id, "T2": t2.id, "TT": tt.id},
                 peel={c1.id: c1.id, c2.id: c2.id, t1.id: c1.id, t2.id: c2.id, tt.id: c1.id})
    _PEEL["name"] = {v: k for k, v in _PEEL["ids"].items()}
    return _PEEL


PEEL_OPS = ([("set", "t", k) for k in ("c1", "c2", "T1", "T2", "TT")] + [("set", "m", "c1"), ("set", "m", "c2")]
            + [("del", "t"), ("del", "m"), ("pack", True), ("pack", False), ("reopen",)])


def case_peeled(acc, ops):
    """Run `ops` on one live Repo; after the LAST op observe refs and peeled values through the live Repo, a fresh Repo
    and git show-ref -d (every prefix is a case of its own)."""
    from dulwich.repo import Repo

    u = peel_universe()
    ids, peel, nmv = u["ids"], u["peel"], u["name"]
    root = fresh_dir("c16p")
    try:
        live = Repo.init_bare(root)
        for o in u["objs"]:
            live.object_store.add_object(o)
        model = {}
        for op in ops:
            op = tuple(op)
            ref = {"t": PT, "m": PM}.get(op[1]) if len(op) > 1 and op[0] in ("set", "del") else None
            if op[0] == "set":
                live.refs[ref] = ids[op[2]]
                model[ref] = ids[op[2]]
            elif op[0] == "del":
                if ref in model:
                    del live.refs[ref]
                    del model[ref]
            elif op[0] == "pack":
                live.refs.pack_refs(all=op[1])
            elif op[0] == "reopen":
                live.close()
                live = Repo(root)
            acc.count("transitions")
        what = "after [%s]" % " ; ".join("%s(%s)" % (o[0], ",".join(str(x) for x in o[1:])) for o in ops)
        rpl = rp(case_peeled, [list(o) for o in ops])
        fresh = Repo(root)
        try:
            for who, r in (("live", live), ("fresh", fresh)):
                got = {k: v for k, v in r.refs.as_dict().items() if k != HEAD}
                if got != model:
                    acc.violation("files:peeled-family:refs-differ-from-model(%s)" % who, "%s: as_dict=%r, model=%r" % (
                        what, {k: nmv.get(v, v) for k, v in got.items()}, {k: nmv[v] for k, v in model.items()}), rpl)
                    return
                for ref, val in sorted(model.items()):
                    try:
                        p1 = r.get_peeled(ref)
                    except Exception as e:
                        p1 = "raises %s" % type(e).__name__
                    if p1 != peel[val]:
                        acc.violation("files:Repo.get_peeled:wrong-peeled-value(%s)" % who, "%s: %s -> %s, get_peeled = %s, expected %s" % (
                            what, ref.decode(), nmv[val], nmv.get(p1, p1), nmv[peel[val]]), rpl)
                        return
                    p2 = r.refs.get_peeled(ref)
                    if p2 is not None and p2 != peel[val]:
                        acc.violation("files:refs.get_peeled:wrong-cached-peeled-value(%s)" % who, "%s: %s -> %s, refs.get_peeled = %s, expected %s or None" % (
                            what, ref.decode(), nmv[val], nmv.get(p2, p2), nmv[peel[val]]), rpl)
                        return
            out = git(["show-ref", "-d"], cwd=root, check=False, env={"GIT_DIR": root}).stdout
            seen = {}
            for line in out.splitlines():
                sha, name = line.split(b" ", 1)
                seen[name] = sha
            want = dict(model)
            for ref, val in model.items():
                if peel[val] != val:
                    want[ref + b"^{}"] = peel[val]
            if seen != want:
                acc.violation("files:peeled-family:git-show-ref-d-differs", "%s: git show-ref -d lists %r, expected %r" % (
                    what, {k.decode(): nmv.get(v, v) for k, v in seen.items()}, {k.decode(): nmv[v] for k, v in want.items()}), rpl)
                return
            acc.outcome("peeled-family:%s" % ("packed" if os.path.exists(os.path.join(root, "packed-refs")) else "loose-only"))
            acc.count("peeled_histories")
        finally:
            fresh.close()
            live.close()
    finally:
        rmtree(root)


def work_peeled(task):
    acc = Acc()
    for ops in task:
        case_peeled(acc, ops)
    return acc


def peeled_sequences(depth):
    out = []
    for n in range(1, depth + 1):
        for seq in itertools.product(PEEL_OPS, repeat=n):
            if seq[0][0] in ("del", "pack", "reopen"):
                continue  # nothing to delete / pack / re-open yet
            if any(a == b for a, b in zip(seq, seq[1:]) if a[0] in ("reopen", "set", "del")):
                continue  # immediate repetition of an idempotent step
            out.append([list(o) for o in seq])
    return out


# --------------------------------------------------------------------------- level-parallel BFS


def work_level(task):
    bname, names, nodes, gitcheck = task
    acc = Acc()
    backend = BACKENDS[bname]()
    work = fresh_dir("c16w")
    out = []
    try:
        for snap, model, path in nodes:
            for op in menu(names, model, backend):
                r = transition(acc, bname, names, snap, model, op, path, work)
                if r is None:
                    continue
                ns, nmod = r
                out.append((backend.key(ns, nmod), ns, nmod, path + [op]))
            if gitcheck and bname == "files":
                git_view(acc, names, snap, model, path, work)
    finally:
        rmtree(work)
    # dedupe inside the worker
    seen = {}
    for key, ns, nmod, p in out:
        seen.setdefault(key, (ns, nmod, p))
    return acc, [(k,) + v for k, v in seen.items()]


def git_view(acc, names, snap, model, path, work):
    """C git must list the same refs and symbolic refs from this directory."""
    root = os.path.join(work, "g")
    statespace.restore(snap, root)
    os.makedirs(os.path.join(root, "objects"), exist_ok=True)
    if not os.path.exists(os.path.join(root, "config")):
        with open(os.path.join(root, "config"), "wb") as f:
            f.write(b"[core]\n\trepositoryformatversion = 0\n\tbare = true\n")
    p = git(["for-each-ref", "--format=%(refname) %(objectname) %(symref)"], cwd=root, check=False,
            env={"GIT_DIR": root})
    acc.count("git_states")
    got = {}
    for line in p.stdout.splitlines():
        parts = line.split(b" ")
        got[parts[0]] = (parts[1], parts[2] if len(parts) > 2 else b"")
    want = {}
    for n, v in model.items():
        if n == HEAD:
            continue
        real, cur, loop = m_chain(model, n)
        if isinstance(v, tuple):
            if cur is not None and not loop:
                want[n] = (cur, v[1])
        else:
            want[n] = (v, b"")
    # git refuses to list refs whose object is missing ("missing object"): compare names + symref targets + values git does print
    gotn = {k: v for k, v in got.items()}
    if set(gotn) - set(want) or any(gotn[k][1] != want[k][1] or gotn[k][0] != want[k][0] for k in gotn if k in want):
        acc.violation("files:git-view:for-each-ref-differs", "after [%s]: git lists %r, model %r" % (
            " ; ".join(opname(o) for o in path[-4:]), {k.decode(): (nm(v[0]), v[1].decode()) for k, v in got.items()},
            {k.decode(): (nm(v[0]), v[1].decode()) for k, v in want.items()}), rp("case_sequence", "files", list(names), list(path)))
    if isinstance(model.get(HEAD), tuple):
        p2 = git(["symbolic-ref", "HEAD"], cwd=root, check=False, env={"GIT_DIR": root})
        # git 2.39 follows the chain to its last symbolic ref (--recurse is the default and cannot be switched off)
        last, _, loop = m_chain(model, HEAD)
        if not loop and p2.stdout.strip() != last:
            acc.violation("files:git-view:symbolic-ref-HEAD-differs", "git says %r, model %r" % (p2.stdout.strip(), last),
                          rp("case_sequence", "files", list(names), list(path)))


def bfs(ctx, bname, names, max_depth, gitcheck=False, max_states=None):
    backend = BACKENDS[bname]()
    snap, model = backend.initial(names)
    seen = {backend.key(snap, model)}
    level = [(snap, model, [])]
    depth = 0
    states = 1
    capped = False
    while level and (max_depth is None or depth < max_depth):
        parts = split(level, ctx.jobs * 2)
        nxt = []
        for acc, found in pmap(work_level, [(bname, names, part, gitcheck) for part in parts], jobs=ctx.jobs):
            ctx.acc.merge(acc)
            for key, ns, nmod, path in found:
                if key in seen:
                    continue
                if max_states is not None and states >= max_states:
                    capped = True
                    continue
                seen.add(key)
                states += 1
                nxt.append((ns, nmod, path))
        nxt.sort(key=lambda t: repr(t[2]))
        level = nxt
        depth += 1
    return {"backend": bname, "names": len(names), "states": states, "depth_completed": depth, "closed": not level, "capped": capped}


# --------------------------------------------------------------------------- ref-name validity

NAME_ALPHA = [b"a", b"/", b".", b"@", b"{", b"\\", b"*", b"?", b"[", b"~", b"^", b":", b" ", b"\x7f", b"\x1f", b"-", b"\xc3\xa9"]
TOKENS = [b"a", b"/", b".", b"..", b"@", b"@{", b".lock", b"lock", b"-", b"*"]


def case_refname(acc, name, use_git):
    from dulwich.refs import check_ref_format

    got = bool(check_ref_format(name))
    want = refname_model.valid(name)
    acc.count("refname_cases")
    if use_git and not name.startswith(b"-"):  # the CLI parses a leading dash as an option (usage error)
        p = git(["check-ref-format", name], check=False)
        if p.returncode not in (0, 1):
            raise HarnessError("git check-ref-format %r: unexpected exit %d" % (name, p.returncode))
        g = p.returncode == 0
        acc.count("refname_git_checked")
        if g != want:
            raise HarnessError("reference transcription of git-check-ref-format disagrees with git on %r: model %s git %s" % (name, want, g))
    acc.outcome("refname:%s" % ("valid" if want else "invalid:" + refname_model.why(name)))
    if got != want:
        acc.violation("check_ref_format:%s:%s" % ("accepts-invalid" if got else "rejects-valid", refname_model.why(name) if not want else "valid-name"),
                      "check_ref_format(%r) = %s, git check-ref-format says %s" % (name, got, want), rp(case_refname, name, True))


def work_names(task):
    names, use_git = task
    acc = Acc()
    for n in names:
        case_refname(acc, n, use_git)
    return acc


# --------------------------------------------------------------------------- run


def run(ctx):
    q = ctx.quick
    stats = []
    stats.append(bfs(ctx, "files", U3, max_depth=4 if q else None, gitcheck=not q, max_states=None if q else 40000))
    stats.append(bfs(ctx, "dict", U3, max_depth=4 if q else 6))
    stats.append(bfs(ctx, "reftable", U3, max_depth=3 if q else 4))
    case_reftable_zero(ctx.acc)
    sweeps = length_sweep_tasks(q) + [("depth", k, d) for k in range(1, 9) for d in (False, True)]
    for acc in pmap(work_sweeps, ctx.order(sweeps), jobs=ctx.jobs):
        ctx.acc.merge(acc)
    if not q:
        stats.append(bfs(ctx, "files", U5, max_depth=3, gitcheck=True))
    pseqs = peeled_sequences(4 if q else 5)
    for acc in pmap(work_peeled, split(ctx.order(pseqs), ctx.jobs * 4), jobs=ctx.jobs):
        ctx.acc.merge(acc)
    # names
    names = [b"".join(t) for n in range(1, 5) for t in itertools.product(NAME_ALPHA, repeat=n)]
    toks = [b"".join(t) for n in range(1, 5) for t in itertools.product(TOKENS, repeat=n)]
    allnames = sorted(set(names) | set(toks))
    gitset = set(toks) | {n for n in names if len(n) <= 3}
    tasks = []
    for part in split(ctx.order(allnames), ctx.jobs * 4):
        if q:
            tasks.append(([n for n in part if n in gitset], True))
            tasks.append(([n for n in part if n not in gitset], False))
        else:
            tasks.append((part, True))
    for acc in pmap(work_names, tasks, jobs=ctx.jobs):
        ctx.acc.merge(acc)
    n = ctx.acc.n
    ctx.level = "model_checking"
    ctx.coverage.update(
        states=sum(s["states"] for s in stats),
        transitions=n.get("transitions", 0),
        traces_validated_against_impl=n.get("transitions", 0),
        evaluations=n.get("transitions", 0) + n.get("refname_cases", 0),
        distinct_nontrivial=len(ctx.acc.classes),
        searches=stats,
        rule="E3: BFS over canonical storage states of each backend (files: directory snapshot incl. loose/packed layout; dict: the dict; reftable: "
             "model state x number of tables); menu of ~56 operations per state over the name universe; every transition executed on a fresh, a warm and a "
             "bystander container and compared with the map model. Peeled values: every history of <=%d steps over 12 operations (set a tag ref to a commit / tag / tag of a tag, "
             "set a branch, delete, pack_refs(all) / pack_refs(tags), re-open) on a real repository; refs, Repo.get_peeled, refs.get_peeled through the live and a fresh Repo and "
             "git show-ref -d against the model. Ref names: all byte strings <=4 over 17 characters + token strings <=4 over 10 tokens." % (4 if q else 5),
        exhaustive=all(not s["capped"] for s in stats),
        refnames=n.get("refname_cases", 0),
        peeled_histories=n.get("peeled_histories", 0),
        refnames_checked_against_git=n.get("refname_git_checked", 0),
    )
    ctx.assumptions += [
        "dict and reftable backends are only driven with sequences that do not write through symbolic refs or use colliding names (as the statement says)",
        "for colliding names with a failing condition both 'refused' and 'False' are accepted",
        "reftable states are merged when the model state and the number of tables agree (update indices are not part of the key)",
    ]


def replay(ctx, obj):
    import sys

    from engines.common import replay_generic

    return replay_generic(sys.modules[__name__], ctx, obj)
