"""C03 — delta codec: apply(create(base,target), base) == target for every encoder/decoder pairing;
hostile deltas fail cleanly (never kill the process, panic, or allocate out of proportion).

Bounded-exhaustive enumeration (E4) with every dulwich call executed inside the E6 sandbox:

  (a) round trips: every (base, target) over {a, b, NUL}^<=n squared, plus a boundary family
      (identical / empty sides, inserts around 127 bytes, sizes around the varint limits, common
      runs around 256 / 64 KiB, copy offsets needing 1..4 bytes)
        x encoders  {pure-Python create_delta, Rust create_delta, [thorough] C git pack-objects}
        x decoders  {pure-Python apply_delta, Rust apply_delta, git-semantics reference,
                     [thorough] C git index-pack + unpack-objects}
        x call forms {bytes, chunk lists};
  (b) hostile deltas: ALL byte strings of length <= L over a 12-symbol opcode-covering alphabet
      against bases of length 0, 3 and 5, plus structured families (size varints of 1..11 bytes,
      declared sizes up to 2^70, every copy opcode 0x80..0xff with offset/size bytes at, inside and
      beyond the base end, every truncation / byte substitution / opcode 0 / trailing byte /
      duplicated or dropped instruction of hand-made valid deltas, copy amplification)
        x decoders {pure-Python apply_delta, Rust apply_delta} (x call forms for the structured ones).

The Rust functions are the extensions rebuilt from the working tree (common.rust_paths, loaded by
path in a spawned interpreter); the pure-Python ones come from a sibling interpreter in which the
extension imports are blocked before dulwich is imported.
"""

from __future__ import annotations

import os
import re

from engines import deltaspace as ds
from engines import sandbox
from engines.common import Acc, HarnessError, fresh_dir, git, pmap_acc, replay_generic, rp, split
from engines.refmodels import delta as refdelta
from engines.refmodels import minipack

SETUP = "engines.deltaspace:sb_setup"
SETUP_ARG = ["B0", "B1", "B3", "B5", "BL", "BA", "BK"]
DECODE = "engines.deltaspace:sb_decode"
ENCODE = "engines.deltaspace:sb_encode"

FLAVOURS = (("rust", "rust"), ("py", "py"))  # (site prefix, sandbox flavour)
CHUNK_FORM_MAX = 1 << 16  # deltas longer than this are only decoded in the bytes/bytes form

FAST = {"wall_s": 90, "cpu_s": 5, "max_timeouts": 3}  # decoding: the CPU limit decides; the wall clock only catches sleeping hangs (robust under load)
SLOW = {"wall_s": 900, "cpu_s": 200}  # encoding the big boundary pairs with difflib


def pools():
    return [(site, sandbox.get_pool(fl, setup=SETUP, setup_arg=SETUP_ARG)) for site, fl in FLAVOURS]


def budget_kib(*lengths):
    """Statement: "never ... allocates memory out of proportion to the data actually supplied".
    Allowance = 64 MiB + 4 x (bytes supplied / legitimately produced)."""
    return 64 * 1024 + 4 * sum(lengths) // 1024 + 1


def _slug(s, n=60):
    s = re.sub(r"[0-9]+", "N", s)
    return re.sub(r"[^A-Za-z]+", "_", s).strip("_")[:n] or "x"


# --------------------------------------------------------------------------- judging one observation


def failure_of(obs):
    """None if the call returned or failed with an ordinary exception; otherwise a stable name of
    what the statement forbids (kill / panic / hang)."""
    if obs.kind == "sig":
        return "killed-" + obs.value
    if obs.kind == "timeout":
        return "timeout-" + obs.value
    if obs.kind == "exit":
        return "process-exited"
    if obs.kind == "exc":
        cls, mro, msg = obs.value
        if "PanicException" in mro or cls.startswith("pyo3_runtime"):
            return "panic:" + _slug(msg)
    return None


def judge_hostile(acc: Acc, site, bref, delta, form, obs, an, base, replay):
    """One decoder, one (base, delta): the second sentence of the statement."""
    feats = an.features()
    f0 = feats[0]
    acc.count("decodes")
    if obs.kind == "skipped":  # circuit breaker of the sandbox: too many timeouts in this batch
        acc.count("skipped_after_timeouts")
        acc.outcome("dec:%s:skipped-after-timeouts" % site)
        return "skipped"
    verdict = None
    bad = failure_of(obs)
    if bad:
        if bad.startswith("panic:"):
            key = "hostile:%s:%s" % (site, bad)
        else:
            key = "hostile:%s:%s:%s" % (site, bad, f0)
        acc.violation(key, "%s(base=%s, delta=%s) form=%d -> %s %r   [%s]" % (
            site, ds.describe(base), delta[:40].hex() + ("..." if len(delta) > 40 else ""), form, obs.kind, obs.value,
            ",".join(feats)), replay)
        verdict = bad.split(":")[0]
    elif obs.kind == "exc":
        cls, mro, msg = obs.value
        if "ApplyDeltaError" in mro:
            verdict = "delta-error"
        else:
            verdict = "exception-" + cls.rsplit(".", 1)[-1]
            acc.violation("hostile:%s:unexpected-exception:%s:%s" % (site, cls.rsplit(".", 1)[-1], f0),
                          "%s(base=%s, delta=%s) form=%d raised %s: %s   [%s]" % (
                              site, ds.describe(base), delta[:40].hex(), form, cls, msg[:120], ",".join(feats)), replay)
    else:
        val = obs.value
        adm = an.admissible_output(base)
        if val[0] == "badtype":
            verdict = "bad-return-type"
            acc.violation("hostile:%s:bad-return-type" % site, "%s returned %s" % (site, val[1]), replay)
        else:
            got_len = len(val[1]) if val[0] == "b" else val[1]
            if got_len != an.dest:
                verdict = "wrong-length"
                acc.violation("hostile:%s:output-length-differs-from-declared-size:%s" % (
                    site, f0 if f0.startswith("size-varint") else "plain-header"),
                              "%s(base=%s, delta=%s) returned %d bytes but the delta declares %r   [%s]" % (
                                  site, ds.describe(base), delta[:40].hex(), got_len, an.dest, ",".join(feats)), replay)
            elif adm is None or ds.summarise(adm) != val:
                verdict = "wrong-content"
                acc.violation("hostile:%s:output-not-made-of-the-instructions" % site,
                              "%s(base=%s, delta=%s) returned %r; instruction trace gives %r   [%s]" % (
                                  site, ds.describe(base), delta[:40].hex(), val[1] if val[0] == "b" else val,
                                  adm if adm is None or len(adm) < 40 else ds.summarise(adm), ",".join(feats)), replay)
            elif an.valid():
                verdict = "ok-valid"
            else:
                verdict = "ok-accepted-irregular"  # left open by the statement
    if obs.vm_kib is not None:
        allow = budget_kib(len(base), len(delta), min(an.dest or 0, sum(op.size for op in an.ops if not op.problem)))
        grew = max(obs.vm_kib, obs.rss_kib)
        if grew > allow:
            mf = [x for x in feats if x.startswith(("declared-size", "copies-exceed"))]
            acc.violation("hostile:%s:allocation-out-of-proportion:%s" % (site, mf[0] if mf else f0),
                          "%s(base=%d bytes, delta=%d bytes %s) grew the process by %d MiB virtual / %d MiB resident "
                          "(allowance %d MiB) and then %s   [%s]" % (
                              site, len(base), len(delta), delta[:24].hex(), obs.vm_kib >> 10, obs.rss_kib >> 10, allow >> 10,
                              verdict, ",".join(feats)), replay)
            verdict += "+alloc-blowup"
    acc.outcome("dec:%s:%s:%s" % (site, verdict, f0))
    return verdict


def eval_hostile(acc: Acc, items, forms=(0,), git_bases=()):
    """items: [(base ref, delta)].  Every decoder x every form, judged against the reference trace.
    git_bases: base names for which C git (index-pack) is asked as well: entirely valid deltas (one pack
    per call) and deltas that a dulwich decoder accepted although they are not entirely valid (one
    index-pack each).  C git's verdict is a cross-check of the reference model and an outcome class —
    the statement leaves open whether an irregular trailing instruction is rejected."""
    inputs = [(bref, d, f) for (bref, d) in items for f in forms]
    ps = pools()
    res = sandbox.observe_all([(p, DECODE, inputs) for _, p in ps], **FAST)
    k = 0
    git_valid, git_lenient = [], []
    for bref, d in items:
        base = ds.base_of(bref)
        an = refdelta.analyse(len(base), d)
        acc.count("hostile_inputs")
        accepted = False
        for f in forms:
            for (site, _), obs in zip(ps, res):
                v = judge_hostile(acc, site + ".apply_delta", bref, d, f, obs[k], an, base, rp(case_decode, bref, d, f))
                accepted = accepted or v == "ok-accepted-irregular"
            k += 1
        if bref in git_bases:
            if an.valid() and len(d) >= refdelta.GIT_MIN_DELTA:
                git_valid.append((base, d, an))
            elif accepted:
                git_lenient.append((base, d, an))
    if git_valid or git_lenient:
        g = _Git.get()
        for (base, d, an), got in zip(git_valid, g.decode_batch([(b, d) for b, d, _ in git_valid])):
            acc.count("hostile_git_index_pack")
            if got != minipack.blob_id(an.result(base)).hex():
                raise HarnessError("reference decoder and git index-pack disagree on a valid delta: base of %d bytes, delta %s -> %s"
                                   % (len(base), d.hex(), got))
            acc.outcome("dec:git.index-pack:ok-valid")
        for base, d, an in git_lenient:
            acc.count("hostile_git_index_pack")
            got = g.decode_batch([(base, d)])[0]
            if not got.startswith("rejected"):
                raise HarnessError("git index-pack accepts a delta the reference model (git semantics) calls invalid: base of %d "
                                   "bytes, delta %s" % (len(base), d.hex()))
            # dulwich accepts, C git 2.39 refuses ("delta replay has gone wild"): allowed by the statement, recorded
            acc.outcome("dec:git.index-pack:rejects-irregular-delta-dulwich-accepts:%s" % an.features()[0])


def case_decode(acc: Acc, bref, delta, form=0):
    """Replay entry: one hostile (base, delta, form) against both decoders."""
    eval_hostile(acc, [(bref, delta)], forms=(form,))


# --------------------------------------------------------------------------- round trips


def _enc_failure(obs):
    bad = failure_of(obs)
    if bad:
        return bad
    if obs.kind == "exc":
        return "raised-" + obs.value[0].rsplit(".", 1)[-1]
    if obs.value[0] != "d":
        return "bad-return-type"
    return None


class _Git:
    """Scratch bare repository of this process for the C git pairings (thorough tier)."""

    inst = None

    def __init__(self):
        self.dir = fresh_dir("c03git")
        git(["init", "--bare", "-q", self.dir])
        self.n = 0

    @classmethod
    def get(cls):
        if cls.inst is None or cls.inst.pid != os.getpid():
            cls.inst = cls()
            cls.inst.pid = os.getpid()
        return cls.inst

    def tmp(self, suffix):
        self.n += 1
        return os.path.join(self.dir, "t%d%s" % (self.n, suffix))

    def write_blobs(self, blobs):
        """-> {content: hex id}; one hash-object process for all of them."""
        blobs = sorted(set(blobs))
        paths = []
        for b in blobs:
            p = self.tmp(".blob")
            with open(p, "wb") as f:
                f.write(b)
            paths.append(p)
        out = git(["hash-object", "-w", "--stdin-paths"], cwd=self.dir, input=("\n".join(paths) + "\n").encode()).stdout.split()
        for p in paths:
            os.unlink(p)
        ids = {b: i.decode() for b, i in zip(blobs, out)}
        for b, i in ids.items():
            if bytes.fromhex(i) != minipack.blob_id(b):
                raise HarnessError("git hash-object disagrees with the reference blob id")
        return ids

    def encode(self, ids, a, b):
        """Let pack-objects pack the two blobs; -> (base, target, delta) if it deltified one, else None."""
        if a == b:
            return None
        p = git(["-c", "pack.threads=1", "pack-objects", "--stdout", "-q", "--delta-base-offset", "--window=10", "--depth=10"],
                cwd=self.dir, input=("%s\n%s\n" % (ids[a], ids[b])).encode())
        entries = minipack.parse(p.stdout)
        if len(entries) != 2:
            raise HarnessError("pack-objects produced %d entries for two blobs" % len(entries))
        full = [e for e in entries if e["type"] == minipack.OBJ_BLOB]
        dl = [e for e in entries if e["type"] in (minipack.OFS_DELTA, minipack.REF_DELTA)]
        if len(full) == 2:
            return None
        if len(full) != 1 or len(dl) != 1:
            raise HarnessError("unexpected pack-objects output")
        basec = full[0]["data"]
        if basec not in (a, b):
            raise HarnessError("pack-objects base is neither input")
        return (basec, b if basec == a else a, dl[0]["data"])

    def decode_batch(self, items):
        """items: [(base, delta)] -> list of hex ids C git computed for the delta results, or for
        rejected items the string "rejected: ..."; one index-pack per batch, bisecting on failure."""
        if not items:
            return []
        w = minipack.Writer()
        offs = []
        for base, d in items:
            bo = w.add_blob(base)
            offs.append(w.add_ofs_delta(bo, d))
        pack = self.tmp(".pack")
        with open(pack, "wb") as f:
            f.write(w.finish())
        idx = pack[:-5] + ".idx"
        p = git(["index-pack", "-o", idx, pack], cwd=self.dir, check=False)
        try:
            if p.returncode != 0:
                if len(items) == 1:
                    return ["rejected: " + p.stderr.decode("utf-8", "replace").strip()[:200]]
                h = len(items) // 2
                return self.decode_batch(items[:h]) + self.decode_batch(items[h:])
            with open(idx, "rb") as f:
                table = minipack.parse_show_index(git(["show-index"], cwd=self.dir, input=f.read()).stdout)
            with open(pack, "rb") as f:
                u = git(["unpack-objects", "-q"], cwd=self.dir, input=f.read(), check=False)
            if u.returncode != 0:
                raise HarnessError("git unpack-objects rejects a pack that git index-pack accepted: %r" % u.stderr[-300:])
            return [table[o] for o in offs]
        finally:
            for q in (pack, idx):
                if os.path.exists(q):
                    os.unlink(q)


def eval_pairs(acc: Acc, pairs, use_git=0, enc_forms=(0,), slow=False):
    """pairs: [(tag, base spec, target spec)].  Full encoder x decoder matrix.
    use_git: 0 = no C git, 1 = C git as decoder only (one index-pack per call), 2 = also as encoder
    (one pack-objects process per pair; pointless below 50 bytes, where git never deltifies)."""
    ps = pools()
    opts = SLOW if slow else FAST
    enc_inputs = [(b, t, f) for (_, b, t) in pairs for f in enc_forms]
    enc_res = sandbox.observe_all([(p, ENCODE, enc_inputs) for _, p in ps], **opts)
    # collect the deltas per pair
    per_pair = []  # (tag, bspec, tspec, base, target, [(encoder site, delta)])
    k = 0
    gitrepo = _Git.get() if use_git else None
    for tag, bspec, tspec in pairs:
        base = ds.resolve(bspec)
        target = ds.resolve(tspec)
        replay = rp(case_pair, tag, bspec, tspec, use_git)
        deltas = []
        acc.count("pairs")
        for f in enc_forms:
            for (site, _), res in zip(ps, enc_res):
                obs = res[k]
                esite = site + ".create_delta"
                acc.count("encodes")
                if obs.kind == "skipped":
                    acc.count("skipped_after_timeouts")
                    continue
                bad = _enc_failure(obs)
                if bad:
                    acc.outcome("enc:%s:%s" % (esite, bad.split(":")[0]))
                    acc.violation("roundtrip:%s:encoder-%s" % (esite, bad),
                                  "%s(%s, %s) form=%d -> %s %r" % (esite, ds.describe(bspec), ds.describe(tspec), f, obs.kind,
                                                                   obs.value if obs.kind != "ret" else obs.value[:1]), replay)
                    continue
                d = obs.value[1]
                if (esite, d) not in deltas:
                    deltas.append((esite, d))
                acc.outcome("enc:%s:ok" % esite)
            k += 1
        per_pair.append((tag, bspec, tspec, base, target, deltas, replay))
    # C git as encoder
    if use_git >= 2:
        ids = gitrepo.write_blobs([x[3] for x in per_pair] + [x[4] for x in per_pair])
        extra = []
        for tag, bspec, tspec, base, target, deltas, replay in per_pair:
            acc.count("git_pack_objects_runs")
            r = gitrepo.encode(ids, base, target)
            if r is None:
                acc.outcome("enc:git.pack-objects:no-delta")
                continue
            gb, gt, gd = r
            acc.outcome("enc:git.pack-objects:delta" + ("" if gb == base else "-reversed"))
            if gb == base:
                deltas.append(("git.pack-objects", gd))
            else:  # git chose the other direction: a round trip for the reversed pair
                extra.append((tag + "/reversed-by-git", tspec, bspec, gb, gt, [("git.pack-objects", gd)],
                              rp(case_pair, tag, tspec, bspec, use_git)))
        per_pair += extra
    # decode everything with every decoder
    dec_inputs = []
    for tag, bspec, tspec, base, target, deltas, replay in per_pair:
        for esite, d in deltas:
            dec_inputs.append((bspec, d, 0))
            if len(d) <= CHUNK_FORM_MAX:
                dec_inputs.append((bspec, d, 1))
    dec_res = sandbox.observe_all([(p, DECODE, dec_inputs) for _, p in ps], **FAST)
    git_items = []
    k = 0
    for tag, bspec, tspec, base, target, deltas, replay in per_pair:
        want = ds.summarise(target)
        for esite, d in deltas:
            # reference decoder (git semantics)
            acc.count("roundtrips_ref")
            r = refdelta.decode(base, d)
            if r is None:
                an = refdelta.analyse(len(base), d)
                acc.violation("roundtrip:%s->ref.git:invalid-delta" % esite,
                              "%s(%s, %s) produced %s which is not a valid git delta [%s]" % (
                                  esite, ds.describe(bspec), ds.describe(tspec), d[:40].hex(), ",".join(an.features())), replay)
            elif r != target:
                acc.violation("roundtrip:%s->ref.git:wrong-output" % esite,
                              "%s(%s, %s) produced %s which decodes to %s" % (
                                  esite, ds.describe(bspec), ds.describe(tspec), d[:40].hex(), ds.describe(r)), replay)
            elif len(d) < refdelta.GIT_MIN_DELTA:
                acc.outcome("rt:%s->ref.git:shorter-than-git-minimum" % esite)
                acc.violation("roundtrip:%s->ref.git:delta-shorter-than-git-minimum" % esite,
                              "%s(%s, %s) produced the %d-byte delta %s; C git's patch_delta() refuses every delta shorter than "
                              "4 bytes (DELTA_SIZE_MIN)" % (esite, ds.describe(bspec), ds.describe(tspec), len(d), d.hex()), replay)
            if use_git and esite != "git.pack-objects":
                git_items.append((esite, base, target, d, r, bspec, tspec, replay))
            forms = (0, 1) if len(d) <= CHUNK_FORM_MAX else (0,)
            for f in forms:
                for (site, _), res in zip(ps, dec_res):
                    obs = res[k]
                    dsite = site + ".apply_delta"
                    acc.count("roundtrips")
                    if obs.kind == "skipped":
                        acc.count("skipped_after_timeouts")
                        continue
                    bad = failure_of(obs)
                    why = None
                    if bad:
                        why = "decoder-" + bad
                    elif obs.kind == "exc":
                        why = "decoder-raised-" + obs.value[0].rsplit(".", 1)[-1]
                    elif obs.value != want:
                        why = "wrong-output"
                    if why is None and obs.vm_kib is not None:
                        if max(obs.vm_kib, obs.rss_kib) > budget_kib(len(base), len(d), len(target)):
                            why = "decoder-allocation-out-of-proportion"
                    acc.outcome("rt:%s->%s:%s" % (esite, dsite, (why or "ok").split(":")[0]))
                    if why:
                        acc.violation("roundtrip:%s->%s:%s" % (esite, dsite, why),
                                      "base=%s target=%s delta=%s form=%d -> %s %r (want %r)" % (
                                          ds.describe(bspec), ds.describe(tspec), d[:40].hex(), f, obs.kind,
                                          obs.value if obs.kind != "ret" or obs.value[0] != "b" else obs.value[1][:40], want[1:] if want[0] == "h" else want[1][:40]),
                                      replay)
                k += 1
    # C git as decoder
    if git_items:
        got = gitrepo.decode_batch([(x[1], x[3]) for x in git_items])
        for (esite, base, target, d, r, bspec, tspec, replay), g in zip(git_items, got):
            acc.count("roundtrips_git_index_pack")
            want_id = minipack.blob_id(target).hex()
            if g.startswith("rejected"):
                short = len(d) < refdelta.GIT_MIN_DELTA
                if r is not None and not short:
                    raise HarnessError("reference decoder accepts a delta that git index-pack rejects: base=%r delta=%s (%s)"
                                       % (base[:40], d[:60].hex(), g))
                why = "delta-shorter-than-git-minimum" if short and r is not None else "invalid-delta"
                acc.outcome("rt:%s->git.index-pack:rejected-%s" % (esite, why))
                acc.violation("roundtrip:%s->git.index-pack:rejected:%s" % (esite, why),
                              "base=%s target=%s delta=%s: %s" % (ds.describe(bspec), ds.describe(tspec), d[:40].hex(), g), replay)
                continue
            if len(d) < refdelta.GIT_MIN_DELTA:
                raise HarnessError("git index-pack accepted a %d-byte delta; the reference model says C git refuses those" % len(d))
            if r is None:
                # git accepted something the reference calls invalid: allowed for git (trailing irregular op), but
                # then the two oracles must be reconciled by hand
                raise HarnessError("git index-pack accepts a delta the reference decoder rejects: base=%r delta=%s"
                                   % (base[:40], d[:60].hex()))
            if minipack.blob_id(r).hex() != g:
                raise HarnessError("reference decoder and git index-pack disagree on base=%r delta=%s" % (base[:40], d[:60].hex()))
            ok = g == want_id
            acc.outcome("rt:%s->git.index-pack:%s" % (esite, "ok" if ok else "wrong-output"))
            if not ok:
                acc.violation("roundtrip:%s->git.index-pack:wrong-output" % esite,
                              "base=%s target=%s delta=%s: git resolved the delta to object %s, target is %s" % (
                                  ds.describe(bspec), ds.describe(tspec), d[:40].hex(), g, want_id), replay)


def case_pair(acc: Acc, tag, bspec, tspec, use_git=0):
    """Replay entry: the complete encoder x decoder matrix for one (base, target)."""
    eval_pairs(acc, [(tag, bspec, tspec)], use_git=use_git, enc_forms=(0, 2), slow=True)


# --------------------------------------------------------------------------- git-encoder pair family

G_BLOCKS = {"A": ("cyc", 40, 65), "B": ("cyc", 40, 150), "Z": ("zeros", 40)}


def g_strings(max_blocks):
    import itertools

    out = []
    for n in range(max_blocks + 1):
        for t in itertools.product("ABZ", repeat=n):
            out.append(("cat",) + tuple(G_BLOCKS[c] for c in t) if t else b"")
    return out


# --------------------------------------------------------------------------- tasks


def work(task):
    """One unit of enumeration.  Harness failures are carried home in the Acc and raised by run():
    raising inside a pool worker would leave the other workers of the pool hanging."""
    acc = Acc()
    try:
        _work(acc, task)
    except Exception as e:
        import traceback

        acc = Acc()
        acc.note("harness_error", "%r in task %r\n%s" % (e, repr(task)[:200], traceback.format_exc()))
    return acc


def _work(acc, task):
    kind = task[0]
    if kind == "hostile":
        _, prefix, max_len = task
        items = [(b, s) for s in ds.hostile_strings(prefix, max_len) for b in ds.HOSTILE_BASES]
        eval_hostile(acc, items)
        acc.count("hostile_exhaustive_strings", len(items) // len(ds.HOSTILE_BASES))
    elif kind == "structured":
        _, items = task
        for tag, _, _ in items:
            t = tag.split("-")
            acc.count("structured:" + ("-".join(t[:2]) if t[0] == "mut" else t[0]))
        eval_hostile(acc, [(b, d) for _, b, d in items], forms=(0, 1))
    elif kind == "scopy":
        _, cmd, thorough, part, nparts = task
        items = ds.structured_copy([cmd], ds.copy_values(thorough))[part::nparts]
        acc.count("structured:copy-masks", len(items))
        eval_hostile(acc, [(b, d) for _, b, d in items])
    elif kind == "swidth":
        _, cmds, git_bases = task
        items = ds.structured_copy_widths(cmds)
        acc.count("structured:copy-widths", len(items))
        eval_hostile(acc, [(b, d) for _, b, d in items], git_bases=git_bases)
    elif kind == "pairs":
        _, pairs, use_git = task
        eval_pairs(acc, [("small", b, t) for b, t in pairs], use_git=use_git, enc_forms=(0, 2))
    elif kind == "gpairs":
        _, pairs = task
        eval_pairs(acc, [("blocks", b, t) for b, t in pairs], use_git=2)
    elif kind == "boundary":
        _, tag, b, t, use_git = task
        acc.count("boundary_pairs")
        small = ds.spec_len(b) + ds.spec_len(t) <= 20000
        eval_pairs(acc, [(tag, b, t)], use_git=use_git, enc_forms=(0, 2) if small else (0,), slow=True)
    else:
        raise AssertionError(kind)


def run(ctx):
    q = ctx.quick
    J = ctx.jobs
    use_git = 2  # C git takes part in both tiers; per-pair pack-objects only where git can deltify (>= 50 bytes)
    pair_len = 4 if q else 6
    host_len = 5 if q else 6
    g_blocks = 3 if q else 4
    from engines import common

    common.rust_paths()  # build once, before the workers fork
    info = {site: p.info for site, p in pools()}
    sandbox.drop_pools()
    tasks = []
    # boundary pairs first (the slowest single items: difflib on 64 KiB+ inputs)
    bp = ds.boundary_pairs(not q)
    heavy = sorted(bp, key=lambda x: -(ds.spec_len(x[1]) + ds.spec_len(x[2])))
    for tag, b, t in heavy:
        tasks.append(("boundary", tag, b, t, use_git))
    # hostile, exhaustive
    for prefix in ds.hostile_prefixes():
        tasks.append(("hostile", prefix, host_len))
    # hostile, structured
    for part in split(ds.structured_small(), J * 2):
        tasks.append(("structured", part))
    nvals = len(ds.copy_values(not q))
    for cmd in range(0x80, 0x100):
        nparts = max(1, 10 * nvals ** bin(cmd & 0x7F).count("1") // 40000)
        for part in range(nparts):
            tasks.append(("scopy", cmd, not q, part, nparts))
    # copy instructions at the width boundaries of their offset / size fields (offset + size around
    # 2^8 .. 2^32), also resolved by C git where a dulwich decoder accepts or the delta is valid
    git_bases = ("B1",) if q else ds.WIDTH_BASES
    for lo in range(0x80, 0x100, 4):
        tasks.append(("swidth", list(range(lo, lo + 4)), git_bases))
    # small pairs
    pairs = list(ds.small_pairs(pair_len))
    for part in split(ctx.order(pairs), max(J * 4, len(pairs) // 4000)):
        tasks.append(("pairs", part, min(use_git, 1)))
    ng = 0
    if g_blocks:
        gs = g_strings(g_blocks)
        gp = [(gs[i], gs[j]) for i in range(len(gs)) for j in range(i + 1, len(gs))]
        ng = len(gp)
        for part in split(ctx.order(gp), J * 4):
            tasks.append(("gpairs", part))
    nb = len(heavy)
    tasks = tasks[:nb] + ctx.order(tasks[nb:])
    t_setup = ctx.elapsed()
    pmap_acc(work, tasks, ctx.acc, jobs=ctx.jobs)
    ctx.coverage["phases_wall_s"] = {"build+task-list": round(t_setup, 1), "enumeration": round(ctx.elapsed() - t_setup, 1)}
    if "harness_error" in ctx.acc.notes:
        raise HarnessError(ctx.acc.notes["harness_error"])

    n = ctx.acc.n
    want_h = ds.hostile_count(host_len)
    if n.get("hostile_exhaustive_strings") != want_h:
        raise HarnessError("hostile enumeration incomplete: %r != %d" % (n.get("hostile_exhaustive_strings"), want_h))
    if n.get("pairs", 0) < len(pairs) + len(bp) + ng:
        raise HarnessError("pair enumeration incomplete")
    if n.get("structured:copy-widths") != ds.copy_width_count():
        raise HarnessError("copy-width family incomplete: %r != %d" % (n.get("structured:copy-widths"), ds.copy_width_count()))
    classes = ctx.acc.classes
    # vacuity guards: the interesting things must really have happened
    must = ["enc:py.create_delta:ok", "enc:rust.create_delta:ok", "rt:py.create_delta->rust.apply_delta:ok",
            "rt:rust.create_delta->py.apply_delta:ok"]
    if use_git:
        must += ["enc:git.pack-objects:delta", "rt:git.pack-objects->py.apply_delta:ok",
                 "rt:git.pack-objects->rust.apply_delta:ok", "rt:py.create_delta->git.index-pack:ok",
                 "rt:rust.create_delta->git.index-pack:ok"]
    for m in must:
        if not classes.get(m):
            raise HarnessError("vacuous run: outcome class %r never occurred" % m)
    if not classes.get("dec:git.index-pack:ok-valid"):
        raise HarnessError("vacuous run: C git never resolved a valid delta of the copy-width family")
    for site in ("py.apply_delta", "rust.apply_delta"):
        if not any(c.startswith("dec:%s:ok-valid" % site) for c in classes) or \
           not any(c.startswith("dec:%s:delta-error" % site) for c in classes):
            raise HarnessError("vacuous run: %s never accepted / never rejected a hostile delta" % site)
    ctx.level = "exploration"
    if n.get("skipped_after_timeouts"):
        ctx.coverage["exhaustive"] = False
        ctx.coverage["cap"] = ("%d sandbox calls were skipped by the timeout circuit breaker (3 timeouts per batch); the "
                               "timeouts themselves are reported as violations" % n["skipped_after_timeouts"])
    ctx.coverage.update(
        evaluations=n.get("decodes", 0) + n.get("hostile_git_index_pack", 0) + n.get("roundtrips", 0) + n.get("roundtrips_ref", 0) + n.get("roundtrips_git_index_pack", 0),
        distinct_nontrivial=len([c for c in classes if not c.endswith(":ok") and ":ok-valid:" not in c]),
        exhaustive=not n.get("skipped_after_timeouts"),
        rule=(
            "E4+E6 bounded-exhaustive. (a) all (base,target) in {a,b,NUL}^<=%d squared (%d pairs) + %d boundary pairs%s, "
            "each through every encoder {py,rust%s} x every decoder {py,rust,reference%s} x call forms {bytes, chunk lists}; "
            "(b) ALL %d byte strings of length <=%d over the alphabet %s as deltas against bases of length 0/3/5, plus "
            "%d structured deltas (varints of 1..11 bytes, declared sizes up to 2^70, every copy opcode 0x80..0xff x "
            "offset/size bytes in %r, every copy opcode x width-boundary values 00/01/7f/80/ff of each offset/size byte over "
            "all-00 / all-ff backgrounds against bases of 0/1/65536/65537 bytes (offset+size up to and beyond 2^32; C git "
            "index-pack cross-checks the valid and the leniently accepted ones), mutations of valid deltas, copy "
            "amplification), each against py and rust apply_delta "
            "inside the sandbox (RLIMIT_AS 2 GiB, CPU limit, wall-clock watchdog). evaluations = decoder calls judged + "
            "round-trip comparisons. distinct_nontrivial = observed outcome classes other than plain success."
            % (pair_len, len(pairs), len(bp), (" + %d block pairs for the C git encoder" % ng) if ng else "",
               ",git pack-objects" if use_git else "", ",git index-pack/unpack-objects" if use_git else "",
               want_h, host_len, ds.HOSTILE_ALPHA.hex(" "),
               sum(v for k, v in n.items() if k.startswith("structured:")), list(ds.copy_values(not q)))
        ),
        bounds={"pair_len": pair_len, "pairs": len(pairs), "boundary_pairs": len(bp), "git_block_pairs": ng,
                "hostile_len": host_len, "hostile_strings": want_h, "hostile_bases": list(ds.HOSTILE_BASES),
                "rlimit_as": sandbox.DEFAULT_AS, "alloc_allowance": "64 MiB + 4 x (len(base)+len(delta)+legitimate output)"},
        outcome_classes=dict(sorted(classes.items())),
        implementations={site: {k: v for k, v in i.items() if k in ("apply_delta", "create_delta", "ext", "dulwich")}
                         for site, i in info.items()},
    )
    ctx.acc.sample({"first_hostile": "", "last_hostile": (ds.HOSTILE_ALPHA[-1:] * host_len).hex(),
                    "median_hostile": bytes([ds.HOSTILE_ALPHA[6]] * (host_len - 1)).hex()})
    ctx.acc.sample({"first_pair": ["", ""], "last_pair": [repr(pairs[-1][0]), repr(pairs[-1][1])],
                    "boundary_tags": sorted({t for t, _, _ in bp})[:40]})
    ctx.assumptions += [
        "reference decoder engines/refmodels/delta.py written from gitformat-pack.txt; in the thorough tier every delta "
        "it decodes is also resolved by C git 2.39.5 index-pack and a disagreement is a harness error",
        "for hostile input the oracle is exactly the statement: ApplyDeltaError, or bytes whose length equals the declared size "
        "and that are the concatenation of a prefix of executable instructions; whether an irregular trailing instruction is "
        "rejected is left open (outcome class ok-accepted-irregular)",
        "memory: growth of peak VmSize/VmHWM of the sandboxed worker attributable to one call (error <= 8 MiB) must stay below "
        "64 MiB + 4 x (len(base) + len(delta) + legitimately produced output)",
        "Rust extension = debug build of the working tree's crates by cargo build --offline (the same profile as the in-tree "
        ".so files); pure-Python twins from an interpreter where dulwich._pack/_objects/_diff_tree are blocked before import",
    ]


def replay(ctx, obj):
    import sys

    from engines import common

    common.rust_paths()
    return replay_generic(sys.modules[__name__], ctx, obj)
