"""C20 — configuration files round-trip and mean the same to dulwich and git.

Bounded-exhaustive enumeration (engine E4 + E3-style operation sequences) of

  (value)    every value over the alphabet the property names, up to a length, plus a sweep of the full
             byte alphabet minus NUL, as the single value of `[s] k`;
  (section / dotted-section / subsection / key)
             every section, subsection and key name over small alphabets that git allows;
  (caserules / multi / ops)
             every sequence of add / set / remove / rewrite(load->save) operations up to a depth on a live
             ConfigFile, over pools that exercise git's case rules and multi-valued keys, with a round trip
             after every step;
  (gitops)   every sequence of `git config --replace-all / --add / --unset-all` up to a depth, with dulwich
             reading (and rewriting) the file after every step.

Three paths are judged for every case, each tied to a clause of the statement:
  dulwich-write/dulwich-read   write_to_file -> from_file returns the same sections, subsections, keys
                               (section and key names case-insensitive, subsections case-sensitive), values
                               byte-exact, multi-valued keys in order;
  dulwich-write/git-read       `git config --file F --list -z` on the file written by write_to_path;
  git-write/dulwich-read       from_path on a file written by `git config --file F <name> <value>`.

Oracles: the enumerated input itself (the model state for operation sequences), C git 2.39.5, and an
independent reader/writer for the file format (engines/refmodels/gitconfig.py) which must agree with C git
on every file used (HarnessError otherwise).  C git runs in batch style: many entries per file, one
`--list -z` per file; only entries that the in-process pre-checks or the batch flag as suspicious are
re-evaluated one by one (case_entry), and that single-case evaluation is what a replay file re-runs.
"""

from __future__ import annotations

import itertools
import os
import re
import sys
from io import BytesIO

from engines.common import Acc, HarnessError, fresh_dir, git, pmap_acc, replay_generic, rmtree, rp, split
from engines.refmodels import gitconfig as ref


def _CF():
    from dulwich.config import ConfigFile

    return ConfigFile


# --------------------------------------------------------------------------- small helpers


def sec_tuple(section, subsection):
    return (section,) if subsection is None else (section, subsection)


def dw_text(c) -> bytes:
    f = BytesIO()
    c.write_to_file(f)
    return f.getvalue()


def exc_class(e) -> str:
    """Stable class of an exception: type + the constant leading words of its message."""
    msg = str(e)
    cut = re.search(r"""b'|b"|['"(\d]""", msg)
    if cut:
        msg = msg[: cut.start()]
    msg = "-".join(re.findall(r"[A-Za-z]+", msg)[:4])
    return type(e).__name__ + ("-" + msg if msg else "")


def first_lost(want: bytes, got) -> str:
    """Class of a byte-string mismatch: the first byte of `want` that `got` does not reproduce."""
    if got is None:
        return "missing"
    n = 0
    while n < len(want) and n < len(got) and want[n] == got[n]:
        n += 1
    if n == len(got):
        # truncated: blanks in front of the cut are dropped with it, name the byte that caused the cut
        rest = want[n:].lstrip(b" \t")
        if rest:
            return "first-lost-byte-" + ref.byte_name(rest[0])
    if n < len(want):
        return "first-lost-byte-" + ref.byte_name(want[n])
    return "extra-bytes-appended"


def writer_form(text: bytes) -> str:
    """How the writer chose to represent the value of a one-entry file (vacuity census)."""
    line = text.split(b"\n")[1] if text.count(b"\n") >= 2 else b""
    val = line.partition(b" = ")[2]
    return ("quoted" if val[:1] == b'"' else "plain") + ("+escapes" if b"\\" in val else "")


def observe(c):
    """What the public read API of a ConfigFile reports.

    -> (entries, problems); entries = [(ident, key_lower, value)] in API order with
    ident = (lower(section), subsection | None); problems = accessor inconsistencies
    (get_multivar / get disagreeing with items)."""
    entries = []
    problems = []
    secs = list(c.sections())
    for sec in secs:
        if not isinstance(sec, tuple) or len(sec) not in (1, 2):
            problems.append("sections-shape")
            continue
        ident = (sec[0].lower(), sec[1] if len(sec) == 2 else None)
        for k, v in c.items(sec):
            entries.append((ident, k.lower(), v))
    grouped = group(entries)
    for sec in secs:
        if not isinstance(sec, tuple) or len(sec) not in (1, 2):
            continue
        ident = (sec[0].lower(), sec[1] if len(sec) == 2 else None)
        for k, vals in grouped.get(ident, {}).items():
            try:
                if list(c.get_multivar(sec, k)) != vals:
                    problems.append("get_multivar")
                if c.get(sec, k) != vals[-1]:
                    problems.append("get")
            except KeyError:
                problems.append("get-KeyError")
    return entries, sorted(set(problems))


def group(entries):
    d = {}
    for ident, k, v in entries:
        d.setdefault(ident, {}).setdefault(k, []).append(v)
    return d


def flatten(entries):
    d = {}
    for ident, k, v in entries:
        d.setdefault(ref.flat(ident[0], ident[1], k), []).append(v)
    return d


def flat_group(listing):
    d = {}
    for name, v in listing:
        d.setdefault(name, []).append(v)
    return d


# --------------------------------------------------------------------------- C git + reference reader

_MEMO = {}
_WDIR = [None]


def _wdir():
    if _WDIR[0] is None or not os.path.isdir(_WDIR[0]):
        _WDIR[0] = fresh_dir("c20-")
    return _WDIR[0]


def _reset_wdir():
    if _WDIR[0] is not None:
        rmtree(_WDIR[0])
    _WDIR[0] = None


_fileno = [0]


def _newpath(tag="f"):
    _fileno[0] += 1
    return os.path.join(_wdir(), "%s%d" % (tag, _fileno[0]))


def _git_list(path):
    p = git(["config", "--file", path, "--list", "-z"], check=False)
    if p.returncode != 0:
        if b"bad config" in p.stderr:
            return None
        raise HarnessError("git config --list failed (%d): %r" % (p.returncode, p.stderr[-500:]))
    items = p.stdout.split(b"\0")
    if items[-1] != b"":
        raise HarnessError("git config --list -z: unterminated output %r" % p.stdout[-100:])
    out = []
    for it in items[:-1]:
        k, sep, v = it.partition(b"\n")
        out.append((k, v if sep else None))
    return out


def oracle_list(data: bytes, path=None, memo=False):
    """What the file means to git: C git's listing, cross-checked with the reference reader.
    -> (listing | None, reject_reason | None)."""
    if memo and data in _MEMO:
        return _MEMO[data]
    if path is None:
        path = _newpath("o")
        with open(path, "wb") as f:
            f.write(data)
    g = _git_list(path)
    try:
        m = ref.parse(data)
        reason = None
    except ref.BadConfig as e:
        m = None
        reason = e.reason
    if g != m:
        raise HarnessError("ORACLE-DISAGREEMENT on %r: C git %r, reference reader %r (%s)" % (data, g, m, reason))
    res = (g, reason)
    if memo:
        _MEMO[data] = res
    return res


_MEMO_GA = set()


def oracle_get_all(data: bytes, listing):
    """Oracle self-check (memoised per file content): `git config --get-all <name>` returns, for every
    name of the file, exactly the values of `--list` in the same order."""
    if data in _MEMO_GA:
        return
    path = _newpath("ga")
    with open(path, "wb") as f:
        f.write(data)
    for name, vals in sorted(flat_group(listing).items()):
        p = git(["config", "--file", path, "-z", "--get-all", "--", name], check=False)
        got = p.stdout.split(b"\0")[:-1] if p.returncode == 0 else None
        if got != vals:
            raise HarnessError("ORACLE-DISAGREEMENT: git config --get-all %r gives %r, --list gives %r for %r" % (name, got, vals, data))
    _MEMO_GA.add(data)


def cli_name(section, subsection, key):
    return section + b"." + (subsection + b"." if subsection is not None else b"") + key


def cli_expressible(section, subsection, key):
    return ref.valid_section(section) and (subsection is None or ref.valid_subsection(subsection)) and ref.valid_key(key)


# --------------------------------------------------------------------------- judging one entry


def judge_dulwich_read(reader, section, subsection, key, accepted, flat_only):
    """Read with dulwich and compare with the single expected entry.  -> (diag | None, value_read)."""
    try:
        c2 = reader()
    except Exception as e:  # any exception: the file dulwich/git wrote cannot be read back
        return "read-raises-" + exc_class(e), None
    entries, problems = observe(c2)
    if problems:
        return "accessors-disagree-" + problems[0], None
    if len(entries) != 1:
        return "entry-count-%s" % (len(entries) if len(entries) < 2 else "many"), None
    gi, gk, gv = entries[0]
    if flat_only:
        want = ref.flat(section, subsection, key)
        got = ref.flat(gi[0], gi[1], gk)
        if got != want:
            return ("flat-name-differs-in-case" if got.lower() == want.lower() else "flat-name-" + first_lost(want, got)), gv
    else:
        if gi[0] != section.lower():
            return "section-" + first_lost(section.lower(), gi[0]), gv
        if gi[1] != subsection:
            if gi[1] is None or subsection is None:
                return "subsection-presence-differs", gv
            return "subsection-" + first_lost(subsection, gi[1]), gv
        if gk != key.lower():
            return "key-" + first_lost(key.lower(), gk), gv
    if gv not in accepted:
        return "value-" + first_lost(accepted[0], gv), gv
    return None, gv


def judge_git_listing(listing, reason, section, subsection, key, value):
    if listing is None:
        return "git-rejects-file-" + reason
    if len(listing) != 1:
        return "entry-count-%s" % (len(listing) if len(listing) < 2 else "many")
    name, v = listing[0]
    want = ref.flat(section, subsection, key)
    if name != want:
        return "flat-name-differs-in-case" if name.lower() == want.lower() else "flat-name-" + first_lost(want, name)
    if v != value:
        return "value-" + first_lost(value, v)
    return None


def case_entry(acc: Acc, family, section, subsection, key, value):
    """ONE configuration entry, isolated, all three paths, one git process per question."""
    CF = _CF()
    args = (family, section, subsection, key, value)
    flat_only = family == "dotted-section"
    what = "[%r %r] %r = %r" % (section, subsection, key, value)

    def viol(path, diag, detail):
        acc.violation("%s:%s:%s" % (family, path, diag), "%s: %s" % (what, detail), rp(case_entry, *args))

    # ---- dulwich writes
    c = CF()
    text = None
    try:
        c.set(sec_tuple(section, subsection), key, value)
        text = dw_text(c)
    except Exception as e:
        acc.outcome("%s:w:write-raises" % family)
        viol("dulwich-write", "write-raises-" + exc_class(e), repr(e))
    if text is not None:
        diag, got = judge_dulwich_read(lambda: CF.from_file(BytesIO(text)), section, subsection, key, [value], flat_only)
        acc.outcome("%s:w:%s" % (family, diag or "ok"))
        if diag:
            viol("dulwich-write/dulwich-read", diag, "dulwich wrote %r and read back %r" % (text, got))
        path = _newpath("dw")
        c.write_to_path(path)
        with open(path, "rb") as f:
            data = f.read()
        listing, reason = oracle_list(data, path)
        diag = judge_git_listing(listing, reason, section, subsection, key, value)
        acc.outcome("%s:g:%s" % (family, diag or "ok"))
        if diag:
            viol("dulwich-write/git-read", diag, "dulwich wrote %r; git config --list: %r" % (data, listing if listing is not None else "fatal: bad config line"))
    # ---- git writes
    if not flat_only and cli_expressible(section, subsection, key):
        path = _newpath("gw")
        p = git(["config", "--file", path, "--", cli_name(section, subsection, key), value], check=False)
        if p.returncode != 0:
            raise HarnessError("git config refused %s: %r" % (what, p.stderr[-300:]))
        with open(path, "rb") as f:
            data = f.read()
        if data != ref.format_new_file(section, subsection, key, value):
            raise HarnessError("ORACLE-DISAGREEMENT (writer) for %s: C git wrote %r, reference writer %r" % (
                what, data, ref.format_new_file(section, subsection, key, value)))
        listing, reason = oracle_list(data, path)
        if listing is None or len(listing) != 1 or listing[0][0] != ref.flat(section, subsection, key):
            raise HarnessError("git does not list what it was asked to store for %s: %r" % (what, listing))
        gv = listing[0][1]
        # "the same values": what git reads from its own file; should git itself not get the stored value
        # back (older gits wrote CR unquoted), the stored value is accepted as well - the statement does not choose.
        diag, got = judge_dulwich_read(lambda: CF.from_path(path), section, subsection, key, [gv, value], False)
        cls = diag or ("ok" if gv == value else ("ok-git-rereads-differently:dulwich-agrees-with-%s" % ("git" if got == gv else "stored-value")))
        acc.outcome("%s:r:%s" % (family, cls))
        if diag:
            viol("git-write/dulwich-read", diag, "git wrote %r and reads %r; dulwich reads %r" % (data, gv, got))
    elif not flat_only:
        acc.outcome("%s:r:not-expressible-on-the-git-command-line" % family)


# --------------------------------------------------------------------------- batches of entries


def _precheck(CF, family, e):
    """In-process screening of one entry; -> (suspect_dw, suspect_gw, writer_form).  Records nothing."""
    section, subsection, key, value = e
    flat_only = family == "dotted-section"
    sus_dw = False
    form = "none"
    try:
        c = CF()
        c.set(sec_tuple(section, subsection), key, value)
        text = dw_text(c)
        form = writer_form(text)
        diag, _ = judge_dulwich_read(lambda: CF.from_file(BytesIO(text)), section, subsection, key, [value], flat_only)
        if diag:
            sus_dw = True
        else:
            try:
                if ref.parse(text) != [(ref.flat(section, subsection, key), value)]:
                    sus_dw = True
            except ref.BadConfig:
                sus_dw = True
    except Exception:
        sus_dw = True
    sus_gw = False
    if not flat_only and cli_expressible(section, subsection, key):
        gtext = ref.format_new_file(section, subsection, key, value)
        try:
            gv = ref.parse(gtext)[0][1]
        except (ref.BadConfig, IndexError):
            raise HarnessError("reference writer/reader inconsistent on %r" % (gtext,))
        diag, _ = judge_dulwich_read(lambda: CF.from_file(BytesIO(gtext)), section, subsection, key, [gv, value], False)
        if diag:
            sus_gw = True
    return sus_dw, sus_gw, form


def case_batch(acc: Acc, family, entries, record_individual=True):
    """Many entries with pairwise distinct flat names: batch files for C git, then the suspicious entries
    one by one.  A violation of its own only when an entry misbehaves in a batch file but not alone."""
    CF = _CF()
    flat_only = family == "dotted-section"
    entries = [tuple(e) for e in entries]
    flats = [ref.flat(s, ss, k) for s, ss, k, _ in entries]
    if len(set(flats)) != len(flats):
        raise HarnessError("batch with colliding names")
    n = len(entries)
    sus = [False] * n
    pre = [_precheck(CF, family, e) for e in entries]
    batch_bad = set()

    # ---- one file written by dulwich, read by dulwich and by git
    idx = [i for i in range(n) if not pre[i][0]]
    if idx:
        c = CF()
        for i in idx:
            s, ss, k, v = entries[i]
            c.add(sec_tuple(s, ss), k, v)
        path = _newpath("bdw")
        c.write_to_path(path)
        with open(path, "rb") as f:
            data = f.read()
        try:
            ents, problems = observe(CF.from_path(path))
            dflat = flatten(ents)
            dgroup = group(ents)
        except Exception:
            dflat = dgroup = None
            problems = []
        listing, _ = oracle_list(data, path)
        gflat = flat_group(listing) if listing is not None else None
        for i in idx:
            s, ss, k, v = entries[i]
            ok = dflat is not None and not problems and gflat is not None and gflat.get(flats[i]) == [v]
            if ok:
                if flat_only:
                    ok = dflat.get(flats[i]) == [v]
                else:
                    ok = dgroup.get((s.lower(), ss), {}).get(k.lower()) == [v]
            if not ok:
                batch_bad.add(i)
    # ---- one file written by git entry by entry, read by git and by dulwich
    gidx = [i for i in range(n) if not flat_only and cli_expressible(*entries[i][:3])]
    gok = [i for i in gidx if not pre[i][1]]
    r_out = {}
    if gok:
        path = _newpath("bgw")
        for i in gok:
            s, ss, k, v = entries[i]
            p = git(["config", "--file", path, "--", cli_name(s, ss, k), v], check=False)
            if p.returncode != 0:
                raise HarnessError("git config refused %r: %r" % (entries[i], p.stderr[-300:]))
        with open(path, "rb") as f:
            data = f.read()
        listing, _ = oracle_list(data, path)
        if listing is None:
            raise HarnessError("git cannot read the file it wrote: %r" % data)
        gflat = flat_group(listing)
        try:
            ents, problems = observe(CF.from_path(path))
            dgroup = group(ents)
        except Exception:
            dgroup = None
            problems = []
        for i in gok:
            s, ss, k, v = entries[i]
            gvs = gflat.get(flats[i])
            if gvs is None or len(gvs) != 1:
                raise HarnessError("git lists %r for %r in its own file %r" % (gvs, entries[i], data))
            got = None if dgroup is None or problems else dgroup.get((s.lower(), ss), {}).get(k.lower())
            if got is None or len(got) != 1 or got[0] not in (gvs[0], v):
                batch_bad.add(i)
            elif gvs[0] != v:
                r_out[i] = "ok-git-rereads-differently:dulwich-agrees-with-%s" % ("git" if got[0] == gvs[0] else "stored-value")
            else:
                r_out[i] = "ok"
    # ---- bookkeeping + one-by-one evaluation
    for i in range(n):
        acc.count(family + "_cases")
        acc.outcome("%s:writer-form:%s" % (family, pre[i][2]))
        sus[i] = pre[i][0] or pre[i][1] or i in batch_bad
        if sus[i]:
            one = Acc()
            case_entry(one, family, *entries[i])
            if i in batch_bad and not one.viol:
                acc.violation("%s:batch-file:entry-differs-only-among-other-entries" % family,
                              "entry %r reads back differently in a file of %d entries but not alone" % (entries[i], n),
                              rp(case_batch, family, [list(e) for e in entries], False))
            if record_individual:
                acc.merge(one)
        else:
            acc.outcome("%s:w:ok" % family)
            acc.outcome("%s:g:ok" % family)
            if i in r_out:
                acc.outcome("%s:r:%s" % (family, r_out[i]))
            elif not flat_only:
                acc.outcome("%s:r:not-expressible-on-the-git-command-line" % family)
    return acc


# --------------------------------------------------------------------------- operation sequences on a live ConfigFile


def model_apply(model, op):
    """model: ordered [(ident, [(key_lower, value), ...])]; the documented ConfigDict semantics:
    set replaces every value of the key, add appends, remove deletes every value (KeyError if none)."""
    kind, s, ss, k = op[0], op[1], op[2], op[3].lower()
    ident = (s.lower(), ss)
    sec = None
    for i, items in model:
        if i == ident:
            sec = items
    if kind == "remove":
        if sec is None or not any(kk == k for kk, _ in sec):
            return "KeyError"
        sec[:] = [(kk, v) for kk, v in sec if kk != k]
        return None
    if sec is None:
        sec = []
        model.append((ident, sec))
    if kind == "set":
        sec[:] = [(kk, v) for kk, v in sec if kk != k]
    sec.append((k, op[4]))
    return None


def model_group(model):
    d = {}
    for ident, items in model:
        for k, v in items:
            d.setdefault(ident, {}).setdefault(k, []).append(v)
    return d


def model_flat(model):
    d = {}
    for ident, items in model:
        for k, v in items:
            d.setdefault(ref.flat(ident[0], ident[1], k), []).append(v)
    return d


def state_diff(want, got):
    """Class of the difference between two {a: {b: [values]}} or {name: [values]} states."""
    if set(want) != set(got):
        return "sections-or-names-differ"
    for a in want:
        w, g = want[a], got[a]
        if isinstance(w, dict):
            if set(w) != set(g):
                return "keys-differ"
            pairs = [(w[k], g[k]) for k in w]
        else:
            pairs = [(w, g)]
        for wv, gv in pairs:
            if wv != gv:
                if sorted(wv, key=repr) == sorted(gv, key=repr):
                    return "multivalue-order-differs"
                if len(wv) != len(gv):
                    return "number-of-values-differs"
                return "values-differ"
    return "differs"


def case_ops(acc: Acc, tag, ops):
    """A sequence of add/set/remove/rewrite on one live ConfigFile; after every step the live object, its
    write->read image and git's reading of the written file must all equal the model state."""
    CF = _CF()
    c = CF()
    model = []
    ops = [tuple(o) for o in ops]
    acc.count(tag + "_cases")

    def viol(key, detail):
        acc.violation("%s:%s" % (tag, key), "ops=%r: %s" % (ops, detail), rp(case_ops, tag, [list(o) for o in ops]))

    for step, op in enumerate(ops):
        kind = op[0]
        if kind == "rewrite":
            try:
                c = CF.from_file(BytesIO(dw_text(c)))
            except Exception as e:
                viol("rewrite:raises-" + exc_class(e), "step %d %r" % (step, e))
                acc.outcome(tag + ":rewrite-raises")
                return
        else:
            expect_err = model_apply(model, op)
            try:
                if kind == "set":
                    c.set(sec_tuple(op[1], op[2]), op[3], op[4])
                elif kind == "add":
                    c.add(sec_tuple(op[1], op[2]), op[3], op[4])
                elif kind == "remove":
                    c.remove(sec_tuple(op[1], op[2]), op[3])
                else:
                    raise HarnessError("unknown op %r" % (op,))
                err = None
            except KeyError:
                err = "KeyError"
            if kind == "remove":
                acc.outcome("%s:remove:%s" % (tag, "absent" if expect_err else "present"))
            if err and not expect_err:
                viol("%s:raises-KeyError-on-existing-entry" % kind, "step %d" % step)
                return
        want = model_group(model)
        # live object
        ents, problems = observe(c)
        got = group(ents)
        if problems:
            viol("%s:live-accessors-disagree-%s" % (kind, problems[0]), "step %d" % step)
            return
        if got != want:
            viol("%s:live-state-%s" % (kind, state_diff(want, got)), "step %d: model %r, live object %r" % (step, want, got))
            return
        # write -> read
        try:
            text = dw_text(c)
            ents, problems = observe(CF.from_file(BytesIO(text)))
        except Exception as e:
            viol("dulwich-write/dulwich-read:after-%s:raises-%s" % (kind, exc_class(e)), "step %d %r" % (step, e))
            return
        got = group(ents)
        if problems:
            viol("dulwich-write/dulwich-read:after-%s:accessors-disagree-%s" % (kind, problems[0]), "step %d" % step)
            return
        if got != want:
            viol("dulwich-write/dulwich-read:after-%s:%s" % (kind, state_diff(want, got)),
                 "step %d: wrote %r; model %r, read back %r" % (step, text, want, got))
            return
        # git reads the written file
        listing, reason = oracle_list(text, memo=True)
        if listing is None:
            viol("dulwich-write/git-read:after-%s:git-rejects-file-%s" % (kind, reason), "step %d: wrote %r" % (step, text))
            return
        gwant = model_flat(model)
        ggot = flat_group(listing)
        if ggot != gwant:
            viol("dulwich-write/git-read:after-%s:%s" % (kind, state_diff(gwant, ggot)),
                 "step %d: wrote %r; model %r, git lists %r" % (step, text, gwant, ggot))
            return
        if tag in ("multi", "caserules"):
            oracle_get_all(text, listing)
    nmulti = sum(1 for d in model_group(model).values() for v in d.values() if len(v) > 1)
    acc.outcome("%s:ok:final-state:%d-sections:%s" % (tag, len([1 for _, it in model if it]), "multivalued" if nmulti else "single-valued"))


# --------------------------------------------------------------------------- operation sequences on the git side


def _git_apply(path, op):
    kind, name = op[0], op[1]
    if kind == "set":
        a = ["--replace-all", "--", name, op[2]]
    elif kind == "add":
        a = ["--add", "--", name, op[2]]
    elif kind == "remove":
        a = ["--unset-all", "--", name]
    else:
        raise HarnessError("unknown git op %r" % (op,))
    p = git(["config", "--file", path] + a, check=False)
    if p.returncode not in (0, 5) or (p.returncode == 5 and kind != "remove"):
        raise HarnessError("git config %r failed (%d): %r" % (op, p.returncode, p.stderr[-300:]))
    return p.returncode


def _gitops_check(acc, ops, path):
    """After the last op of `ops`: dulwich's reading of the git-written file, and git's reading of
    dulwich's rewrite of it, both equal git's reading of the file.  -> True if it held."""
    CF = _CF()
    kind = ops[-1][0]
    if not os.path.exists(path):
        acc.outcome("gitops:no-file")
        return True
    with open(path, "rb") as f:
        data = f.read()
    listing, _ = oracle_list(data, memo=True)
    if listing is None:
        raise HarnessError("git cannot read the file it wrote: %r" % data)
    want = flat_group(listing)

    def viol(key, detail):
        acc.violation("gitops:%s" % key, "ops=%r: git wrote %r: %s" % (ops, data, detail),
                      rp(case_gitops, [list(o) for o in ops]))

    try:
        c = CF.from_path(path)
        ents, problems = observe(c)
    except Exception as e:
        viol("git-write/dulwich-read:after-%s:raises-%s" % (kind, exc_class(e)), repr(e))
        return False
    if problems:
        viol("git-write/dulwich-read:after-%s:accessors-disagree-%s" % (kind, problems[0]), "")
        return False
    got = flatten(ents)
    if got != want:
        viol("git-write/dulwich-read:after-%s:%s" % (kind, state_diff(want, got)), "git lists %r, dulwich reads %r" % (want, got))
        return False
    try:
        text = dw_text(c)
    except Exception as e:
        viol("git-write/dulwich-rewrite:after-%s:raises-%s" % (kind, exc_class(e)), repr(e))
        return False
    listing2, reason = oracle_list(text, memo=True)
    if listing2 is None:
        viol("git-write/dulwich-rewrite/git-read:after-%s:git-rejects-file-%s" % (kind, reason), "dulwich rewrote it as %r" % text)
        return False
    got2 = flat_group(listing2)
    if got2 != want:
        viol("git-write/dulwich-rewrite/git-read:after-%s:%s" % (kind, state_diff(want, got2)),
             "dulwich rewrote it as %r; git lists %r instead of %r" % (text, got2, want))
        return False
    multi = any(len(v) > 1 for v in want.values())
    acc.outcome("gitops:ok:%s" % ("empty" if not want else "multivalued" if multi else "single-valued"))
    return True


def case_gitops(acc: Acc, ops):
    """Replay form: the whole sequence from an empty file, judged after every step."""
    ops = [tuple(o) for o in ops]
    path = _newpath("go")
    for n in range(1, len(ops) + 1):
        _git_apply(path, ops[n - 1])
        if not _gitops_check(acc, ops[:n], path):
            return


def _gitops_dfs(acc, prefix, data, pool, depth):
    """prefix already applied and judged; data = file content after it (None: no file)."""
    if len(prefix) >= depth:
        return
    for op in pool:
        path = _newpath("gd")
        if data is not None:
            with open(path, "wb") as f:
                f.write(data)
        _git_apply(path, op)
        ops = prefix + [op]
        acc.count("gitops_cases")
        ok = _gitops_check(acc, ops, path)
        nd = None
        if os.path.exists(path):
            with open(path, "rb") as f:
                nd = f.read()
            os.remove(path)
        if ok:
            _gitops_dfs(acc, ops, nd, pool, depth)
        else:
            # the subtree below a violating state is not explored (it would repeat the same report);
            # keep the case count independent of the verdict
            acc.count("gitops_cases", sum(len(pool) ** d for d in range(1, depth - len(ops) + 1)))
            acc.count("gitops_cases_below_a_violation_not_run", sum(len(pool) ** d for d in range(1, depth - len(ops) + 1)))


# --------------------------------------------------------------------------- enumerations

VALUE_ALPHA = [b" ", b"\t", b'"', b"\\", b"#", b";", b"\n", b"\r", b"n", b"t", b"b", b"a"]
SECTION_ALPHA = [b"a", b"A", b"-", b"1"]
DOTTED_ALPHA = [b"a", b"A", b"-", b".", b"1"]
KEY_ALPHA = [b"a", b"A", b"-", b"1"]
SUBSECTION_ALPHA_Q = [b"a", b"A", b" ", b".", b'"', b"\\", b"]", b"#", b";", b"\t"]
SUBSECTION_ALPHA_T = SUBSECTION_ALPHA_Q + [b"\r", b"="]
TRICKY = b' x#"\\\n\t '  # leading/trailing blank, comment char, quote, backslash, LF, TAB: round-trips on its own


def strings(alpha, lo, hi):
    for n in range(lo, hi + 1):
        for t in itertools.product(alpha, repeat=n):
            yield b"".join(t)


def byte_sweep_values(pairs):
    out = []
    for b in range(1, 256):
        x = bytes([b])
        out += [x, b"a" + x, x + b"a", b"a" + x + b"a"]
    if pairs:
        for b1 in range(1, 256):
            for b2 in range(1, 256):
                out.append(bytes([b1, b2]))
    return out


def value_entries(values):
    return [(b"s", None, b"k%d" % i, v) for i, v in enumerate(values)]


def name_entries(ctx_quick):
    """-> {family: [entries]} ; every entry gets its own key (or section) so names never collide in a batch."""
    fam = {}
    secs = list(strings(SECTION_ALPHA, 1, 3))
    fam["section"] = [(s, sub) for s in secs for sub in (None, b"S")]
    dotted = [s for s in strings(DOTTED_ALPHA, 1, 3) if b"." in s]
    fam["dotted-section"] = [(s, sub) for s in dotted for sub in (None, b"S")]
    subs = list(strings(SUBSECTION_ALPHA_Q, 0, 3)) if ctx_quick else list(strings(SUBSECTION_ALPHA_T, 0, 4))
    seen = set(subs)
    for b in range(1, 256):
        if b == 0x0A:
            continue
        x = bytes([b])
        for s in (x, b"a" + x, x + b"a"):
            if s not in seen:
                seen.add(s)
                subs.append(s)
    fam["subsection"] = [(b"s", sub) for sub in subs]
    out = {}
    for f, lst in fam.items():
        out[f] = [(s, sub, None, TRICKY if i % 2 else b"v") for i, (s, sub) in enumerate(lst)]
    keys = [k for k in strings(KEY_ALPHA, 1, 3) if ref.valid_key(k)]
    out["key"] = [(None, sub, k, b"v") for k in keys for sub in (None, b"S")]
    return out


def finish_name_chunk(family, chunk):
    """Give the entries of one batch pairwise distinct names."""
    res = []
    for i, (s, sub, k, v) in enumerate(chunk):
        if family == "key":
            res.append((b"s%d" % i, sub, k, v))
        else:
            res.append((s, sub, b"k%d" % i, v))
    return res


def ops_pool(quick):
    idents = [(b"a", None), (b"A", None), (b"a", b"S")] + ([] if quick else [(b"a", b"s")])
    keys = [b"k", b"K"] + ([] if quick else [b"j"])
    values = [b"1", TRICKY] + ([] if quick else [b""])
    pool = []
    for kind in ("set", "add"):
        for s, ss in idents:
            for k in keys:
                for v in values:
                    pool.append((kind, s, ss, k, v))
    for s, ss in idents:
        for k in keys:
            pool.append(("remove", s, ss, k))
    pool.append(("rewrite",))
    return pool


def multi_pool(quick):
    values = [b"", b"a", b"A", b' #"\\', b"a\nb\t "] + ([] if quick else [b"\\"])
    return [("add", b"m", None, k, v) for k in (b"k", b"K", b"j") for v in values]


def caserules_pool():
    return [(s, ss, k) for s in (b"a", b"A") for ss in (None, b"S", b"s") for k in (b"k", b"K")]


def gitops_pool(quick):
    names = [b"a", b"A", b"a.S"] + ([] if quick else [b"a.s"])
    keys = [b"k", b"K"]
    values = [b"1", TRICKY] + ([] if quick else [b""])
    pool = []
    for kind in ("set", "add"):
        for n in names:
            for k in keys:
                for v in values:
                    pool.append((kind, n + b"." + k, v))
    for n in names:
        for k in keys:
            pool.append(("remove", n + b"." + k))
    return pool


# --------------------------------------------------------------------------- task plumbing


def work(task):
    kind, items, params = task
    acc = Acc()
    try:
        if kind == "entries":
            family = params
            case_batch(acc, family, items)
            if items:
                s, ss, k, v = items[0]
                acc.sample({"family": family, "first_entry_of_batch": repr((s, ss, k, v)), "batch_size": len(items)}, cap=1)
        elif kind == "ops":
            tag, pool, depth = params
            for first in items:
                stack = [[first]]
                while stack:
                    ops = stack.pop()
                    case_ops(acc, tag, ops)
                    if len(ops) < depth:
                        for op in reversed(pool):
                            stack.append(ops + [op])
            acc.sample({"family": tag, "first_op": repr(items[0]), "depth": depth, "pool": len(pool)}, cap=1)
        elif kind == "caserules":
            for seq in items:
                ops = [("add", s, ss, k, b"v%d" % i) for i, (s, ss, k) in enumerate(seq)]
                case_ops(acc, "caserules", ops)
        elif kind == "gitops":
            pool, depth = params
            for first in items:
                path = _newpath("g1")
                _git_apply(path, first)
                acc.count("gitops_cases")
                ok = _gitops_check(acc, [first], path)
                data = None
                if os.path.exists(path):
                    with open(path, "rb") as f:
                        data = f.read()
                if ok:
                    _gitops_dfs(acc, [first], data, pool, depth)
                else:
                    skipped = sum(len(pool) ** d for d in range(1, depth))
                    acc.count("gitops_cases", skipped)
                    acc.count("gitops_cases_below_a_violation_not_run", skipped)
            acc.sample({"family": "gitops", "first_op": repr(items[0]), "depth": depth, "pool": len(pool)}, cap=1)
        else:
            raise AssertionError(kind)
    finally:
        _reset_wdir()
    return acc


def run(ctx):
    q = ctx.quick
    J = ctx.jobs
    tasks = []

    # (value) all strings over the named alphabet + full byte sweep
    vmax = 4 if q else 5
    values = list(strings(VALUE_ALPHA, 0, vmax))
    nalpha = len(values)
    seen = set(values)
    sweep = [v for v in byte_sweep_values(pairs=not q) if v not in seen]
    values += sweep
    csize = 192 if q else 384
    values = ctx.order(values)
    for i in range(0, len(values), csize):
        tasks.append(("entries", value_entries(values[i : i + csize]), "value"))

    # names
    fams = name_entries(q)
    ncount = {}
    for family, lst in sorted(fams.items()):
        lst = ctx.order(lst)
        ncount[family] = len(lst)
        for i in range(0, len(lst), 96):
            tasks.append(("entries", finish_name_chunk(family, lst[i : i + 96]), family))

    # case rules: add sequences over every (section, subsection, key) spelling
    cr = caserules_pool()
    seqs = [s for n in (1, 2, 3) for s in itertools.product(cr, repeat=n)]
    for part in split(ctx.order(seqs), J * 2):
        tasks.append(("caserules", part, None))

    # multi-valued keys: all add sequences
    mp = multi_pool(q)
    mdepth = 3 if q else 4 if len(mp) <= 18 else 3
    for part in split(ctx.order(mp), len(mp)):
        tasks.append(("ops", part, ("multi", mp, mdepth)))

    # operation sequences
    op = ops_pool(q)
    odepth = 3
    for part in split(ctx.order(op), len(op)):
        tasks.append(("ops", part, ("ops", op, odepth)))

    # git-side operation sequences
    gp = gitops_pool(q)
    gdepth = 3
    for part in split(ctx.order(gp), len(gp)):
        tasks.append(("gitops", part, (gp, gdepth)))

    tasks = ctx.order(tasks)
    # long ops/gitops tasks first so the pool drains evenly (order only, not content)
    tasks.sort(key=lambda t: 0 if t[0] in ("gitops", "ops") else 1)
    pmap_acc(work, tasks, ctx.acc, jobs=ctx.jobs)
    for _, cases in ctx.acc.viol.values():  # shortest recorded example first (presentation only)
        cases.sort(key=lambda c: (len(c["summary"]), c["summary"]))

    n = ctx.acc.n
    total = sum(v for k, v in n.items() if k.endswith("_cases"))
    ctx.level = "exploration"
    classes = ctx.acc.classes
    ctx.coverage.update(
        evaluations=total,
        distinct_nontrivial=len([c for c in classes if not (c.endswith(":ok") or ":ok:" in c or ":writer-form:" in c)]),
        rule=(
            "E4 bounded-exhaustive + E3-style op sequences. value: all %d strings of length <=%d over %r plus a sweep of every "
            "byte 0x01..0xff in 4 templates%s (%d more), each as the single value of [s] k; section: all names of length 1..3 "
            "over %r x {no subsection, \"S\"}; dotted-section (deprecated [a.b] form, flat names compared): all strings of "
            "length 1..3 over %r containing a dot; subsection: all strings of length <=%d over %r plus every byte except LF/NUL "
            "in 3 templates; key: all git-valid names of length 1..3 over %r; caserules: all add sequences <=3 over %d spellings "
            "of (section, subsection, key); multi: all add sequences <=%d over %d (key, value) pairs; ops: all sequences <=%d "
            "over %d operations {set, add, remove, rewrite}; gitops: all sequences <=%d over %d git config operations.  Every "
            "case is judged on dulwich-write/dulwich-read, dulwich-write/git-read and (where the name can be given on the git "
            "command line) git-write/dulwich-read.  distinct_nontrivial = observed outcome classes other than plain success."
            % (nalpha, vmax, [a.decode("latin1") for a in VALUE_ALPHA], " and all 2-byte strings" if not q else "", len(sweep),
               [a.decode() for a in SECTION_ALPHA], [a.decode() for a in DOTTED_ALPHA], 3 if q else 4,
               [a.decode("latin1") for a in (SUBSECTION_ALPHA_Q if q else SUBSECTION_ALPHA_T)], [a.decode() for a in KEY_ALPHA],
               len(cr), mdepth, len(mp), odepth, len(op), gdepth, len(gp))
        ),
        exhaustive=True,
        bounds={
            "value_len": vmax, "value_alphabet": len(VALUE_ALPHA), "values": len(values), "names": ncount,
            "caserules_depth": 3, "multi_depth": mdepth, "multi_pool": len(mp), "ops_depth": odepth, "ops_pool": len(op),
            "gitops_depth": gdepth, "gitops_pool": len(gp), "batch_size": csize,
        },
    )
    ctx.assumptions += [
        "C git 2.39.5 is the second oracle; engines/refmodels/gitconfig.py (written from git-config(1)) must agree with it on every file used",
        "for git-written files dulwich must return what git itself reads from the file; if git did not read the stored value "
        "back, the stored value would be accepted as well (does not occur with the installed git, which quotes CR - outcome "
        "class ':r:ok-git-rereads-differently' counts it)",
        "sections without any key are not compared (git has no notion of an empty section)",
        "the order of different keys / sections relative to each other is not compared, only the order of the values of one key",
        "values containing NUL and subsections containing LF or NUL are outside the set (git refuses them)",
    ]


def replay(ctx, obj):
    return replay_generic(sys.modules[__name__], ctx, obj)
