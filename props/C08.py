"""C08 — ref updates are atomic compare-and-swap; concurrent commits are never lost.

E1: 2–3 actors, each with its own DiskRefsContainer / Repo on one directory, run 1–2 ref
operations; every interleaving at system-call granularity up to the preemption bound.  Oracle:
brute-force linearizability of the recorded call/return history against a dict model (an
operation that raised must be explainable as having had no effect), per-ref validity of what
readers saw, final disk state == final model state.  Commit scenarios: every commit whose call
returned normally is an ancestor-or-equal of the final branch tip.
"""

from __future__ import annotations

import itertools
import os

from engines import sysched
from engines.common import Acc, HarnessError, pmap_acc, rp, split

X = b"1" * 40
Y = b"2" * 40
Z0 = b"a" * 40
Z1 = b"b" * 40
Z2 = b"c" * 40
NEW = [Z0, Z1, Z2]
M = b"refs/heads/m"
N = b"refs/heads/n"
HEAD = b"HEAD"
ZERO = b"0" * 40

NAMES = {X: "X", Y: "Y", Z0: "Za", Z1: "Zb", Z2: "Zc", None: "None", ZERO: "ZERO"}


def nm(v):
    if isinstance(v, dict):
        return {k.decode(): nm(x) for k, x in sorted(v.items())}
    if isinstance(v, (bytes, type(None))):
        return NAMES.get(v, v.decode() if v else v)
    return v


# --------------------------------------------------------------------------- initial states

INITS = {
    "absent/sym": dict(loose={}, packed={}, head=("sym", M)),
    "looseX/sym": dict(loose={M: X}, packed={}, head=("sym", M)),
    "packedX/sym": dict(loose={}, packed={M: X}, head=("sym", M)),
    "looseY+packedX/sym": dict(loose={M: Y}, packed={M: X}, head=("sym", M)),
    "looseX/detached": dict(loose={M: X}, packed={}, head=("sha", X)),
    "packedX+n/sym": dict(loose={N: Y}, packed={M: X, N: X}, head=("sym", M)),
    # a bystander that lives in packed-refs only: it must survive whatever happens to m
    "packedX+packedN/sym": dict(loose={}, packed={M: X, N: Y}, head=("sym", M)),
}


def build_refs_dir(root, init):
    os.makedirs(os.path.join(root, "refs", "heads"))
    os.makedirs(os.path.join(root, "refs", "tags"))
    for name, v in init["loose"].items():
        with open(os.path.join(root, name.decode()), "wb") as f:
            f.write(v + b"\n")
    if init["packed"]:
        with open(os.path.join(root, "packed-refs"), "wb") as f:
            f.write(b"# pack-refs with: peeled fully-peeled sorted \n")
            for name, v in sorted(init["packed"].items()):
                f.write(v + b" " + name + b"\n")
    with open(os.path.join(root, "HEAD"), "wb") as f:
        k, v = init["head"]
        f.write((b"ref: " + v if k == "sym" else v) + b"\n")


def model_init(init):
    st = {}
    for name, v in init["packed"].items():
        st[name] = v
    for name, v in init["loose"].items():
        st[name] = v
    k, v = init["head"]
    st[HEAD] = ("sym", v) if k == "sym" else v
    return st


# --------------------------------------------------------------------------- model


def m_follow(st, name):
    seen = 0
    while isinstance(st.get(name), tuple):
        name = st[name][1]
        seen += 1
        if seen > 5:
            return name, None
    return name, st.get(name)


def m_apply(st, op):
    """Sequential semantics on the dict model. Returns (new_state, result)."""
    k = op[0]
    st = dict(st)
    if k == "cas":  # set_if_equals(name, old, new): follows symrefs
        _, name, old, new = op
        real, cur = m_follow(st, name)
        if old is not None and (cur if cur is not None else ZERO) != old:
            return st, False
        st[real] = new
        return st, True
    if k == "add":
        _, name, new = op
        real, cur = m_follow(st, name)
        if cur is not None:
            return st, False
        st[real] = new
        return st, True
    if k == "rm":  # remove_if_equals(name, old): does not follow symrefs
        _, name, old = op
        cur = st.get(name)
        if old is not None:
            c = cur if isinstance(cur, bytes) else (ZERO if cur is None else None)
            if c != old:
                return st, False
        st.pop(name, None)
        return st, True
    if k == "symref":
        _, name, target = op
        st[name] = ("sym", target)
        return st, None
    if k == "pack":
        return st, None
    if k == "read":
        _, name = op
        real, cur = m_follow(st, name)
        return st, ("val", cur) if cur is not None else ("keyerror",)
    if k == "asdict":
        out = {}
        for n in st:
            _, cur = m_follow(st, n)
            if cur is not None:
                out[n] = cur
        return st, ("dict", out)
    raise AssertionError(op)


def is_read(op):
    return op[0] in ("read", "asdict")


# --------------------------------------------------------------------------- real ops


def do_op(refs, op):
    k = op[0]
    if k == "cas":
        return refs.set_if_equals(op[1], op[2], op[3])
    if k == "add":
        return refs.add_if_new(op[1], op[2])
    if k == "rm":
        return refs.remove_if_equals(op[1], op[2])
    if k == "symref":
        return refs.set_symbolic_ref(op[1], op[2])
    if k == "pack":
        return refs.pack_refs(all=True)
    if k == "read":
        try:
            return ("val", refs[op[1]])
        except KeyError:
            return ("keyerror",)
    if k == "asdict":
        return ("dict", dict(refs.as_dict()))
    raise AssertionError(op)


def observe_final(root):
    """Final disk state through a fresh container, as the model's observable map."""
    from dulwich.refs import DiskRefsContainer

    refs = DiskRefsContainer(root)
    out = {}
    for n in refs.allkeys():
        try:
            out[n] = refs[n]
        except KeyError:
            pass
    return out


def m_observable(st):
    out = {}
    for n in st:
        _, cur = m_follow(st, n)
        if cur is not None:
            out[n] = cur
    return out


# --------------------------------------------------------------------------- linearizability


def check_linearizable(init_state, calls, final_obs, resurrect=None):
    """resurrect: optional {call index of a pack op in `writes` order: [(ref, value), ...]} — an
    *augmented* model used only to classify a violation as the known residual defect: such a
    pack_refs may, at its linearization point, write back an earlier value of a ref whose deletion
    overlapped it.  The strict check passes resurrect=None."""
    """calls: list of dicts {actor, op, t_call, t_ret, result | exc}.  Brute force over all
    permutations of the write operations respecting real-time order.  Returns None if a valid
    linearization exists, else a diagnostic string."""
    writes = [c for c in calls if not is_read(c["op"])]
    reads = [c for c in calls if is_read(c["op"])]
    diag = "no order of the operations explains the results"
    best = None
    for perm in itertools.permutations(range(len(writes))):
        ok = True
        for i in range(len(perm)):
            for j in range(i + 1, len(perm)):
                # perm[j] linearized after perm[i]: illegal if perm[j] returned before perm[i] was called
                if writes[perm[j]]["t_ret"] < writes[perm[i]]["t_call"]:
                    ok = False
        if not ok:
            continue
        # an operation that raised may be explained either as a no-op or ... only as a no-op
        variants = [None]
        if resurrect:
            variants += [(i, rv) for i in resurrect for rv in resurrect[i]]
        for variant in variants:
            r = _try_order(init_state, writes, reads, perm, final_obs, variant)
            if r is None:
                return None
            if r != "results":
                best = r
    return best or diag


def _try_order(init_state, writes, reads, perm, final_obs, variant):
    """Returns None if this order explains everything, 'results' if a return value mismatches,
    else a diagnostic about the final state / a reader."""
    best = None
    if True:
        st = init_state
        states = [st]
        good = True
        for idx in perm:
            c = writes[idx]
            if "exc" in c:
                states.append(st)
                continue
            st2, res = m_apply(st, c["op"])
            if res != c["result"]:
                good = False
                break
            st = st2
            if variant is not None and variant[0] == idx:
                st = dict(st)
                st[variant[1][0]] = variant[1][1]
            states.append(st)
        if not good:
            return "results"
        if m_observable(st) != final_obs:
            return "final refs %r differ from the model %r for the only result-consistent order(s)" % (nm(final_obs), nm(m_observable(st)))
        # readers: each value seen must be a value of that ref in some state within the read's interval
        rd_ok = True
        for r in reads:
            if "exc" in r:
                rd_ok = False
                best = "reader raised %s" % r["exc"]
                break
            # position k in perm-order means k writes applied; feasible k range:
            lo = 0
            hi = len(perm)
            for pos, idx in enumerate(perm):
                w = writes[idx]
                if w["t_ret"] < r["t_call"]:
                    lo = max(lo, pos + 1)  # this write completed before the read began
                if w["t_call"] > r["t_ret"]:
                    hi = min(hi, pos)  # this write began after the read ended
            if lo > hi:
                rd_ok = False
                break
            cand = states[lo : hi + 1]
            op = r["op"]
            if op[0] == "read":
                if not any(m_apply(s, op)[1] == r["result"] for s in cand):
                    rd_ok = False
                    best = "read of %s returned %r, not a value it had while the read ran (%r)" % (
                        op[1].decode(), nm(r["result"][1]) if len(r["result"]) > 1 else "KeyError",
                        [nm(m_apply(s, op)[1][1]) if len(m_apply(s, op)[1]) > 1 else "KeyError" for s in cand])
                    break
            else:
                seen = r["result"][1]
                names = set(seen)
                for s in cand:
                    names |= set(m_observable(s))
                for n in names:
                    if not any(m_observable(s).get(n) == seen.get(n) for s in cand):
                        rd_ok = False
                        best = "as_dict() showed %s=%r, never its value while the call ran (%r)" % (
                            n.decode(), nm(seen.get(n)), [nm(m_observable(s).get(n)) for s in cand])
                        break
                if not rd_ok:
                    break
        if rd_ok:
            return None
        return best or "results"


# --------------------------------------------------------------------------- scenario


class RefsScenario(sysched.Scenario):
    def __init__(self, init_name, programs):
        self.init_name = init_name
        self.init = INITS[init_name]
        self.programs = programs
        self.nactors = len(programs)
        self.name = "refs[%s]:%s" % (init_name, " || ".join(";".join(opname(o) for o in p) for p in programs))

    def setup(self, root):
        build_refs_dir(root, self.init)

    def actor(self, i, root, rec):
        from dulwich.refs import DiskRefsContainer

        refs = DiskRefsContainer(root)
        for op in self.programs[i]:
            rec("call", op)
            try:
                res = do_op(refs, op)
                rec("ret", res)
            except Exception as e:
                rec("exc", "%s: %s" % (type(e).__name__, str(e).replace(root, "<root>")[:100]))

    def check(self, ex, root):
        calls = []
        open_ = {}
        for pos, (a, kind, payload, _) in enumerate(ex.history):
            if kind == "call":
                open_[a] = {"actor": a, "op": payload, "t_call": pos}
            elif kind == "ret":
                c = open_.pop(a)
                c["t_ret"] = pos
                c["result"] = payload
                calls.append(c)
            elif kind == "exc":
                c = open_.pop(a)
                c["t_ret"] = pos
                c["exc"] = payload
                calls.append(c)
        final = observe_final(root)
        why = check_linearizable(model_init(self.init), calls, final)
        ex.extra["outcome"] = "|".join(
            "%d:%s=%s" % (c["actor"], opname(c["op"]), _resname(c)) for c in sorted(calls, key=lambda c: (c["actor"], c["t_call"]))
        ) + "|final=" + repr(nm(final))
        out = []
        if why:
            kinds = sorted({opkind(c["op"]) for c in calls})
            key = "linearizability:" + "+".join(kinds) + ":" + _why_class(why)
            # Classification only: is this execution explained *exactly* by the recorded residual
            # defect (pack_refs overlapping the deletion of a ref that was not packed when the
            # deletion started writes the ref back into packed-refs)?
            writes = [c for c in calls if not is_read(c["op"])]
            res = {}
            for ki, k in enumerate(writes):
                if k["op"][0] != "pack" or "exc" in k:
                    continue
                for d in writes:
                    if d["op"][0] != "rm" or d.get("result") is not True or d["actor"] == k["actor"]:
                        continue
                    if not (d["t_call"] < k["t_ret"] and k["t_call"] < d["t_ret"]):
                        continue
                    r = d["op"][1]
                    if r in self.init["packed"]:
                        continue
                    vals = {v for v in (self.init["loose"].get(r),) if v}
                    for c in writes:
                        if c["op"][0] in ("cas", "add") and m_follow(model_init(self.init), c["op"][1])[0] == r:
                            vals.add(c["op"][-1])
                    res.setdefault(ki, [])
                    res[ki] += [(r, v) for v in sorted(vals)]
            if res and check_linearizable(model_init(self.init), calls, final, resurrect=res) is None:
                key = "residual:delete-of-unpacked-ref||pack_refs:ref-written-back-by-packer"
            out.append((key, "%s -> %s; results: %s" % (self.name, why, ex.extra["outcome"])))
        for d, _, files in os.walk(root):
            for f in files:
                if f.endswith(".lock"):
                    out.append(("lock:left-behind", "%s exists after all actors finished" % f))
        return out


def _why_class(why):
    if why.startswith("final refs"):
        return "lost-or-phantom-update"
    if why.startswith("read of") or why.startswith("as_dict"):
        return "reader-saw-impossible-value"
    if why.startswith("reader raised"):
        return "reader-raised"
    return "results-inconsistent"


def _resname(c):
    if "exc" in c:
        return "exc:" + c["exc"].split(":")[0]
    r = c["result"]
    if isinstance(r, tuple):
        if r[0] == "val":
            return nm(r[1])
        if r[0] == "keyerror":
            return "KeyError"
        return repr(nm(r[1]))
    return repr(r)


def opkind(op):
    k = op[0]
    if k == "cas":
        return "set_if_equals" if op[2] is not None else "set"
    if k == "rm":
        return "remove_if_equals" if op[2] is not None else "delete"
    return {"add": "add_if_new", "symref": "set_symbolic_ref", "pack": "pack_refs", "read": "read", "asdict": "as_dict"}[k]


def opname(op):
    k = op[0]
    if k == "cas":
        return "cas(%s,%s->%s)" % (op[1].decode().split("/")[-1], nm(op[2]), nm(op[3]))
    if k == "add":
        return "add(%s,%s)" % (op[1].decode().split("/")[-1], nm(op[2]))
    if k == "rm":
        return "rm(%s,%s)" % (op[1].decode().split("/")[-1], nm(op[2]))
    if k == "symref":
        return "symref(%s->%s)" % (op[1].decode(), op[2].decode().split("/")[-1])
    if k == "read":
        return "read(%s)" % op[1].decode().split("/")[-1]
    return k


def alphabet(actor):
    z = NEW[actor]
    return [
        ("cas", M, X, z),        # right old value when m == X
        ("cas", M, Y, z),        # right when m == Y, stale otherwise
        ("cas", M, None, z),     # unconditional set
        ("add", M, z),
        ("add", HEAD, z),        # add_if_new through the symbolic ref (what a first commit does)
        ("rm", M, X),
        ("rm", M, None),
        ("cas", HEAD, X, z),     # through the symbolic ref
        ("symref", HEAD, N),
        ("pack",),
        ("read", M),
        ("read", HEAD),
        ("asdict",),
    ]


def scenarios(quick):
    out = []
    a0, a1 = alphabet(0), alphabet(1)
    inits = list(INITS)
    for init in inits:
        for o0 in a0:
            for o1 in a1:
                if is_read(o0) and is_read(o1):
                    continue
                out.append((init, [[o0], [o1]], 2 if quick else 3))
    # two operations per actor: CAS chains and delete/re-create sequences against maintenance
    chains = [
        [("cas", M, X, Z0), ("cas", M, Z0, Y)],
        [("rm", M, X), ("add", M, Z0)],
        [("pack",), ("read", M)],
        [("cas", M, X, Z0), ("pack",)],
        [("read", M), ("read", M)],
    ]
    others = [[("cas", M, X, Z1)], [("pack",)], [("rm", M, None)], [("read", M), ("read", M)], [("cas", M, X, Z1), ("pack",)]]
    for init in (["looseX/sym", "packedX/sym"] if quick else inits):
        for c in chains:
            for o in others:
                out.append((init, [c, o], 2))
    # creation races: the other actor creates the ref and packs it away before the first one takes its lock
    creators = [[("add", M, Z0)], [("add", HEAD, Z0)], [("cas", M, None, Z0)], [("cas", M, ZERO, Z0)]]
    packers = [[("add", M, Z1), ("pack",)], [("cas", M, None, Z1), ("pack",)], [("add", HEAD, Z1), ("pack",)],
               [("pack",), ("add", M, Z1)]]
    for init in (["absent/sym"] if quick else ["absent/sym", "looseX/detached"]):
        for c in creators:
            for o in packers:
                out.append((init, [c, o], 2))
    # three actors
    triples = [
        [[("cas", M, X, Z0)], [("cas", M, X, Z1)], [("cas", M, X, Z2)]],
        [[("cas", M, X, Z0)], [("pack",)], [("read", M)]],
        [[("rm", M, X)], [("pack",)], [("read", M)]],
        [[("rm", M, X)], [("pack",)], [("cas", M, X, Z2)]],
        [[("add", M, Z0)], [("add", M, Z1)], [("read", M)]],
    ]
    for init in ("looseX/sym", "packedX/sym", "absent/sym"):
        for t in triples:
            out.append((init, t, 1 if quick else 2))
    return out


def work_refs(task):
    acc = Acc()
    for init, programs, bound in task:
        sc = RefsScenario(init, programs)
        st = sysched.explore_scenario(sc, bound)
        absorb(acc, st, ("refs", init, programs, bound))
    return acc


def absorb(acc, st, desc):
    acc.count("scenarios")
    acc.count("executions", st["executions"])
    acc.count("points", st["points_total"])
    for k, v in st["per_preemptions"].items():
        acc.count("executions_with_%d_preemptions" % k, v)
    for oc, n in st["outcomes"].items():
        acc.outcome(oc, n)
    if st["uninterposed"]:
        raise HarnessError("uninterposed file-system access in %s: %r" % (st["scenario"], st["uninterposed"]))
    acc.count("skipped_by_conflict_filter", st.get("skipped_by_filter", 0))
    acc.sample({"scenario": st["scenario"], "bound": st["bound"], "executions": st["executions"],
                "per_preemptions": st["per_preemptions"], "max_points": st["max_points"]}, cap=3)
    for v in st["violations"]:
        acc.violation(v["key"], "%s [schedule %s; %d schedule(s) in this scenario]" % (v["summary"], v["choices"], v["count"]),
                      rp("case_replay_schedule", list(desc), v["choices"]))


def case_replay_schedule(acc, desc, choices):
    kind = desc[0]
    if kind == "refs":
        sc = RefsScenario(desc[1], [[tuple(o) for o in p] for p in desc[2]])
    elif kind == "commit":
        sc = CommitScenario(*desc[1:])
    elif kind == "memcommit":
        sc = MemCommitScenario(*desc[1:])
    else:
        raise HarnessError("unknown scenario kind")
    exp = sysched.Explorer(sc, 99)
    try:
        ex, viol = exp.replay(choices)
        for key, summary in viol:
            acc.violation(key, "%s trace=%r" % (summary, ex.trace))
    finally:
        exp.close()


# --------------------------------------------------------------------------- commit scenarios


class CommitScenario(sysched.Scenario):
    """n actors each call WorkTree.commit(tree=..., ref=refs/heads/m) from the same tip."""

    def __init__(self, nactors, start, api="worktree"):
        self.nactors = nactors
        self.start = start  # "tip" (branch exists) | "unborn"
        self.api = api
        self.name = "commit[%s,%s]x%d" % (api, start, nactors)

    def setup(self, root):
        from dulwich.objects import Blob, Commit, Tree
        from dulwich.repo import Repo

        r = Repo.init(root)
        b = Blob.from_string(b"hello\n")
        t = Tree()
        t.add(b"a", 0o100644, b.id)
        r.object_store.add_object(b)
        r.object_store.add_object(t)
        for i in range(self.nactors):
            bi = Blob.from_string(b"actor %d\n" % i)
            ti = Tree()
            ti.add(b"a", 0o100644, bi.id)
            r.object_store.add_object(bi)
            r.object_store.add_object(ti)
        if self.start == "tip":
            c = Commit()
            c.tree = t.id
            c.author = c.committer = b"A <a@example.com>"
            c.author_time = c.commit_time = 1000000000
            c.author_timezone = c.commit_timezone = 0
            c.message = b"base\n"
            r.object_store.add_object(c)
            r.refs[M] = c.id
        r.refs.set_symbolic_ref(HEAD, M)
        cfg = r.get_config()
        cfg.set((b"gc",), b"auto", b"0")  # no auto-gc probe (256 directory listings) after each commit
        cfg.write_to_path()
        r.close()

    def actor(self, i, root, rec):
        from dulwich.objects import Blob, Tree
        from dulwich.repo import Repo

        bi = Blob.from_string(b"actor %d\n" % i)
        ti = Tree()
        ti.add(b"a", 0o100644, bi.id)
        r = Repo(root)
        try:
            rec("call", i)
            try:
                wt = r.get_worktree()
                cid = wt.commit(
                    message=b"commit by %d\n" % i, tree=ti.id, ref=M, committer=b"C%d <c@example.com>" % i,
                    author=b"C%d <c@example.com>" % i, commit_timestamp=1000000100 + i, commit_timezone=0,
                    author_timestamp=1000000100 + i, author_timezone=0, sign=False, no_verify=True,
                )
                rec("ret", cid)
            except Exception as e:
                rec("exc", "%s: %s" % (type(e).__name__, str(e)[:80]))
        finally:
            r.close()

    def check(self, ex, root):
        from dulwich.repo import Repo

        out = []
        r = Repo(root)
        try:
            try:
                tip = r.refs[M]
            except KeyError:
                tip = None
            anc = set()
            todo = [tip] if tip else []
            while todo:
                c = todo.pop()
                if c in anc:
                    continue
                anc.add(c)
                todo.extend(r[c].parents)
            ok_ids = [(a, p) for a, k, p, _ in ex.history if k == "ret"]
            errs = [(a, p) for a, k, p, _ in ex.history if k == "exc"]
            for a, cid in ok_ids:
                if cid not in anc:
                    out.append(("commit:%s:successful-commit-not-in-branch-history" % self.api,
                                "%s: actor %d's commit %s was reported successful but is not an ancestor of the final tip %s "
                                "(successful: %r, errors: %r)" % (self.name, a, cid[:8].decode(), (tip or b"-")[:8].decode(),
                                                                  [x[0] for x in ok_ids], errs)))
            ex.extra["outcome"] = "ok=%r errs=%r" % (sorted(a for a, _ in ok_ids), sorted((a, e.split(":")[0]) for a, e in errs))
        finally:
            r.close()
        return out


def work_commit(task):
    acc = Acc()
    nactors, start, bound, shard = task
    sc = CommitScenario(nactors, start)
    st = sysched.explore_scenario(sc, bound, conflict_filter=True, shard=shard)
    absorb(acc, st, ("commit", nactors, start))
    return acc


def run(ctx):
    q = ctx.quick
    scs = ctx.order(scenarios(q))
    tasks = split(scs, ctx.jobs * 6)
    pmap_acc(work_refs, tasks, ctx.acc, jobs=ctx.jobs)
    nsh = ctx.jobs
    ctasks = []
    for start in ("tip", "unborn"):
        for k in range(nsh):
            ctasks.append((2, start, 2 if q else 3, (k, nsh)))
    if not q:
        for k in range(nsh):
            ctasks.append((3, "tip", 2, (k, nsh)))
    pmap_acc(work_commit, ctx.order(ctasks), ctx.acc, jobs=ctx.jobs)
    mtasks = []
    for start in ("tip", "unborn"):
        for k in range(nsh):
            mtasks.append((2, start, 2, (k, nsh)))
    if not q:
        for k in range(nsh):
            mtasks.append((3, "tip", 1, (k, nsh)))
    pmap_acc(work_memcommit, ctx.order(mtasks), ctx.acc, jobs=ctx.jobs)
    n = ctx.acc.n
    ctx.level = "model_checking"
    ctx.coverage.update(
        states=n.get("points", 0),
        transitions=n.get("points", 0),
        traces_validated_against_impl=n.get("executions", 0),
        evaluations=n.get("executions", 0),
        distinct_nontrivial=len(ctx.acc.classes),
        rule="E1: all interleavings at system-call granularity with <= bound preemptions of 2-3 actors running 1-2 ref "
             "operations (alphabet of 12 per actor) from 6 initial ref states; brute-force linearizability against a dict model; "
             "commit scenarios explored with the conflict-filtered reduction (preempt only before calls whose path another actor touches). "
             "distinct_nontrivial = distinct (result vector, final refs) outcomes observed.",
        exhaustive=True,
        bounds={"preemptions_pairs": 2 if q else 3, "preemptions_triples": 1 if q else 2, "ops_per_actor": "1-2"},
    )
    ctx.assumptions += [
        "actors are processes sharing only the file system; system calls atomic and sequentially consistent",
        "an operation that raises is required to have had no effect (spurious errors under contention are allowed)",
        "multi-ref reads (as_dict) are judged per ref, not as an atomic snapshot",
        "tmpfs; inode numbers pinned within an execution (packed-refs cache key)",
    ]


def replay(ctx, obj):
    import sys

    from engines.common import replay_generic

    return replay_generic(sys.modules[__name__], ctx, obj)


# --------------------------------------------------------------------------- in-memory commits (threads, line granularity)

_MEM = {}


class MemCommitScenario(sysched.Scenario):
    """n threads share ONE MemoryRepo and each call do_commit(ref=refs/heads/m) from the same tip.  Scheduling
    points are the source lines executed inside dulwich/refs.py and inside BaseRepo/MemoryRepo.do_commit."""

    def __init__(self, nactors, start):
        import dulwich.refs
        import dulwich.repo

        self.nactors = nactors
        self.start = start
        self.name = "commit[memory,%s]x%d" % (start, nactors)
        # scheduling points: the lines of the ref container's methods (the commit code between the read of the
        # branch and the compare-and-swap touches nothing shared, so preempting there is equivalent to preempting
        # at the last line of the read); any lock the container uses becomes a cooperative lock
        self.trace_files = {dulwich.refs.__file__}
        self.trace_functions = {"set_if_equals", "add_if_new", "remove_if_equals", "__getitem__", "follow",
                                "read_ref", "read_loose_ref", "__setitem__"}
        dulwich.refs.threading = sysched.coop_threading

    def setup(self, root):
        pass

    def begin(self, ex, ctl, root):
        from dulwich.objects import Blob, Commit, Tree
        from dulwich.repo import MemoryRepo

        r = MemoryRepo()
        b = Blob.from_string(b"hello\n")
        t = Tree()
        t.add(b"a", 0o100644, b.id)
        r.object_store.add_object(b)
        r.object_store.add_object(t)
        trees = []
        for i in range(self.nactors):
            bi = Blob.from_string(b"actor %d\n" % i)
            ti = Tree()
            ti.add(b"a", 0o100644, bi.id)
            r.object_store.add_object(bi)
            r.object_store.add_object(ti)
            trees.append(ti.id)
        if self.start == "tip":
            c = Commit()
            c.tree = t.id
            c.author = c.committer = b"A <a@example.com>"
            c.author_time = c.commit_time = 1000000000
            c.author_timezone = c.commit_timezone = 0
            c.message = b"base\n"
            r.object_store.add_object(c)
            r.refs[M] = c.id
        ex.extra["repo"] = r
        ex.extra["trees"] = trees

    def actor(self, i, root, rec):
        r = rec.ex.extra["repo"]
        rec("call", i)
        try:
            cid = r.do_commit(message=b"commit by %d\n" % i, tree=rec.ex.extra["trees"][i], ref=M,
                              committer=b"C%d <c@example.com>" % i, author=b"C%d <c@example.com>" % i,
                              commit_timestamp=1000000100 + i, commit_timezone=0)
            rec("ret", cid)
        except Exception as e:
            rec("exc", "%s: %s" % (type(e).__name__, str(e)[:80]))

    def check(self, ex, root):
        r = ex.extra["repo"]
        out = []
        try:
            tip = r.refs[M]
        except KeyError:
            tip = None
        anc = set()
        todo = [tip] if tip else []
        while todo:
            c = todo.pop()
            if c in anc:
                continue
            anc.add(c)
            todo.extend(r[c].parents)
        ok_ids = [(a, p) for a, k, p, _ in ex.history if k == "ret"]
        errs = [(a, p) for a, k, p, _ in ex.history if k == "exc"]
        for a, cid in ok_ids:
            if cid not in anc:
                out.append(("commit:memory:successful-commit-not-in-branch-history",
                            "%s: actor %d's commit was reported successful but is not an ancestor of the final tip (successful: %r, errors: %r)" % (
                                self.name, a, [x[0] for x in ok_ids], errs)))
                break
        ex.extra["outcome"] = "mem ok=%r errs=%r" % (sorted(a for a, _ in ok_ids), sorted((a, e.split(":")[0]) for a, e in errs))
        return out


def work_memcommit(task):
    acc = Acc()
    nactors, start, bound, shard = task
    sc = MemCommitScenario(nactors, start)
    st = sysched.explore_scenario(sc, bound, shard=shard)
    absorb(acc, st, ("memcommit", nactors, start))
    return acc
