"""C18 — work tree round trip: checkout then stage reproduces the tree; status is exact.

E3/E4, three enumerations, every element executed on the real dulwich code in a scratch repository
whose objects/refs/HEAD are laid out by the harness itself (no dulwich code builds the inputs):

 (1) round trip   every tree of <= N entries over 9 names x 8 kinds: checkout into a fresh directory
                  (WorkTree.reset_index == build_index_from_tree, and porcelain.checkout ==
                  update_working_tree) -> directory == tree, index == tree, status clean ->
                  porcelain.add('.') -> Index.commit == tree id -> status clean.
 (2) switch       ALL ordered pairs of the trees of a slot universe (a x d [x b]; every
                  absent/file/exec/symlink/directory transition at 'a', 'd', 'd/e'): checkout A, switch to B
                  (porcelain.checkout, porcelain.reset --hard), same assertions on B.
 (3) edits        explicit-state BFS (states = model state + per-entry stat-clean flag; every transition
                  re-executed from a fresh checkout) over working-directory edits done by the harness and
                  index operations done by dulwich; status judged in every reached state.

Oracles: engines/refmodels/worktree.py (three dicts; porcelain records), the independent index parser and
tree builder (refmodels/indexfile.py, gittree.py) and C git (status --porcelain=v1 -z, write-tree).
Model vs C git disagreement is a HarnessError, never a violation.
"""

from __future__ import annotations

import itertools
import os
import posixpath
import re
import shutil
import sys
import traceback

from engines.common import REPO, Acc, HarnessError, dec, fresh_dir, git, pmap, preload_rust, rmtree, rp, scratch_root, split
from engines.refmodels import gittree, indexfile
from engines.refmodels import worktree as wm

REG, EXE, LNK = wm.REG, wm.EXE, wm.LNK

# --------------------------------------------------------------------------- alphabets

NAMES = [b"a", b"b", b"a b", b"\xc3\xa9", b"\xff\xfe", b'"q"', b"d/x", b"d/y", b"d/e/z"]
BIG = b"0123456789abcde\n" * 4375  # 70 000 bytes
assert len(BIG) == 70000
KINDS = {
    "E": (REG, b""),  # empty file
    "X": (REG, b"x"),  # 1 byte
    "Y": (REG, b"y"),
    "P": (REG, b"AB"),  # two different contents of equal size
    "Q": (REG, b"CD"),
    "B": (REG, BIG),  # 70 000 bytes
    "PX": (EXE, b"AB"),  # executable (same blob as P: mode-only difference)
    "L": (LNK, b"nowhere"),  # dangling symlink
    "La": (LNK, b"a"),  # symlink to the name 'a' (a tracked file when the tree has one)
    "Ld": (LNK, b"d"),  # symlink to the name 'd' (a directory when the tree has d/...)
}
KINDS1 = ["E", "X", "P", "Q", "B", "PX", "L", "La"]  # phase (1)
Q3 = ["X", "L"]  # kinds of the three-entry trees of the quick tier


def tree_of(spec):
    """spec: tuple of (name, kind code) -> ({path: (mode, hexid)}, {hexid: data})."""
    tree, blobs = {}, {}
    for name, k in spec:
        mode, data = KINDS[k]
        h = wm.blob_id(data)
        tree[bytes(name)] = (mode, h)
        blobs[h] = data
    return tree, blobs


def spec_str(spec):
    return "{" + ", ".join("%s:%s" % (_pn(n), k) for n, k in spec) + "}"


def _pn(p):
    return repr(bytes(p))[2:-1]


# --------------------------------------------------------------------------- isolation

_iso = [None]


def isolate():
    """No global/system git configuration, no global ignore file, fixed identity and umask."""
    if _iso[0] == os.getpid():
        return
    home = os.path.join(scratch_root(), "home")
    os.makedirs(os.path.join(home, "xdg"), exist_ok=True)
    os.environ.update(
        HOME=home, XDG_CONFIG_HOME=os.path.join(home, "xdg"), GIT_CONFIG_NOSYSTEM="1", GIT_CONFIG_GLOBAL="/dev/null",
        GIT_AUTHOR_NAME="A", GIT_AUTHOR_EMAIL="a@example.com", GIT_COMMITTER_NAME="C", GIT_COMMITTER_EMAIL="c@example.com",
        GIT_AUTHOR_DATE="1000000000 +0000", GIT_COMMITTER_DATE="1000000000 +0000", TZ="UTC",
    )
    for v in ("GIT_DIR", "GIT_WORK_TREE", "GIT_INDEX_FILE", "GIT_OBJECT_DIRECTORY", "GIT_CONFIG", "GIT_CONFIG_SYSTEM"):
        os.environ.pop(v, None)
    os.umask(0o022)
    _iso[0] = os.getpid()


# --------------------------------------------------------------------------- scratch repository

CONFIG = b"[core]\n\trepositoryformatversion = 0\n\tfilemode = true\n\tbare = false\n\tlogallrefupdates = true\n"
VT0 = 1_100_000_000  # virtual clock for harness edits: strictly increasing, far from "now" and from commit times


class Box:
    """A scratch repository: .git laid out by hand, loose objects written by the harness."""

    def __init__(self, config_extra=b""):
        isolate()
        self.root = fresh_dir("c18")
        self.rootb = os.fsencode(self.root)
        self.gitdir = os.path.join(self.root, ".git")
        for d in ("objects/info", "objects/pack", "refs/heads", "refs/tags", "info"):
            os.makedirs(os.path.join(self.gitdir, d))
        with open(os.path.join(self.gitdir, "config"), "wb") as f:
            f.write(CONFIG + config_extra)
        self.set_head_branch("main")
        self.blobs = {}
        self.tick = 0
        self._repo = None

    def set_head_branch(self, name):
        with open(os.path.join(self.gitdir, "HEAD"), "wb") as f:
            f.write(b"ref: refs/heads/" + name.encode() + b"\n")

    def add_tree(self, branch, spec):
        """Write blobs, trees and one commit for spec; point refs/heads/<branch> at the commit."""
        tree, blobs = spec if isinstance(spec, tuple) and len(spec) == 2 and isinstance(spec[0], dict) else tree_of(spec)
        objdir = os.path.join(self.gitdir, "objects")
        for h, data in blobs.items():
            wm.write_loose(objdir, b"blob", data)
        self.blobs.update(blobs)
        built = gittree.build([(p, m, h) for p, (m, h) in sorted(tree.items())])
        for path in built.order:
            wm.write_loose(objdir, b"tree", built.trees[path][1])
        cid = wm.write_loose(objdir, b"commit", wm.commit_body(built.root, branch.encode() + b"\n"))
        with open(os.path.join(self.gitdir, "refs", "heads", branch), "wb") as f:
            f.write(cid + b"\n")
        return tree, built.root, cid

    def repo(self):
        from dulwich.repo import Repo

        if self._repo is None:
            self._repo = Repo(self.root)
        return self._repo

    def full(self, p):
        return os.path.join(self.rootb, p)

    def touch(self, p):
        self.tick += 1
        t = (VT0 + self.tick) * 10**9
        os.utime(self.full(p), ns=(t, t), follow_symlinks=False)

    def head_commit(self):
        """HEAD resolved by the harness (symbolic ref -> loose ref)."""
        with open(os.path.join(self.gitdir, "HEAD"), "rb") as f:
            v = f.read().strip()
        if v.startswith(b"ref: "):
            try:
                with open(os.path.join(os.fsencode(self.gitdir), v[5:]), "rb") as f:
                    return f.read().strip(), v[5:]
            except FileNotFoundError:
                return None, v[5:]
        return v, None

    def read_index(self):
        """Independent parse of .git/index -> ({path: (mode, hexid)}, {path: stat-clean?}, problem|None)."""
        p = os.path.join(self.gitdir, "index")
        self.tree_ext = False
        self.cache_tree_problem = None
        if not os.path.exists(p):
            return {}, {}, None
        with open(p, "rb") as f:
            data = f.read()
        try:
            parsed = indexfile.parse(data)
        except indexfile.IndexFormatError as e:
            return None, None, "undecodable(%s)" % e.code
        if parsed.problems:
            return None, None, "malformed(%s)" % ",".join(parsed.codes())
        self.tree_ext = False
        self.cache_tree_problem = None
        for sig, payload, _ in parsed.extensions:
            if sig == b"TREE":
                self.tree_ext = True
                self.cache_tree_problem = cache_tree_problem(payload, [(e.name, e.mode, e.sha.hex().encode("ascii")) for e in parsed.entries])
        idx, clean = {}, {}
        for e in parsed.entries:
            if e.stage != 0:
                return None, None, "unmerged-entry"
            idx[e.name] = (e.mode, e.sha.hex().encode("ascii"))
            try:
                st = os.lstat(self.full(e.name))
                clean[e.name] = (
                    st.st_mtime_ns == e.mtime[0] * 10**9 + e.mtime[1]
                    and st.st_ctime_ns == e.ctime[0] * 10**9 + e.ctime[1]
                    and (st.st_size & 0xFFFFFFFF) == e.size
                )
            except OSError:
                clean[e.name] = False
        return idx, clean, None

    def has_tree_extension(self):
        self.read_index()
        return self.tree_ext

    def close(self):
        if self._repo is not None:
            try:
                self._repo.close()
            except Exception:
                pass
        rmtree(self.root)


def cache_tree_problem(payload, listing):
    """gitformat-index "Cache tree": per node  path NUL  entry_count SP subtree_count LF  [20-byte id when
    entry_count >= 0], depth first.  Every *valid* node (entry_count >= 0) must describe the index entries below
    its path: their number and the id of the tree they hash to.  Returns None or a short description."""
    if not gittree.consistent(listing):
        return None  # reported elsewhere
    built = gittree.build(listing)
    pos = [0]

    def node(prefix, top):
        z = payload.index(b"\0", pos[0])
        name = payload[pos[0]:z]
        nl = payload.index(b"\n", z)
        count, subtrees = (int(x) for x in payload[z + 1:nl].split(b" "))
        pos[0] = nl + 1
        oid = None
        if count >= 0:
            oid = payload[pos[0]:pos[0] + 20].hex().encode("ascii")
            pos[0] += 20
        path = b"" if top else (prefix + b"/" + name if prefix else name)
        out = []
        if count >= 0:
            pre = path + b"/" if path else b""
            n = sum(1 for q, _, _ in listing if q.startswith(pre))
            want = built.trees.get(path)
            if want is None or n != count or want[0] != oid:
                out.append("%s: cached %d entries/%s, index has %d/%s" % (_pn(path) or "<root>", count, oid[:8].decode(), n, want[0][:8].decode() if want else "no such directory"))
        for _ in range(subtrees):
            out += node(path, False)
        return out

    try:
        probs = node(b"", True)
        if pos[0] != len(payload):
            return "trailing bytes in TREE extension"
    except (ValueError, IndexError):
        return "undecodable TREE extension"
    return "; ".join(probs) if probs else None


# --------------------------------------------------------------------------- classification (violation keys)


def site_of(exc):
    """module.function of the innermost dulwich frame of an exception: a stable name of where it broke."""
    tb = traceback.extract_tb(exc.__traceback__)
    root = os.path.join(os.path.abspath(REPO), "dulwich") + os.sep
    for fr in reversed(tb):
        fn = os.path.abspath(fr.filename)
        if fn.startswith(root):
            mod = fn[len(root):-3].replace(os.sep, ".")
            if mod.endswith(".__init__"):
                mod = mod[:-9]
            return "%s.%s" % (mod, fr.name)
    return "harness"


def raised(exc):
    return "%s@%s" % (type(exc).__name__, site_of(exc))


def name_class(p):
    p = p.rstrip(b"/")
    if any(c >= 0x80 for c in p):
        try:
            p.decode("utf-8")
            return "utf8"
        except UnicodeDecodeError:
            return "non-utf8"
    if b'"' in p or b"\\" in p:
        return "quoted"
    if b" " in p:
        return "space"
    return "plain"


def ent_kind(ent):
    if ent is None:
        return "absent"
    return {LNK: "symlink", EXE: "exec", REG: "file"}.get(ent[0], "mode%o" % ent[0])


def tree_kind(tree, p):
    """Kind of path p in a tree map: absent/file/exec/symlink/dir."""
    if p in tree:
        return ent_kind(tree[p])
    pre = p + b"/"
    return "dir" if any(q.startswith(pre) for q in tree) else "absent"


def link_class(wd, index, p, target):
    if target.startswith(b"/"):
        return "outside"
    t = posixpath.normpath(posixpath.join(posixpath.dirname(p), target))
    if t == b".":
        return "to-dir"
    if t.startswith(b".."):
        return "outside"
    if t == p:
        return "loop"
    e = wm.wd_lookup(wd, t)
    if e is None:
        return "dangling"
    if e == "dir":
        return "to-dir"
    if e[0] == "l":
        return "to-symlink"
    return "to-tracked-file" if t in index else "to-untracked-file"


def wd_kind(wd, index, p, fine=False):
    """Coarse kind of what the work tree has at p (a trailing slash asks about a directory)."""
    if p.endswith(b"/"):
        e = wm.wd_lookup(wd, p[:-1])
        if isinstance(e, tuple) and e[0] == "l":
            return "symlink-listed-as-directory"
        if e != "dir":
            return "absent" if e is None else "file-listed-as-directory"
        kinds = sorted(set({"f": "file", "l": "symlink", "d": "emptydir", "?": "special"}[x[0]] for q, x in wd.items() if q.startswith(p)))
        return "dir[%s]" % "+".join(kinds or ["empty"])
    e = wm.wd_lookup(wd, p)
    if e is None:
        for q in wm.prefixes(p):
            if isinstance(wd.get(q), tuple) and wd[q][0] in ("l", "f"):
                return "beyond-symlink" if wd[q][0] == "l" else "beyond-file"
        return "absent"
    if e == "dir":
        return "dir"
    if e[0] == "l":
        lc = link_class(wd, index, p, e[1])
        return "symlink(%s)" % lc if fine else "symlink-to-directory" if lc == "to-dir" else "symlink"
    if e[0] == "f":
        return ("exec" if e[2] else "file") if fine else "file"
    return "special"


def diff_class(old, new):
    """How two (mode, id) | None differ."""
    if old == new:
        return "none"
    if old is None:
        return "added"
    if new is None:
        return "deleted"
    if old[1] == new[1]:
        return "type-only" if (old[0] == LNK) != (new[0] == LNK) else "mode-only"
    if (old[0] == LNK) != (new[0] == LNK):
        return "type+content"
    if old[0] != new[0]:
        return "mode+content"
    return "content"


def path_class(component, head, index, wd, p):
    """The class of path p *with respect to the relation the status component reports*: for untracked
    paths (tracked?, kind in the directory); for unstaged paths how index and directory differ; for
    staged paths how HEAD and index differ.  A non-plain name adds ',name=<class>' (collapsed by run()
    when the same class also fails for plain names, i.e. when the failure is not name-specific)."""
    q = p.rstrip(b"/")
    if component == "untracked":
        cls = ("tracked-" if q in index else "") + wd_kind(wd, index, p)
        if p.endswith(b"/") and any(n.startswith(p) for n in index):
            cls = "directory-with-tracked-files"
    elif component == "unstaged":
        if q not in index:
            cls = "not-in-index(%s)" % wd_kind(wd, index, p)
        else:
            e = wm.wd_lookup(wd, q)
            d = diff_class(index[q], wm.entry_of(e) if e not in (None, "dir") else None)
            if d == "deleted":
                d = "deleted(%s)" % ("directory-in-its-place" if e == "dir" else "gone" if all(wm.wd_lookup(wd, x) in (None, "dir") for x in wm.prefixes(q)) else "parent-is-not-a-directory")
            elif d == "none":
                d = "unchanged(%s)" % wd_kind(wd, index, q)
            cls = d
    else:
        cls = diff_class(head.get(q), index.get(q))
        if cls == "none":
            cls = "unchanged" if q in index else "in-neither"
    nc = name_class(p)
    return cls if nc == "plain" else "%s,name=%s" % (cls, nc)


def collapse_name_suffixes(acc):
    """status:...:<class>,name=<n> is merged into status:...:<class> when the latter occurred too."""
    for key in sorted(acc.viol):
        if ",name=" not in key:
            continue
        base = key[: key.index(",name=")]
        if base in acc.viol:
            c, cases = acc.viol.pop(key)
            acc.viol[base][0] += c
            acc.viol[base][1].extend(cases[: max(0, acc.MAX_PER_KEY - len(acc.viol[base][1]))])


# --------------------------------------------------------------------------- the judge


def dul_status(repo_or_path, mode):
    from dulwich import porcelain

    try:
        st = porcelain.status(repo_or_path, untracked_files=mode)
    except Exception as e:
        return ("raised", raised(e), repr(e)[:200])
    staged = {k: sorted(os.fsencode(x) if isinstance(x, str) else x for x in v) for k, v in st.staged.items()}
    return (
        "ok",
        staged,
        sorted(os.fsencode(x) if isinstance(x, str) else x for x in st.unstaged),
        sorted(os.fsencode(x) if isinstance(x, str) else x for x in st.untracked),
    )


def judge(acc, box, head, where, desc, rpl, use_git=True, git_modes=("normal", "all"), plan="full"):
    """Evaluate the state of box: index readable and conflict-free, Index.commit == independent tree id,
    porcelain.status exact in both untracked modes (live Repo object and fresh open agree), C git agrees.
    `where` is the key prefix naming the operation that led here.  Returns (index map, clean flags, wd)
    or None when the state cannot be interpreted."""
    r = box.repo()
    wd = wm.walk(box.rootb)
    if any(e[0] == "?" for e in wd.values()):
        raise HarnessError("special file in scratch work tree: %r" % wd)
    idx, clean, problem = box.read_index()
    acc.count("states_judged")
    if problem:
        acc.violation("%s:index-file:%s" % (where, problem), "%s: .git/index is %s" % (desc, problem), rpl)
        return None
    listing = [(p, m, h) for p, (m, h) in sorted(idx.items())]
    if not gittree.consistent(listing):
        acc.violation("%s:index-file:file-directory-conflict" % where,
                      "%s: the index holds a path and a path below it: %s" % (desc, [_pn(p) for p in sorted(idx)]), rpl)
        return None
    if any(m not in (REG, EXE, LNK) for _, m, _ in listing):
        acc.violation("%s:index-file:unexpected-entry-mode" % where, "%s: %r" % (desc, [(p, oct(m)) for p, m, _ in listing]), rpl)
        return None
    if box.cache_tree_problem:
        acc.violation("%s:index-file:stale-cache-tree" % where,
                      "%s: the TREE extension left in the index does not describe its entries (%s); git trusts it" % (desc, box.cache_tree_problem), rpl)
        return None
    want_tid = gittree.build(listing).root
    # Index.commit
    try:
        got_tid = r.open_index().commit(r.object_store)
    except Exception as e:
        acc.violation("%s:Index.commit:raises:%s" % (where, raised(e)), "%s: %r" % (desc, e), rpl)
        got_tid = None
    if got_tid is not None and got_tid != want_tid:
        acc.violation("%s:Index.commit:tree-id-differs-from-index-content" % where,
                      "%s: Index.commit %s, entries hash to %s" % (desc, got_tid.decode(), want_tid.decode()), rpl)
    # status, both untracked modes; the live object and a fresh open must agree
    exp = {}
    for mode in ("normal", "all"):
        recs = wm.porcelain(head, idx, wd, mode)
        exp[mode] = (recs, wm.status_from_porcelain(recs))
    acc.outcome("state:%s" % ("clean" if not exp["all"][0] else "+".join(sorted(set(xy.replace(" ", "_") for xy, _ in exp["all"][0])))))
    # plan: which of the four observations (untracked mode x live/fresh Repo) are made
    calls = {"full": (("normal", "live"), ("normal", "fresh"), ("all", "live"), ("all", "fresh")),
             "lean": (("normal", "live"), ("all", "fresh")), "min": (("normal", "live"),)}[plan]
    obs = {}
    for mode, how in calls:
        obs[(mode, how)] = dul_status(r if how == "live" else box.root, mode)
        acc.count("status_calls")
    got = {}
    for mode in ("normal", "all"):
        o = [obs[(mode, how)] for how in ("live", "fresh") if (mode, how) in obs]
        if not o:
            continue
        if len(o) == 2 and o[0] != o[1]:
            acc.violation("status:live-repo-object-and-fresh-open-disagree", "%s (untracked_files=%s): live %r, fresh %r" % (desc, mode, o[0], o[1]), rpl)
        got[mode] = o[0]
        if o[0][0] == "raised":
            acc.violation("status:raises:%s" % o[0][1], "%s (untracked_files=%s): %s" % (desc, mode, o[0][2]), rpl)
    judged_tracked = False
    for mode in ("normal", "all"):
        if mode not in got or got[mode][0] != "ok":
            continue
        w_staged, w_unstaged, w_untracked = exp[mode][1]
        _, g_staged, g_unstaged, g_untracked = got[mode]
        if not judged_tracked:
            judged_tracked = (g_staged, g_unstaged)
            for k in ("add", "delete", "modify"):
                _cmp_paths(acc, "staged." + k, w_staged[k], g_staged.get(k, []), head, idx, wd, desc, rpl)
            extra = sorted(set(g_staged) - {"add", "delete", "modify"})
            if extra:
                acc.violation("status:staged:unknown-change-types", "%s: %r" % (desc, extra), rpl)
            _cmp_paths(acc, "unstaged", w_unstaged, g_unstaged, head, idx, wd, desc, rpl)
        elif (g_staged, g_unstaged) != judged_tracked:
            acc.violation("status:staged-or-unstaged-differ-between-two-calls-on-one-state", "%s: first %r then (%s) %r" % (desc, judged_tracked, mode, (g_staged, g_unstaged)), rpl)
        optional = wm.untracked_normal_hidden(idx, wd) if mode == "normal" else ()
        _cmp_paths(acc, "untracked(%s)" % mode, w_untracked, g_untracked, head, idx, wd, desc, rpl, optional)
    # C git on the same directory
    if use_git:
        for mode in git_modes:
            p = git(["status", "--porcelain=v1", "-z", "--no-renames", "-u" + mode], cwd=box.root, check=False, env={"GIT_OPTIONAL_LOCKS": "0"})
            acc.count("git_status_calls")
            if p.returncode != 0:
                acc.violation("%s:git-status:fails-on-this-repository" % where, "%s: git status exit %d: %s" % (desc, p.returncode, p.stderr[-300:]), rpl)
                continue
            grecs = wm.parse_porcelain_z(p.stdout)
            if grecs != exp[mode][0]:
                # git trusts the stat fields of the index dulwich wrote.  Ask git again with an index that holds the same
                # (mode, id, stage, path) entries but no stat data (git then compares contents): if that agrees with the
                # model, the model is right and the index on disk carries stat data that make a differing file look
                # unchanged - dulwich's doing, not a harness problem.
                tmp2 = os.path.join(box.root, ".git", "index.c18nostat")
                ls = git(["ls-files", "-s", "-z"], cwd=box.root, check=False)
                if os.path.exists(tmp2):
                    os.unlink(tmp2)
                git(["update-index", "-z", "--index-info"], cwd=box.root, check=False, env={"GIT_INDEX_FILE": tmp2}, input=ls.stdout)
                p2 = git(["status", "--porcelain=v1", "-z", "--no-renames", "-u" + mode], cwd=box.root, check=False, env={"GIT_INDEX_FILE": tmp2})
                if os.path.exists(tmp2):
                    os.unlink(tmp2)
                if ls.returncode == 0 and p2.returncode == 0 and wm.parse_porcelain_z(p2.stdout) == exp[mode][0]:
                    acc.violation("%s:index-file:stat-data-make-git-miss-a-difference" % where,
                                  "%s: with the index as written git status (-u%s) reports %r; with the same entries and no stat data it reports %r (= model)" % (
                                      desc, mode, sorted(grecs), sorted(exp[mode][0])), rpl)
                    continue
                raise HarnessError("reference model and C git disagree on status (-u%s) at %s:\n model %r\n git   %r\n head %r\n index %r\n wd %r" % (
                    mode, desc, sorted(exp[mode][0]), sorted(grecs), head, idx, {k: (v if v[0] != "f" else ("f", v[1][:8], v[2])) for k, v in wd.items()}))
        tmp = os.path.join(box.root, ".git", "index.c18copy")
        src = os.path.join(box.gitdir, "index")
        if os.path.exists(src):
            shutil.copyfile(src, tmp)
        p = git(["write-tree"], cwd=box.root, check=False, env={"GIT_INDEX_FILE": tmp})
        acc.count("git_write_tree_calls")
        if os.path.exists(tmp):
            os.unlink(tmp)
        if p.returncode != 0:
            acc.violation("%s:git-write-tree:fails-on-this-index" % where, "%s: %s" % (desc, p.stderr[-300:]), rpl)
        elif p.stdout.strip() != want_tid:
            raise HarnessError("independent tree builder and git write-tree disagree at %s: %r vs %r" % (desc, want_tid, p.stdout.strip()))
    return idx, clean, wd


def _cmp_paths(acc, component, want, got, head, idx, wd, desc, rpl, optional=()):
    want_s, got_s = set(want), set(got) - set(optional)
    comp = component.split(".")[0].split("(")[0]
    for p in sorted(want_s - got_s):
        acc.violation("status:%s:missing:%s" % (component, path_class(comp, head, idx, wd, p)),
                      "%s: %s must list %s; got %s" % (desc, component, _pn(p), [_pn(x) for x in got]), rpl)
    for p in sorted(got_s - want_s):
        acc.violation("status:%s:spurious:%s" % (component, path_class(comp, head, idx, wd, p)),
                      "%s: %s lists %s; expected %s" % (desc, component, _pn(p), [_pn(x) for x in want]), rpl)
    if want_s == got_s and len(set(got)) != len(got):
        acc.violation("status:%s:duplicate-paths" % component, "%s: %r" % (desc, [_pn(x) for x in got]), rpl)


def check_materialised(acc, where, box, prev, tree, desc, rpl):
    """After a checkout of `tree` (over a work tree that held `prev`): directory == tree (contents,
    targets, exec bits, nothing else), index == tree, HEAD names a commit of tree.  True iff all hold."""
    ok = True
    prev = prev or {}
    want = wm.wd_of_tree(tree, box.blobs)
    got = wm.walk(box.rootb)
    for p in sorted(set(want) | set(got)):
        w, g = want.get(p), got.get(p)
        if w == g:
            continue
        ok = False
        if g is None:
            what = "missing"
        elif w is None:
            what = "leftover-%s" % {"f": "file", "l": "symlink", "d": "empty-directory", "?": "special"}[g[0]]
        elif w[0] != g[0]:
            what = "wrong-type(%s)" % {"f": "file", "l": "symlink", "d": "empty-directory", "?": "special"}[g[0]]
        elif w[0] == "l":
            what = "wrong-target"
        elif w[1] != g[1]:
            what = "wrong-content"
        else:
            what = "wrong-exec-bit"
        q = p
        # classify by the transition at the nearest path that exists in either tree
        while q and tree_kind(prev, q) == "absent" and tree_kind(tree, q) == "absent" and b"/" in q:
            q = q.rsplit(b"/", 1)[0]
        nc = name_class(p)
        acc.violation("%s:worktree:%s->%s:%s%s" % (where, tree_kind(prev, q), tree_kind(tree, q), what, "" if nc == "plain" else ",name=" + nc),
                      "%s: %s is %s, tree says %s" % (desc, _pn(p), _short(g), _short(w)), rpl)
    idx, _, problem = box.read_index()
    if problem:
        ok = False  # reported by judge
    else:
        for p in sorted(set(idx) | set(tree)):
            if idx.get(p) == tree.get(p):
                continue
            ok = False
            what = "missing-entry" if p not in idx else "spurious-entry" if p not in tree else "wrong-id" if idx[p][1] != tree[p][1] else "wrong-mode"
            nc = name_class(p)
            acc.violation("%s:index:%s->%s:%s%s" % (where, tree_kind(prev, p), tree_kind(tree, p), what, "" if nc == "plain" else ",name=" + nc),
                          "%s: index entry %s is %r, tree says %r" % (desc, _pn(p), idx.get(p), tree.get(p)), rpl)
    return ok


def _kind1(e):
    return {"f": "file", "l": "symlink", "d": "empty-directory"}.get(e[0], e[0])


def _short(e):
    if e is None:
        return "absent"
    if e[0] == "f":
        return "file(%d bytes %r%s)" % (len(e[1]), e[1][:6], ", exec" if e[2] else "")
    if e[0] == "l":
        return "symlink(%r)" % e[1]
    return {"d": "empty directory"}.get(e[0], repr(e))


# --------------------------------------------------------------------------- real operations

CHECKOUTS = ("build_index_from_tree", "porcelain.checkout")
SWITCHES = ("porcelain.checkout", "porcelain.reset-hard")


def do_checkout(box, method, branch):
    from dulwich import porcelain

    r = box.repo()
    if method == "build_index_from_tree":
        box.set_head_branch(branch)
        r.get_worktree().reset_index()
    elif method == "porcelain.checkout":
        porcelain.checkout(r, branch.encode())
    elif method == "porcelain.reset-hard":
        cid = open(os.path.join(box.gitdir, "refs", "heads", branch), "rb").read().strip()
        porcelain.reset(r, "hard", cid)
    else:
        raise AssertionError(method)


def head_tree_ok(acc, where, box, want_cid, desc, rpl):
    cid, _ = box.head_commit()
    if cid != want_cid:
        acc.violation("%s:HEAD:does-not-name-the-checked-out-commit" % where, "%s: HEAD resolves to %r, expected %r" % (desc, cid, want_cid), rpl)
        return False
    return True


def stage_everything(acc, where, box, tid, desc, rpl):
    """porcelain.add('.') then Index.commit must reproduce tid."""
    from dulwich import porcelain

    r = box.repo()
    try:
        porcelain.add(r, paths=["."])
    except Exception as e:
        acc.violation("%s:porcelain.add(.):raises:%s" % (where, raised(e)), "%s: %r" % (desc, e), rpl)
        return False
    try:
        got = r.open_index().commit(r.object_store)
    except Exception as e:
        acc.violation("%s:Index.commit:raises:%s" % (where, raised(e)), "%s: %r" % (desc, e), rpl)
        return False
    if got != tid:
        acc.violation("%s:add(.)+Index.commit:tree-id-not-reproduced" % where, "%s: got %s, tree is %s" % (desc, got.decode(), tid.decode()), rpl)
        return False
    return True


# --------------------------------------------------------------------------- (1) round trip


def case_roundtrip(acc, spec, method, use_git):
    spec = tuple((bytes(n), k) for n, k in spec)
    box = Box()
    desc = "%s of %s" % (method, spec_str(spec))
    rpl = rp(case_roundtrip, spec, method, True)
    where = "checkout:" + method
    acc.count("roundtrip_cases")
    try:
        tree, tid, cid = box.add_tree("A", spec)
        try:
            do_checkout(box, method, "A")
        except Exception as e:
            acc.violation("%s:raises:%s" % (where, raised(e)), "%s: %r" % (desc, e), rpl)
            acc.outcome("roundtrip:checkout-raised")
            return
        ok = head_tree_ok(acc, where, box, cid, desc, rpl)
        ok = check_materialised(acc, where, box, None, tree, desc, rpl) and ok
        judge(acc, box, tree, where, desc + " (before staging)", rpl, use_git=False, plan="lean")
        if ok:
            ok = stage_everything(acc, where, box, tid, desc, rpl)
            judge(acc, box, tree, where + "+add(.)", desc + " (after add .)", rpl, use_git=use_git, git_modes=("normal",), plan="min")
        acc.outcome("roundtrip:%s" % ("ok" if ok else "failed"))
    finally:
        box.close()


# --------------------------------------------------------------------------- (2) switch


def case_switch(acc, spec_a, spec_b, method, use_git):
    spec_a = tuple((bytes(n), k) for n, k in spec_a)
    spec_b = tuple((bytes(n), k) for n, k in spec_b)
    box = Box()
    desc = "%s from %s to %s" % (method, spec_str(spec_a), spec_str(spec_b))
    rpl = rp(case_switch, spec_a, spec_b, method, True)
    where = "switch:" + method
    acc.count("switch_cases")
    try:
        tree_a, tid_a, cid_a = box.add_tree("A", spec_a)
        tree_b, tid_b, cid_b = box.add_tree("B", spec_b)
        try:
            do_checkout(box, "porcelain.checkout", "A")
        except Exception as e:
            acc.violation("checkout:porcelain.checkout:raises:%s" % raised(e), "%s (initial checkout): %r" % (desc, e), rpl)
            return
        sub = Acc()
        if not check_materialised(sub, "checkout:porcelain.checkout", box, None, tree_a, desc + " (initial checkout)", rpl):
            acc.merge(sub)  # same keys as phase (1)
            acc.outcome("switch:initial-checkout-wrong")
            return
        try:
            do_checkout(box, method, "B")
        except Exception as e:
            acc.violation("%s:raises:%s" % (where, raised(e)), "%s: %r" % (desc, e), rpl)
            acc.outcome("switch:raised:%s" % type(e).__name__)
            return
        ok = True
        if method == "porcelain.checkout":
            ok = head_tree_ok(acc, where, box, cid_b, desc, rpl)
            _, sym = box.head_commit()
            if sym != b"refs/heads/B":
                acc.violation("%s:HEAD:not-on-the-target-branch" % where, "%s: HEAD is %r" % (desc, sym), rpl)
        else:
            ok = head_tree_ok(acc, where, box, cid_b, desc, rpl)
        ok = check_materialised(acc, where, box, tree_a, tree_b, desc, rpl) and ok
        judge(acc, box, tree_b, where, desc + " (before staging)", rpl, use_git=False, plan="lean")
        if ok:
            ok = stage_everything(acc, where, box, tid_b, desc, rpl)
            judge(acc, box, tree_b, where + "+add(.)", desc + " (after add .)", rpl, use_git=use_git, git_modes=("normal",), plan="min")
        trans = sorted(set("%s->%s" % (tree_kind(tree_a, p), tree_kind(tree_b, p)) for p in _all_nodes(tree_a, tree_b)))
        for t in trans:
            acc.outcome("transition:" + t)
        acc.outcome("switch:%s" % ("ok" if ok else "failed"))
    finally:
        box.close()


def _all_nodes(*trees):
    out = set()
    for t in trees:
        for p in t:
            out.add(p)
            out.update(wm.prefixes(p))
    return out


# --------------------------------------------------------------------------- (3) edit sequences

STARTS = {
    # id: (tree spec, edit paths, prelude) -- the prelude is executed (and judged) before the search starts
    "S1": (((b"a", "P"),), [b"a", b"u"], ()),
    "S2": (((b"a", "PX"), (b"b", "L")), [b"a", b"b"], ()),
    "S3": (((b"d/x", "X"), (b"d/y", "P")), [b"d/x", b"d"], ()),
    "S4": (((b"\xc3\xa9", "E"), (b"\xff\xfe", "B")), [b"\xc3\xa9", b"\xff\xfe"], ()),
    "S5": (((b'"q"', "P"), (b"a b", "X")), [b'"q"', b"a b"], ()),
    "S6": (((b"a", "X"), (b"d/e/z", "P")), [b"d/e/z", b"d/e"], ()),
    "S7": (((b"a", "X"),), [b"a", b"n/u"], ()),
    "S8": (((b"a", "P"), (b"b", "X")), [b"a", b"b"], ()),
    # a tracked directory beside a tracked name that sorts between "d" and "d/"; untracked file inside it
    "S9": (((b"d-", "P"), (b"d/x", "X")), [b"d/u", b"d-"], ()),
    # index records another blob than HEAD while the file has HEAD's content again (edit, stage, edit back)
    "S10": (((b"a", "P"), (b"b", "X")), [b"a"], (("same", b"a"), ("stage", b"a"), ("same", b"a"))),
    # start states whose index file was last written by C git (cache-tree extension present)
    "S11": (((b"a", "P"), (b"b", "X")), [b"a"], (("git_reset",),)),
    "S12": (((b"d/x", "X"), (b"d/y", "P")), [b"d/y"], (("git_write_tree",),)),
    # staged mode-only change (a: +x) and staged type-only change (b: symlink whose target is the old content)
    "S13": (((b"a", "P"), (b"b", "X")), [b"a"], (("chmod", b"a"), ("stage", b"a"), ("link", b"b", b"x"), ("stage", b"b"))),
}
RESTORE = ("co_paths", "reset_file", "restore")  # dulwich operations that are meant to rewrite one work-tree path
GIT_OPS = ("git_reset", "git_write_tree")  # git_reset = read-tree HEAD + update-index --refresh
TERMINAL = ("reset_hard", "switch_force", "reset_mixed", "reset_mixed_alt", "switch_drop")  # judged, never extended: the model does not predict their result


def drop_path(sid):
    """The tracked file that branch C of a start lacks (first edit path that is a file of the start tree)."""
    spec, paths, _ = STARTS[sid]
    names = [n for n, _ in spec]
    return ([p for p in paths if p in names] + sorted(names))[0]


def alt_tree(sid):
    """Branch B of a start: the start tree with the first non-empty tracked regular file changed exactly as the
    edit `same` changes it — so `same(p)` followed by a forced switch finds the file already equal to the target."""
    spec, paths, _ = STARTS[sid]
    tree, blobs = tree_of(spec)
    order = [p for p in paths if p in tree] + sorted(tree)
    for p in order:
        mode, h = tree[p]
        if mode != LNK and blobs[h]:
            data = bytes([blobs[h][0] ^ 1]) + blobs[h][1:]
            tree = dict(tree)
            blobs = dict(blobs)
            nh = wm.blob_id(data)
            tree[p] = (mode, nh)
            blobs[nh] = data
            return tree, blobs
    raise AssertionError(sid)


class MState:
    __slots__ = ("head", "index", "wd")

    def __init__(self, head, index, wd):
        self.head, self.index, self.wd = head, index, wd


def link_targets(p, paths):
    t = [b"nowhere"]
    if b"/" not in p:
        other = [q for q in paths if q != p and not q.startswith(p + b"/")]  # p -> p/... would be a loop
        if other:
            t.append(other[0])
    return t


def menu(st, paths, alt=None, drop=None):
    ops = []
    for p in paths:
        e = wm.wd_lookup(st.wd, p)
        parents_ok = all(wm.wd_lookup(st.wd, q) in (None, "dir") for q in wm.prefixes(p))
        isf = isinstance(e, tuple) and e[0] == "f"
        isl = isinstance(e, tuple) and e[0] == "l"
        if isf:
            if e[1]:
                ops.append(("same", p))
            ops.append(("grow", p))
            ops.append(("chmod", p))
        if e is not None:
            ops.append(("del", p))
        if isl:
            ops.append(("flatten", p))  # regular file holding the link text (what a symlink-unaware copy leaves)
        if parents_ok:
            if not isf:
                ops.append(("file", p))
            if not isl:
                for t in link_targets(p, paths):
                    ops.append(("link", p, t))
                if isf and 0 < len(e[1]) <= 8 and b"/" not in e[1]:
                    ops.append(("link", p, e[1]))  # same blob, other type
            if e != "dir":
                ops.append(("dir", p))
        pre = p + b"/"
        beyond_symlink = any(isinstance(st.wd.get(q), tuple) and st.wd[q][0] == "l" for q in wm.prefixes(p))  # git add: "beyond a symbolic link"
        # porcelain.add(<symlink to a directory>) deliberately adds the files *through* the symlink (pinned by
        # tests.porcelain.AddTests.test_add_symlink_to_directory_inside_repo); git adds the symlink.  Not issued.
        link_to_dir = isl and link_class(st.wd, st.index, p, e[1]) == "to-dir"
        if (e is not None or p in st.index or any(q.startswith(pre) for q in st.index)) and not beyond_symlink and not link_to_dir:
            ops.append(("stage", p))
        if p in st.index or p in st.head or any(q.startswith(pre) for q in st.index) or any(q.startswith(pre) for q in st.head):
            ops.append(("unstage", p))
        if p in st.index:
            ops.append(("rmc", p))
        # restoring one path from HEAD / from the index; only where nothing but a file or symlink can be in the way
        if e != "dir" and parents_ok:
            parents_exist = all(wm.wd_lookup(st.wd, q) == "dir" for q in wm.prefixes(p))
            clash = any(q.startswith(pre) for q in st.index) or any(q in st.index for q in wm.prefixes(p))
            cur = wm.entry_of(e) if isinstance(e, tuple) else None
            if p in st.head and not clash and cur != st.head[p]:  # (only where there is something to restore)
                ops.append(("co_paths", p))
            if p in st.head and parents_exist and cur != st.head[p]:
                ops.append(("reset_file", p))
            if p in st.index and parents_exist and cur != st.index[p]:
                ops.append(("restore", p))
    ops.append(("stage_all",))
    if st.index != st.head:
        ops.append(("reset_mixed",))
    if alt is not None:
        # discard-everything operations, from states without file/directory clashes at any tracked path
        involved = set(st.head) | set(st.index) | set(alt)
        calm = all(
            wm.wd_lookup(st.wd, p) != "dir" and all(wm.wd_lookup(st.wd, q) in (None, "dir") for q in wm.prefixes(p)) for p in involved
        )
        if calm:
            ops.append(("reset_hard",))
            ops.append(("switch_force",))
            if st.index != st.head:
                ops.append(("reset_mixed_alt",))
    if drop is not None and wm.wd_lookup(st.wd, drop) is None and all(wm.wd_lookup(st.wd, q) in (None, "dir") for q in wm.prefixes(drop)) and st.index == st.head and all(
        q == drop or wm.entry_of(wm.wd_lookup(st.wd, q) if isinstance(wm.wd_lookup(st.wd, q), tuple) else None) == v for q, v in st.head.items()
    ):
        # the file was deleted by hand, nothing else differs: a plain (unforced) switch to the branch that lacks it
        ops.append(("switch_drop",))
    return ops


def _m_remove(wd, p):
    wd.pop(p, None)
    pre = p + b"/"
    for q in [q for q in wd if q.startswith(pre)]:
        del wd[q]


def _m_fix_empty_parent(wd, p):
    if b"/" not in p:
        return
    parent = p.rsplit(b"/", 1)[0]
    pre = parent + b"/"
    if parent not in wd and not any(q.startswith(pre) for q in wd):
        wd[parent] = ("d",)


def _m_parents(wd, p):
    for q in wm.prefixes(p):
        if wd.get(q) == ("d",):
            del wd[q]


KNOWN = {}  # blob id -> bytes of everything that ever was in a modelled work tree (what `restore` may have to write)


def _learn(wd):
    for e in wd.values():
        if e[0] in ("f", "l"):
            KNOWN.setdefault(wm.blob_id(e[1]), e[1])


def _m_write(wd, p, ent):
    """The work-tree entry a checkout of tree/index entry `ent` = (mode, id) must leave at p."""
    _m_remove(wd, p)
    _m_parents(wd, p)
    data = KNOWN[ent[1]]
    wd[p] = ("l", data) if ent[0] == LNK else ("f", data, ent[0] == EXE)


def m_apply(st, op):
    """Pure model of one operation -> new MState."""
    k = op[0]
    _learn(st.wd)
    if k in RESTORE:
        p = op[1]
        wd = dict(st.wd)
        _m_write(wd, p, st.index[p] if k == "restore" else st.head[p])
        index = wm.m_stage(st.index, wd, p) if k == "co_paths" else st.index
        return MState(st.head, index, wd)
    if k in GIT_OPS or k in TERMINAL:
        return MState(st.head, st.index, st.wd)  # (the result of a terminal operation is observed, not predicted)
    if k == "stage_all":
        return MState(st.head, wm.m_stage_all(st.index, st.wd), st.wd)
    p = op[1]
    if k == "stage":
        return MState(st.head, wm.m_stage(st.index, st.wd, p), st.wd)
    if k == "unstage":
        return MState(st.head, wm.m_unstage(st.index, st.head, p), st.wd)
    if k == "rmc":
        return MState(st.head, wm.m_rm_cached(st.index, p), st.wd)
    wd = dict(st.wd)
    if k == "same":
        _, data, x = wd[p]
        wd[p] = ("f", bytes([data[0] ^ 1]) + data[1:], x)
    elif k == "grow":
        _, data, x = wd[p]
        wd[p] = ("f", data[:-1] if data.endswith(b"!") else data + b"!", x)
    elif k == "chmod":
        _, data, x = wd[p]
        wd[p] = ("f", data, not x)
    elif k == "del":
        _m_remove(wd, p)
        _m_fix_empty_parent(wd, p)
    elif k == "flatten":
        wd[p] = ("f", wd[p][1], False)
    elif k == "file":
        _m_remove(wd, p)
        _m_parents(wd, p)
        wd[p] = ("f", b"x", False)
    elif k == "link":
        _m_remove(wd, p)
        _m_parents(wd, p)
        wd[p] = ("l", op[2])
    elif k == "dir":
        _m_remove(wd, p)
        _m_parents(wd, p + b"/x")
        wd[p + b"/x"] = ("f", b"x", False)
    else:
        raise AssertionError(op)
    return MState(st.head, st.index, wd)


def _rm_any(full):
    if os.path.islink(full) or os.path.isfile(full):
        os.unlink(full)
    elif os.path.isdir(full):
        shutil.rmtree(full)


def real_apply(box, op):
    """Working-directory edits are done by the harness (then stamped with the virtual clock);
    index operations by dulwich.  Exceptions from dulwich propagate."""
    from dulwich import porcelain

    k = op[0]
    r = box.repo()
    if k == "stage_all":
        porcelain.add(r, paths=["."])
        return
    if k in GIT_OPS:
        # C git rewrites the index file (same entries) and leaves a cache-tree extension in it
        if k == "git_reset":
            git(["read-tree", "HEAD"], cwd=box.root)  # index rebuilt from HEAD (cache-tree primed), stat data zeroed ...
            git(["update-index", "-q", "--refresh"], cwd=box.root, check=False)  # ... and refreshed from the files (exit 1: some differ)
        else:
            git(["write-tree"], cwd=box.root)
        if not box.has_tree_extension():
            raise HarnessError("%s did not leave a TREE extension in the index" % k)
        return
    if k == "reset_hard":
        porcelain.reset(r, "hard", "HEAD")
        return
    if k == "switch_force":
        porcelain.checkout(r, b"B", force=True)
        return
    if k == "switch_drop":
        porcelain.checkout(r, b"C")
        return
    if k == "reset_mixed":
        porcelain.reset(r, "mixed", "HEAD")
        return
    if k == "reset_mixed_alt":
        porcelain.reset(r, "mixed", open(os.path.join(box.gitdir, "refs", "heads", "B"), "rb").read().strip())
        return
    p = op[1]
    full = box.full(p)
    if k == "stage":
        porcelain.add(r, paths=[os.fsdecode(p)])
    elif k == "unstage":
        r.get_worktree().unstage([os.fsdecode(p)])
    elif k == "rmc":
        porcelain.remove(r, paths=[os.fsdecode(p)], cached=True)
    elif k == "co_paths":
        porcelain.checkout(r, paths=[p])
    elif k == "reset_file":
        porcelain.reset_file(r, os.fsdecode(p), b"HEAD")
    elif k == "restore":
        porcelain.restore(r, [p])
    elif k == "flatten":
        text = os.readlink(full)
        os.unlink(full)
        with open(full, "wb") as f:
            f.write(text)
        os.chmod(full, 0o644)
        box.touch(p)
    elif k in ("same", "grow"):
        with open(full, "rb") as f:
            data = f.read()
        new = (bytes([data[0] ^ 1]) + data[1:]) if k == "same" else (data[:-1] if data.endswith(b"!") else data + b"!")
        with open(full, "wb") as f:
            f.write(new)
        box.touch(p)
    elif k == "chmod":
        m = os.lstat(full).st_mode
        os.chmod(full, 0o644 if m & 0o100 else 0o755)
        box.touch(p)
    elif k == "del":
        _rm_any(full)
    elif k == "file":
        _rm_any(full)
        os.makedirs(os.path.dirname(full), exist_ok=True)
        with open(full, "wb") as f:
            f.write(b"x")
        os.chmod(full, 0o644)
        box.touch(p)
    elif k == "link":
        _rm_any(full)
        os.makedirs(os.path.dirname(full), exist_ok=True)
        os.symlink(op[2], full)
        box.touch(p)
    elif k == "dir":
        if not (os.path.isdir(full) and not os.path.islink(full)):
            _rm_any(full)
        os.makedirs(full, exist_ok=True)
        with open(os.path.join(full, b"x"), "wb") as f:
            f.write(b"x")
        os.chmod(os.path.join(full, b"x"), 0o644)
        box.touch(p + b"/x")
    else:
        raise AssertionError(op)


def op_str(op):
    return "%s(%s)" % (op[0], ",".join(_pn(a) for a in op[1:]))


OP_API = {"stage": "porcelain.add(path)", "stage_all": "porcelain.add(.)", "unstage": "WorkTree.unstage", "rmc": "porcelain.remove(cached)",
          "reset_hard": "porcelain.reset(hard)", "switch_force": "porcelain.checkout(force)", "reset_mixed": "porcelain.reset(mixed)", "switch_drop": "porcelain.checkout(branch)",
          "reset_mixed_alt": "porcelain.reset(mixed,other)", "co_paths": "porcelain.checkout(paths)", "reset_file": "porcelain.reset_file",
          "restore": "porcelain.restore(worktree)"}


def state_key(st, clean, tree_ext=False):
    return (
        bool(tree_ext),
        tuple(sorted((p, m, h, bool(clean.get(p))) for p, (m, h) in st.index.items())),
        tuple(sorted((p, e[0], wm.blob_id(e[1]) if e[0] == "f" else (e[1] if e[0] == "l" else b""), e[2] if e[0] == "f" else False) for p, e in st.wd.items())),
    )


def index_diff_class(want, got):
    for p in sorted(set(want) | set(got)):
        w, g = want.get(p), got.get(p)
        if w == g:
            continue
        if g is None:
            return "entry-missing", p
        if w is None:
            return "entry-not-removed", p
        return "entry-wrong(%s,expected-%s)" % (diff_class(w, g), ent_kind(w)), p
    return None, None


def run_edits(acc, sid, ops, use_git, judge_last=True, expect_key=None):
    """Fresh checkout of STARTS[sid], then ops.  Every step is followed by a status call; the last step
    is judged.  Returns (state key, MState) of the final state or None when model and implementation
    have diverged (a violation has been recorded)."""
    spec, paths, _prelude = STARTS[sid]
    box = Box()
    ops = [tuple(bytes(a) if isinstance(a, (bytes, bytearray)) else a for a in op) for op in ops]
    rpl = rp(case_edits, sid, ops, True)
    try:
        tree, tid, cid = box.add_tree("A", spec)
        alt, _, alt_cid = box.add_tree("B", alt_tree(sid))
        dropped = {q: v for q, v in tree.items() if q != drop_path(sid)}
        _, _, drop_cid = box.add_tree("C", (dropped, {}))
        try:
            do_checkout(box, "porcelain.checkout", "A")
        except Exception as e:
            if not ops:
                acc.violation("checkout:porcelain.checkout:raises:%s" % raised(e), "start %s: %r" % (sid, e), rpl)
            return None
        st = MState(tree, dict(tree), wm.wd_of_tree(tree, box.blobs))
        if not ops:
            sub = Acc()
            if not check_materialised(sub, "checkout:porcelain.checkout", box, None, tree, "start " + sid, rpl):
                acc.merge(sub)
                return None
            r = judge(acc, box, tree, "checkout:porcelain.checkout", "start %s %s" % (sid, spec_str(spec)), rpl, use_git=use_git)
            if r is None:
                return None
            return state_key(st, r[1], box.tree_ext), st
        for i, op in enumerate(ops):
            last = i == len(ops) - 1
            desc = "%s %s; %s" % (sid, spec_str(spec), " ; ".join(op_str(o) for o in ops[: i + 1]))
            k = op[0]
            is_index_op = k in OP_API
            new = m_apply(st, op)
            try:
                real_apply(box, op)
            except Exception as e:
                if not is_index_op:
                    raise HarnessError("harness edit %s failed: %r" % (desc, e))
                if not last:
                    raise HarnessError("divergence while replaying a prefix: %s raised %r" % (desc, e))
                acc.count("transitions")
                acc.outcome("op:%s:raised:%s" % (k, type(e).__name__))
                refused = ""
                if type(e).__name__ in ("Error", "CheckoutError") and len(op) > 1:
                    refused = ":path-is-%s" % wd_kind(st.wd, st.index, op[1])  # a refusal: the reason is in the state, not in the site
                acc.violation("op:%s:raises:%s%s" % (OP_API[k], raised(e), refused), "%s: %r" % (desc, e), rpl)
                return None
            wd = wm.walk(box.rootb)
            if k in TERMINAL:
                if not last:
                    raise HarnessError("terminal operation inside a prefix: %s" % desc)
                acc.count("transitions")
                acc.outcome("op:%s" % k)
                to_alt = k in ("switch_force", "reset_mixed_alt")
                if k == "switch_drop":
                    judge_discard(acc, box, st, dropped, k, drop_cid, wd, desc, rpl, use_git)
                    return None
                judge_discard(acc, box, st, alt if to_alt else st.head, k, alt_cid if to_alt else cid, wd, desc, rpl, use_git)
                return None
            if k in RESTORE:
                if wd != new.wd:
                    if not last:
                        raise HarnessError("divergence while replaying a prefix: %s left another work tree than the model" % desc)
                    acc.count("transitions")
                    q = sorted(x for x in set(wd) | set(new.wd) if wd.get(x) != new.wd.get(x))[0]
                    g, w = wd.get(q), new.wd.get(q)
                    what = "missing" if g is None else "unexpected-entry" if w is None else "wrong-type(%s-instead-of-%s)" % (_kind1(g), _kind1(w)) if g[0] != w[0] else "wrong-content" if g[1] != w[1] else "wrong-exec-bit"
                    acc.violation("op:%s:worktree-wrong:%s" % (OP_API[k], what), "%s: %s is %s, expected %s" % (desc, _pn(q), _short(g), _short(w)), rpl)
                    return None
            elif is_index_op:
                if wd != st.wd:
                    if not last:
                        raise HarnessError("divergence while replaying a prefix: %s changed the work tree" % desc)
                    acc.count("transitions")
                    acc.violation("op:%s:modified-the-working-directory" % OP_API[k], "%s: before %r after %r" % (desc, sorted(st.wd), sorted(wd)), rpl)
                    return None
            elif wd != new.wd:
                raise HarnessError("harness edit and its model differ at %s: real %r model %r" % (desc, sorted(wd.items())[:6], sorted(new.wd.items())[:6]))
            if not last:
                # "status after every step": called, judged when this prefix was the last step of its own transition
                dul_status(box.repo(), "normal")
                idx, _, problem = box.read_index()
                if problem or idx != new.index:
                    raise HarnessError("divergence while replaying a prefix at %s: index %r model %r" % (desc, idx, new.index))
                st = new
                continue
            acc.count("transitions")
            acc.outcome("op:%s" % k)
            idx, clean, problem = box.read_index()
            where = "op:%s" % (OP_API[k] if is_index_op else "edit")
            if not problem and idx != new.index and gittree.consistent([(x, m, h) for x, (m, h) in sorted(idx.items())]):
                cls, p = index_diff_class(new.index, idx)
                if not is_index_op:
                    raise HarnessError("a harness edit changed the index?! %s" % desc)
                pk = "path-is-%s" % wd_kind(st.wd, st.index, op[1] if len(op) > 1 else p)
                nc = name_class(p)
                acc.violation("%s:index-wrong:%s:%s%s" % (where, cls, pk, "" if nc == "plain" else ",name=" + nc),
                              "%s: index entry %s is %r, expected %r (index now %s)" % (desc, _pn(p), idx.get(p), new.index.get(p), [_pn(x) for x in sorted(idx)]), rpl)
                # model and implementation have diverged: one root cause, one key; successors are not explored
                return None
            if judge_last:
                r = judge(acc, box, st.head, where, desc, rpl, use_git=use_git)
                if r is None:
                    return None
            st = new
            key = state_key(st, clean, box.tree_ext)
            if expect_key is not None and key != expect_key:
                raise HarnessError("replay of %s reached a different state" % desc)
            return key, st
    finally:
        box.close()


def judge_discard(acc, box, st, target, k, want_cid, wd, desc, rpl, use_git):
    """After reset --hard HEAD / a forced switch to B from a dirty state: HEAD names the target commit, the index
    entry and the file of every path concerned equal the target tree (reset: every path of HEAD or the index;
    forced switch: the paths that differ between the two trees — dulwich documents nothing more for the others),
    and status is exact for whatever the state now is."""
    where = "op:%s" % OP_API[k]
    ok = head_tree_ok(acc, where, box, want_cid, desc, rpl)
    idx, _, problem = box.read_index()
    if problem:
        judge(acc, box, target, where, desc, rpl, use_git=use_git, git_modes=("normal",), plan="lean")
        return
    if k in ("reset_mixed", "reset_mixed_alt"):
        # index == target tree exactly, work tree untouched
        if wd != st.wd:
            ok = False
            acc.violation("%s:modified-the-working-directory" % where, "%s: before %r after %r" % (desc, sorted(st.wd), sorted(wd)), rpl)
        for p in sorted(set(idx) | set(target)):
            if idx.get(p) != target.get(p):
                ok = False
                cls = "entry-missing" if p not in idx else "entry-not-removed" if p not in target else "entry-wrong(%s,expected-%s)" % (diff_class(target[p], idx[p]), ent_kind(target[p]))
                acc.violation("%s:index-wrong:%s:was-%s" % (where, cls, "unchanged-in-index" if st.index.get(p) == st.head.get(p) else "staged"),
                              "%s: index entry %s is %r, target tree has %r" % (desc, _pn(p), idx.get(p), target.get(p)), rpl)
                break
        acc.outcome("discard:%s:%s" % (k, "ok" if ok else "failed"))
        judge(acc, box, target, where, desc, rpl, use_git=use_git, git_modes=("normal",), plan="lean")
        return
    if k == "reset_hard":
        concerned = sorted(set(target) | set(st.index))
    else:
        concerned = sorted(p for p in set(st.head) | set(target) if st.head.get(p) != target.get(p))
    want_wd = wm.wd_of_tree(target, box.blobs)
    for p in concerned:
        if idx.get(p) != target.get(p):
            ok = False
            cls = "entry-missing" if p not in idx else "entry-not-removed" if p not in target else "entry-wrong(%s,expected-%s)" % (diff_class(target[p], idx[p]), ent_kind(target[p]))
            acc.violation("%s:index-wrong:%s:was-%s" % (where, cls, "unchanged-in-index" if st.index.get(p) == st.head.get(p) else "staged"),
                          "%s: index entry %s is %r, target tree has %r" % (desc, _pn(p), idx.get(p), target.get(p)), rpl)
            break
    for p in concerned:
        e = wm.wd_lookup(wd, p)
        w = want_wd.get(p)
        if (e if isinstance(e, tuple) else None) != w or (w is None and e is not None):
            ok = False
            what = "missing" if e is None else "not-removed" if w is None else "wrong-type" if not isinstance(e, tuple) or e[0] != w[0] else "wrong-content" if e[1] != w[1] else "wrong-exec-bit"
            acc.violation("%s:worktree-wrong:%s" % (where, what), "%s: %s is %s, target tree says %s" % (desc, _pn(p), _short(e) if isinstance(e, tuple) or e is None else e, _short(w)), rpl)
            break
    acc.outcome("discard:%s:%s" % (k, "ok" if ok else "failed"))
    judge(acc, box, target, where, desc, rpl, use_git=use_git, git_modes=("normal",), plan="lean")


def case_edits(acc, sid, ops, use_git):
    run_edits(acc, sid, [tuple(o) for o in ops], use_git)


def model_state(sid, ops):
    spec = STARTS[sid][0]
    tree, blobs = tree_of(spec)
    st = MState(tree, dict(tree), wm.wd_of_tree(tree, blobs))
    for op in ops:
        st = m_apply(st, op)
    return st


def work_level(task):
    nodes, use_git = task
    acc = Acc()
    out = []
    for sid, ops in nodes:
        st = model_state(sid, ops)
        for op in menu(st, STARTS[sid][1], alt_tree(sid)[0], drop_path(sid)):
            r = run_edits(acc, sid, list(ops) + [op], use_git)
            if r is None:
                continue
            out.append((sid, r[0], list(ops) + [op]))
    return acc, out


def bfs(ctx, depth, use_git):
    seen = set()
    level = []
    acc0 = Acc()
    for sid in sorted(STARTS):
        r = run_edits(acc0, sid, list(STARTS[sid][2]), use_git)
        if r is None:
            continue
        seen.add((sid, r[0]))
        level.append((sid, list(STARTS[sid][2])))
    ctx.acc.merge(acc0)
    states = len(level)
    per_level = [states]
    d = 0
    while level and d < depth:
        parts = split(ctx.order(level), ctx.jobs * 4)
        found = {}
        for acc, out in pmap(work_level, [(part, use_git) for part in parts], jobs=ctx.jobs, ordered=True):
            ctx.acc.merge(acc)
            for sid, key, ops in out:
                k = (sid, key)
                if k in seen:
                    continue
                # representative = smallest op list (independent of worker scheduling)
                if k not in found or repr(ops) < repr(found[k]):
                    found[k] = ops
        seen.update(found)
        level = sorted(((sid, ops) for (sid, _), ops in found.items()), key=repr)
        states += len(level)
        per_level.append(len(level))
        d += 1
        print("C18: edit BFS level %d done after %.0f s: %d new states" % (d, ctx.elapsed(), len(level)), file=sys.stderr, flush=True)
    return {"depth_completed": d, "states": states, "states_per_level": per_level, "closed": not level}


# --------------------------------------------------------------------------- enumeration of (1) and (2)


def trees_phase1(max_entries, kinds3=None):
    out = [()]
    for n in range(1, max_entries + 1):
        for names in itertools.combinations(NAMES, n):
            ks = KINDS1 if (n < 3 or kinds3 is None) else kinds3
            for kinds in itertools.product(ks, repeat=n):
                out.append(tuple(zip(names, kinds)))
    return out


# names around the position of "/" (0x2f) in the sort order: "d x" < "d-" < "d.x" < "d/..." < "d0"; same one level down
COLLIDE = [b"d x", b"d-", b"d.x", b"d/x", b"d0", b"d/e-", b"d/e.z", b"d/e/z"]


def trees_collide():
    """Every tree of <= 3 of the sort-adjacent names (1-byte files) that contains a directory."""
    out = []
    for n in (2, 3):
        for names in itertools.combinations(COLLIDE, n):
            if any(b"/" in nm for nm in names):
                out.append(tuple((nm, "X") for nm in names))
    return out


SLOT_A = [(), ((b"a", "X"),), ((b"a", "P"),), ((b"a", "Q"),), ((b"a", "PX"),), ((b"a", "L"),), ((b"a", "Ld"),), ((b"a", "E"),), ((b"a", "B"),)]
SLOT_D = [
    (),
    ((b"d", "X"),),
    ((b"d", "L"),),
    ((b"d/x", "X"),),
    ((b"d/x", "Y"),),
    ((b"d/x", "X"), (b"d/y", "P")),
    ((b"d/e/z", "X"),),
    ((b"d/e", "X"),),
    ((b"d/e", "L"), (b"d/x", "PX")),
]
SLOT_B = [(), ((b"b", "La"),)]
SPECIAL = [b"b", b"a b", b"\xc3\xa9", b"\xff\xfe", b'"q"']
SLOT_N = ["-", "X", "P", "Q", "PX", "L", "E"]


def universes(thorough):
    """Lists of trees; all ordered pairs inside each list are explored."""
    us = []
    if thorough:
        sa, sd = SLOT_A, SLOT_D + [((b"d", "PX"),)]  # + executable `d`: exec <-> directory
    else:
        sa = [s for s in SLOT_A if not s or s[0][1] in ("X", "P", "Q", "PX", "L")]
        sd = [s for s in SLOT_D if s != ((b"d/x", "Y"),) and len(s) < 2] + [((b"d/x", "X"), (b"d/y", "P"))]
    us.append(("a x d", [tuple(sorted(a + d)) for a in sa for d in sd]))
    for n in SPECIAL:
        us.append(("name %s" % _pn(n), [() if k == "-" else ((n, k),) for k in SLOT_N]))
    if thorough:
        us.append(("a x d x b", [tuple(sorted(a + d + b)) for a in SLOT_A for d in SLOT_D for b in SLOT_B]))
    return us


# --------------------------------------------------------------------------- (4) owned timestamps

COMMIT_TIME = 1_000_000_000  # what refmodels/worktree.commit_body writes; WorkTree.unstage copies it into the entry as (sec, 0)
STAMP_SEQS = ("unstage", "whole-second", "checkout")
STAMP_EDITS = ("same", "grow")
STAMP_CODES = ("ns5", "ns-max", "next", "prev", "ns0")


def stamp_cases():
    out = []
    for trust in (False, True):
        for seq in STAMP_SEQS:
            for edit in STAMP_EDITS:
                for code in STAMP_CODES:
                    if code == "ns0" and seq != "checkout":
                        continue  # same second, ns 0, same size as an entry stamped (sec, 0): stat-identical by construction (the racy-git ambiguity)
                    out.append((seq, edit, code, trust))
    return out


def case_stamps(acc, seq, edit, code, trust_ctime):
    """A tracked file is edited (same size / other size) and its mtime is *set* relative to the second R that an
    index entry records for it; status must report exactly the paths whose bytes differ (content oracle, no git:
    git without USE_NSEC compares whole seconds and legitimately misses the same-second cases).
      unstage       edit, add, unstage: the entry is (commit time, 0) + HEAD's size; R = commit time
      whole-second  the file is stamped (R, 0) and added, so the entry's nanoseconds are 0; then edited again
      checkout      the entry as checkout wrote it (R = its seconds); the only sequence where (R, 0) is used
    core.trustctime=false takes ctime (which cannot be set) out of the comparison."""
    from dulwich import porcelain

    box = Box(config_extra=b"" if trust_ctime else b"\ttrustctime = false\n")
    desc = "stamps %s/%s/%s trustctime=%s" % (seq, edit, code, trust_ctime)
    rpl = rp(case_stamps, seq, edit, code, trust_ctime)
    acc.count("stamp_cases")
    try:
        tree, tid, cid = box.add_tree("A", ((b"a", "P"), (b"b", "X")))
        do_checkout(box, "porcelain.checkout", "A")
        r = box.repo()
        full = box.full(b"a")

        def rewrite(ns):
            with open(full, "rb") as f:
                data = f.read()
            new = (bytes([data[0] ^ 1]) + data[1:]) if edit == "same" else (data[:-1] if data.endswith(b"!") else data + b"!")
            with open(full, "wb") as f:
                f.write(new)
            os.utime(full, ns=(ns, ns))

        def entry_mtime():
            with open(os.path.join(box.gitdir, "index"), "rb") as f:
                e = [x for x in indexfile.parse(f.read()).entries if x.name == b"a"][0]
            return e.mtime

        def stamp(rsec, rns):
            if code == "ns5":
                return rsec * 10**9 + 5
            if code == "ns-max":
                return rsec * 10**9 + 999_999_999
            if code == "next":
                return (rsec + 1) * 10**9
            if code == "prev":
                return (rsec - 1) * 10**9 + 999_999_999
            return rsec * 10**9  # ns0

        if seq == "unstage":
            rewrite(stamp(COMMIT_TIME, 0))
            porcelain.add(r, paths=["a"])
            r.get_worktree().unstage(["a"])
            if entry_mtime() != (COMMIT_TIME, 0):
                acc.outcome("stamps:unstage-entry-not-(commit-time,0)")  # vacuity: the sequence no longer builds what it is meant to
        elif seq == "whole-second":
            rewrite((COMMIT_TIME + 50) * 10**9)
            porcelain.add(r, paths=["a"])
            if entry_mtime() != (COMMIT_TIME + 50, 0):
                raise HarnessError("add did not record the whole-second mtime: %r" % (entry_mtime(),))
            rewrite(stamp(COMMIT_TIME + 50, 0))
        else:
            rsec, rns = entry_mtime()
            if code == "ns0" and rns == 0:
                acc.outcome("stamps:skipped(entry-already-has-ns-0)")
                return
            rewrite(stamp(rsec, rns))
        acc.outcome("stamps:%s" % seq)
        sub = Acc()
        judge(sub, box, tree, "stamps:%s" % seq, desc, rpl, use_git=False)
        viol, sub.viol = sub.viol, {}
        acc.merge(sub)
        for key, (_, cases) in viol.items():  # the key says which stat history the status call got wrong
            for c in cases:
                acc.violation("stamps(%s,%s,trustctime=%s):%s" % (seq, "same-second" if code in ("ns5", "ns-max", "ns0") else "adjacent-second", str(trust_ctime).lower(), key), c["summary"], c["replay"])
    finally:
        box.close()


def work(task):
    kind, items, use_git = task
    acc = Acc()
    for it in items:
        if kind == "roundtrip":
            case_roundtrip(acc, it[0], it[1], use_git)
        elif kind == "switch":
            case_switch(acc, it[0], it[1], it[2], use_git)
        elif kind == "stamps":
            case_stamps(acc, *it)
        else:
            raise AssertionError(kind)
    return acc


# --------------------------------------------------------------------------- run


def run(ctx):
    q = ctx.quick
    built = preload_rust()  # tree parsing/sorting and tree diffing run in the extensions built from the working tree (before HOME moves)
    isolate()
    ctx.acc.note("rust_extensions", sorted(k for k in built if not k.startswith("_build")))
    J = ctx.jobs * 6
    # (1)
    trees = trees_phase1(2 if q else 3, kinds3=None)
    if q:
        trees += [t for t in trees_phase1(3, kinds3=Q3) if len(t) == 3]
    us = universes(not q)
    extra = sorted(set(t for _, u in us[: 1 + len(SPECIAL)] for t in u) - set(trees))
    trees += extra
    trees += [t for t in trees_collide() if t not in set(trees)]
    # three-entry trees of the thorough tier: one entry point each (alternating), everything else: both
    rt = [(t, m) for i, t in enumerate(trees) for j, m in enumerate(CHECKOUTS) if q or len(t) < 3 or (i + j) % 2 == 0]
    tasks = [("roundtrip", part, True) for part in split(ctx.order(rt), J)]
    # (2)
    pairs = set()
    for _, u in us:
        for a in u:
            for b in u:
                pairs.add((a, b))
    pairs = sorted(pairs)
    first = set(us[0][1])
    sw = [(a, b, m) for a, b in pairs for m in SWITCHES if m == "porcelain.checkout" or (a in first and b in first) or (len(a) <= 1 and len(b) <= 1)]
    tasks += [("switch", part, True) for part in split(ctx.order(sw), J * 2)]
    tasks += [("stamps", part, False) for part in split(ctx.order(stamp_cases()), 8)]
    tasks = ctx.order(tasks)
    for acc in pmap(work, tasks, jobs=ctx.jobs, ordered=True):
        ctx.acc.merge(acc)
    t12 = ctx.elapsed()
    print("C18: round trips and switches done after %.0f s (%d + %d cases)" % (t12, len(rt), len(sw)), file=sys.stderr, flush=True)
    # (3)
    stats = bfs(ctx, 2 if q else 3, True)
    ctx.acc.note("wall_s_phases_1_2", round(t12, 1))
    ctx.acc.note("wall_s_phase_3", round(ctx.elapsed() - t12, 1))

    collapse_name_suffixes(ctx.acc)
    n = ctx.acc.n
    ctx.level = "model_checking"
    ctx.coverage.update(
        evaluations=n.get("roundtrip_cases", 0) + n.get("switch_cases", 0) + n.get("transitions", 0) + n.get("stamp_cases", 0),
        states=stats["states"],
        transitions=n.get("transitions", 0),
        traces_validated_against_impl=n.get("roundtrip_cases", 0) + n.get("switch_cases", 0) + n.get("transitions", 0) + n.get("stamp_cases", 0),
        distinct_nontrivial=len([c for c in ctx.acc.classes if not c.endswith(":ok") and c != "state:clean"]),
        exhaustive=True,
        bounds={
            "roundtrip_trees": len(trees), "roundtrip_cases": len(rt), "roundtrip_methods": list(CHECKOUTS),
            "roundtrip_max_entries": 2 if q else 3, "roundtrip_three_entry_kinds": Q3 if q else KINDS1,
            "switch_universes": [(name, len(u)) for name, u in us], "switch_ordered_pairs": len(pairs), "switch_methods": list(SWITCHES),
            "edit_depth": stats["depth_completed"], "edit_starts": sorted(STARTS), "sort_adjacent_names": [_pn(x) for x in COLLIDE], "edit_states_per_level": stats["states_per_level"],
        },
        rule=(
            "(1) every tree of <=%d entries over names %r x kinds %r%s, checked out by %r; (2) all ordered pairs inside each slot universe %r switched by %r; "
            "(3) BFS to depth %d from %d start trees over {same-size edit, size-changing edit, chmod, delete, ->file, ->symlink(2 targets), ->directory, "
            "porcelain.add(path), WorkTree.unstage, porcelain.remove(cached)} on two paths each + porcelain.add(.), states merged on (index, directory, "
            "per-entry stat-clean flag), every transition re-executed from a fresh checkout; porcelain.status (normal and all, live and fresh Repo) judged in every state "
            "against the three-dict model, the model checked against C git status/write-tree in every judged end state. Also: every tree of 2-3 names that sort around '/' "
            "(%r) in (1); start states with a prelude (edit, stage, edit back; index rewritten by C git so that it holds a cache-tree extension, which must stay consistent with "
            "the entries after every dulwich write); porcelain.reset(hard, HEAD) and porcelain.checkout(B, force=True) from every state without file/directory clashes, as final steps "
            "(index and files of the paths concerned must equal the target tree). Round 3: edit op symlink -> regular file holding the link text; porcelain.checkout(paths), reset_file, "
            "restore as ordinary operations (work-tree entry must get kind, content and exec bit of the HEAD/index entry); reset --mixed HEAD / other commit and an unforced switch to a "
            "branch lacking a hand-deleted file as final steps; a start with staged mode-only and type-only changes; (4) %d owned-timestamp cases (mtime set relative to the second an "
            "index entry records, core.trustctime false/true, content oracle)."
            % (2 if q else 3, [_pn(x) for x in NAMES], KINDS1, " + all 3-entry trees over kinds %r" % Q3 if q else " (3-entry trees: the two entry points alternate)", list(CHECKOUTS),
               [(name, len(u)) for name, u in us], list(SWITCHES), stats["depth_completed"], len(STARTS), [_pn(x) for x in COLLIDE], len(stamp_cases()))
        ),
        git_status_calls=n.get("git_status_calls", 0),
        git_write_tree_calls=n.get("git_write_tree_calls", 0),
        states_judged=n.get("states_judged", 0),
    )
    ctx.assumptions += [
        "racy-git is owned: every harness edit stamps the file with a strictly increasing virtual mtime (from 1100000000 s) that never equals a recorded index mtime, the index file's mtime or the commit time",
        "no global/system git configuration or ignore file (HOME, XDG_CONFIG_HOME in the scratch root, GIT_CONFIG_GLOBAL=/dev/null, GIT_CONFIG_NOSYSTEM=1); core.autocrlf unset; core.filemode=true; umask 022",
        "inputs (blobs, trees, commits, refs, HEAD, config) are written by the harness, not by dulwich",
        "C git runs with GIT_OPTIONAL_LOCKS=0 and a copy of the index, after dulwich's observations, so it cannot perturb a state",
        "symlinked leading directories that resolve to same-named files are not enumerated (git and lstat disagree about them by design)",
        "phase (4) does not consult C git: git built without USE_NSEC compares whole seconds; the stat-identical combination (same second, ns 0, same size) is not enumerated",
        "operations are only issued when C git would accept them (path exists or is tracked); any exception from a dulwich operation on such a state is a violation",
    ]


def replay(ctx, obj):
    """replay_generic, except that a recorded key K is also reproduced by K + ',name=<class>' (run() merges
    the name-specific variant into K when the failure is not name-specific)."""
    preload_rust()
    isolate()
    key = obj.get("key")
    mod = sys.modules[__name__]
    reproduced = 0
    for case in obj.get("cases", []):
        r = case.get("replay")
        if not r:
            continue
        obs = []
        for _ in range(2):
            acc = Acc()
            getattr(mod, r["fn"])(acc, *dec(r["args"]))
            obs.append(sorted((k, v[1][0]["summary"]) for k, v in acc.viol.items()))
        strip = lambda o: [(k, re.sub(r"/dev/shm/[^'\" ]*", "<scratch>", t)) for k, t in o]  # noqa: E731
        if strip(obs[0]) != strip(obs[1]):
            print("HARNESS-ERROR: replay is not deterministic: %r vs %r" % (obs[0], obs[1]))
            return 2
        hit = [t for k, t in obs[0] if k == key or k.startswith(key + ",name=")]
        if hit:
            reproduced += 1
            print("REPRODUCED key=%s: %s" % (key, hit[0][:500]))
        else:
            print("NOT-REPRODUCED key=%s (observed %r)" % (key, [k for k, _ in obs[0]]))
    if reproduced:
        print("VIOLATION property=%s replay=%s" % (ctx.prop, "(replayed)"))
        return 1
    return 0
