"""C09 — a crash at any instant leaves a repository that opens and is consistent.

E2: for every repository-changing operation, from a loose and from a packed start state, the
process is "killed" before each of its N mutating system calls in turn (completed write(2)s
survive, user-space buffers are lost, later mutations never happen).  The resulting directory is
opened with fresh dulwich objects and the recovery predicate of the statement is evaluated.
With fsync enabled, power-loss variants (unsynced data zero-length / missing) are added.
"""

from __future__ import annotations

import hashlib
import os
import shutil
import tempfile

from engines import crashfs, fsint
from engines.common import Acc, HarnessError, git, pmap_acc, rp

# --------------------------------------------------------------------------- start states


class _DetNames:
    def __init__(self):
        self.n = 0

    def __iter__(self):
        return self

    def __next__(self):
        self.n += 1
        return "vt%04d" % self.n


def _mk(c_parent, tree, msg, t):
    from dulwich.objects import Commit

    c = Commit()
    c.tree = tree
    c.parents = [c_parent] if c_parent else []
    c.author = c.committer = b"A <a@example.com>"
    c.author_time = c.commit_time = t
    c.author_timezone = c.commit_timezone = 0
    c.message = msg
    return c


def build_repo(root, packed, fsync=False):
    """wt/ : non-bare repo with 2 commits, an annotated tag, HEAD on a branch, index, config.
    src/ : a second repo that is one commit ahead (source for fetch / push scenarios)."""
    from dulwich.index import IndexEntry
    from dulwich.objects import Blob, Tag, Tree
    from dulwich.repo import Repo

    p = os.path.join(root, "wt")
    os.mkdir(p)
    r = Repo.init(p)
    b1 = Blob.from_string(b"hello\n")
    b2 = Blob.from_string(b"hello world\n" * 40)
    t1 = Tree()
    t1.add(b"a", 0o100644, b1.id)
    t2 = Tree()
    t2.add(b"a", 0o100644, b2.id)
    t2.add(b"b", 0o100644, b1.id)
    c1 = _mk(None, t1.id, b"one\n", 1000000000)
    c2 = _mk(c1.id, t2.id, b"two\n", 1000000100)
    tag = Tag()
    tag.name = b"v1"
    tag.object = (type(c1), c1.id)
    tag.tagger = b"A <a@example.com>"
    tag.tag_time = 1000000050
    tag.tag_timezone = 0
    tag.message = b"tag\n"
    # unreachable garbage (gc may remove it)
    junk = Blob.from_string(b"unreachable junk\n")
    for o in (b1, b2, t1, t2, c1, c2, tag, junk):
        r.object_store.add_object(o)
    r.refs[b"refs/heads/master"] = c2.id
    r.refs[b"refs/heads/side"] = c1.id
    r.refs[b"refs/heads/both"] = c1.id
    r.refs[b"refs/tags/v1"] = tag.id
    r.refs.set_symbolic_ref(b"HEAD", b"refs/heads/master")
    cfg = r.get_config()
    cfg.set((b"gc",), b"auto", b"0")
    cfg.set((b"user",), b"name", b"U")
    cfg.set((b"user",), b"email", b"u@example.com")
    if fsync:
        cfg.set((b"core",), b"fsyncObjectFiles", b"true")
    cfg.write_to_path()
    idx = r.open_index()
    for name, blob in ((b"a", b2), (b"b", b1)):
        idx[name] = IndexEntry(ctime=(1000000000, 0), mtime=(1000000000, 0), dev=1, ino=2, mode=0o100644,
                               uid=0, gid=0, size=len(blob.data), sha=blob.id, flags=0, extended_flags=0)
    idx.write()
    with open(os.path.join(p, "a"), "wb") as f:
        f.write(b2.data)
    with open(os.path.join(p, "b"), "wb") as f:
        f.write(b1.data)
    if packed:
        r.object_store.pack_loose_objects()
        r.refs.pack_refs(all=True)
        # one ref loose over packed, loose objects on top of the pack (reachable and not)
        r.refs[b"refs/heads/side"] = c2.id
        r.refs[b"refs/heads/side"] = c1.id
        # ... and one whose loose value differs from the (older) packed one
        r.refs[b"refs/heads/both"] = c2.id
        bx = Blob.from_string(b"loose on top of the pack\n")
        tx = Tree()
        tx.add(b"x", 0o100644, bx.id)
        cx = _mk(c1.id, tx.id, b"loose commit\n", 1000000150)
        for o in (bx, tx, cx, Blob.from_string(b"more junk\n")):
            r.object_store.add_object(o)
        r.refs[b"refs/heads/topic"] = cx.id
    r.close()
    # objects for the operations (not in wt yet)
    b3 = Blob.from_string(b2.data + b"one more line so that this blob deltifies against b2\n")
    t3 = Tree()
    t3.add(b"a", 0o100644, b3.id)
    t3.add(b"b", 0o100644, b1.id)
    c3 = _mk(c2.id, t3.id, b"three\n", 1000000200)
    s = os.path.join(root, "src")
    shutil.copytree(p, s)
    rs = Repo(s)
    for o in (b3, t3, c3):
        rs.object_store.add_object(o)
    rs.refs[b"refs/heads/master"] = c3.id
    # a side chain s1 <- s2 <- s3 that wt knows nothing about (source of the depth-limited fetches)
    chain = []
    prev = None
    for k in (1, 2, 3):
        bs = Blob.from_string(b"side chain %d\n" % k)
        ts = Tree()
        ts.add(b"s", 0o100644, bs.id)
        cs = _mk(prev, ts.id, b"side %d\n" % k, 1000000300 + k)
        for o in (bs, ts, cs):
            rs.object_store.add_object(o)
        prev = cs.id
        chain.append(cs)
    rs.refs[b"refs/heads/sidechain"] = chain[-1].id
    rs.close()
    with open(os.path.join(root, "ids"), "w") as f:
        f.write(" ".join(x.decode() for x in (b1.id, b2.id, t1.id, t2.id, c1.id, c2.id, tag.id, junk.id, b3.id, t3.id, c3.id, chain[-1].id)))
    # a genuinely thin pack (REF delta against b2, which only the receiver has), made by C git
    p = git(["pack-objects", "--thin", "--stdout", "--revs", "--window=10", "--depth=10"], cwd=s, input=c3.id + b"\n^" + c2.id + b"\n")
    thin = p.stdout
    from engines.refmodels import minipack

    if not any(e["type"] == 7 for e in minipack.parse(thin)):
        raise HarnessError("git did not produce a thin pack with a REF delta")
    with open(os.path.join(root, "thin.pack"), "wb") as f:
        f.write(thin)


def ids(root):
    with open(os.path.join(root, "ids")) as f:
        names = "b1 b2 t1 t2 c1 c2 tag junk b3 t3 c3 s3".split()
        return dict(zip(names, (x.encode() for x in f.read().split())))


def _new_objs(root):
    from dulwich.repo import Repo

    i = ids(root)
    rs = Repo(os.path.join(root, "src"))
    try:
        return [rs[i[k]] for k in ("b3", "t3", "c3")]
    finally:
        rs.close()


# --------------------------------------------------------------------------- operations


def _wt(root):
    from dulwich.repo import Repo

    return Repo(os.path.join(root, "wt"))


def op_add_loose(root):
    objs = _new_objs(root)
    r = _wt(root)
    try:
        for o in objs:
            r.object_store.add_object(o)
    finally:
        r.close()


def op_commit(root):
    i = ids(root)
    r = _wt(root)
    try:
        r.get_worktree().commit(
            message=b"crash commit\n", tree=i["t1"], committer=b"C <c@example.com>", author=b"C <c@example.com>",
            commit_timestamp=1000000300, commit_timezone=0, author_timestamp=1000000300, author_timezone=0,
            sign=False, no_verify=True)
    finally:
        r.close()


def op_set_ref(root):
    i = ids(root)
    r = _wt(root)
    try:
        assert r.refs.set_if_equals(b"refs/heads/master", i["c2"], i["c1"])
    finally:
        r.close()


def op_set_side(root):
    i = ids(root)
    r = _wt(root)
    try:
        assert r.refs.set_if_equals(b"refs/heads/side", i["c1"], i["c2"])
    finally:
        r.close()


def op_remove_side(root):
    i = ids(root)
    r = _wt(root)
    try:
        assert r.refs.remove_if_equals(b"refs/heads/side", i["c1"])
    finally:
        r.close()


def _both(r):
    return r.refs.read_loose_ref(b"refs/heads/both")


def op_remove_both(root):
    r = _wt(root)
    try:
        assert r.refs.remove_if_equals(b"refs/heads/both", _both(r))
    finally:
        r.close()


def op_del_both(root):
    r = _wt(root)
    try:
        del r.refs[b"refs/heads/both"]
    finally:
        r.close()


def op_locked_delete_both(root):
    from dulwich.refs import locked_ref

    r = _wt(root)
    try:
        with locked_ref(r.refs, b"refs/heads/both") as lr:
            lr.delete()
    finally:
        r.close()


def op_set_both(root):
    i = ids(root)
    r = _wt(root)
    try:
        assert r.refs.set_if_equals(b"refs/heads/both", _both(r), i["b1"] and i["c1"] if _both(r) != i["c1"] else i["c2"])
    finally:
        r.close()


def op_remove_tag(root):
    r = _wt(root)
    try:
        del r.refs[b"refs/tags/v1"]
    finally:
        r.close()


def op_symref(root):
    r = _wt(root)
    try:
        r.refs.set_symbolic_ref(b"HEAD", b"refs/heads/side")
    finally:
        r.close()


def op_pack_refs(root):
    r = _wt(root)
    try:
        r.refs.pack_refs(all=True)
    finally:
        r.close()


def _pack_bytes(root, thin=False):
    """A pack with the three new objects (thin: t3/b3 as REF deltas against objects in wt)."""
    from io import BytesIO

    from dulwich.object_format import SHA1
    from dulwich.pack import write_pack_objects

    objs = _new_objs(root)
    f = BytesIO()
    write_pack_objects(f.write, [(o, None) for o in objs], SHA1, deltify=False)
    return f.getvalue()


def op_add_pack(root):
    data = _pack_bytes(root)
    r = _wt(root)
    try:
        f, commit, abort = r.object_store.add_pack()
        try:
            f.write(data)
        except BaseException:
            abort()
            raise
        commit()
    finally:
        r.close()


def op_add_thin_pack(root):
    from io import BytesIO

    with open(os.path.join(root, "thin.pack"), "rb") as f:
        data = f.read()
    r = _wt(root)
    try:
        b = BytesIO(data)
        r.object_store.add_thin_pack(b.read, None)
    finally:
        r.close()


def op_add_objects(root):
    objs = _new_objs(root)
    r = _wt(root)
    try:
        r.object_store.add_objects([(o, None) for o in objs])
    finally:
        r.close()


def op_pack_loose(root):
    r = _wt(root)
    try:
        r.object_store.pack_loose_objects()
    finally:
        r.close()


def op_repack(root):
    r = _wt(root)
    try:
        r.object_store.repack()
    finally:
        r.close()


def op_gc(root):
    from dulwich.gc import garbage_collect

    r = _wt(root)
    try:
        garbage_collect(r, grace_period=0)
    finally:
        r.close()


def op_index_write(root):
    r = _wt(root)
    try:
        idx = r.open_index()
        e = idx[b"a"]
        for k in range(200):
            idx[b"gen/f%03d" % k] = e
        idx.write()
    finally:
        r.close()


def op_index_conflict(root):
    """An unresolved conflict whose three stages are blobs no commit knows (git am -3, stash pop, cherry-pick of an
    unreferenced commit): they are in use as long as the index names them."""
    from dulwich.index import ConflictedIndexEntry, IndexEntry
    from dulwich.objects import Blob

    r = _wt(root)
    try:
        idx = r.open_index()
        e = idx[b"a"]
        stages = []
        for text in (b"ancestor side\n", b"our side\n", b"their side\n"):
            b = Blob.from_string(text)
            r.object_store.add_object(b)
            stages.append(IndexEntry(ctime=e.ctime, mtime=e.mtime, dev=e.dev, ino=e.ino, mode=0o100644, uid=e.uid, gid=e.gid,
                                     size=len(text), sha=b.id, flags=0, extended_flags=0))
        idx[b"conflicted"] = ConflictedIndexEntry(ancestor=stages[0], this=stages[1], other=stages[2])
        idx.write()
    finally:
        r.close()


def op_config_write(root):
    r = _wt(root)
    try:
        cfg = r.get_config()
        for k in range(300):
            cfg.set((b"sec%d" % k,), b"key", b"v%d" % k)
        cfg.write_to_path()
    finally:
        r.close()


def op_commit_graph(root):
    r = _wt(root)
    try:
        r.object_store.write_commit_graph()
    finally:
        r.close()


def op_midx(root):
    r = _wt(root)
    try:
        r.object_store.write_midx()
    finally:
        r.close()


def op_fetch(root):
    from dulwich import porcelain

    porcelain.fetch(os.path.join(root, "wt"), os.path.join(root, "src"), errstream=open(os.devnull, "wb"), outstream=open(os.devnull, "wb"))


def op_fetch_deepen(root):
    """depth=1 fetch of a new branch followed by a deepening fetch, over the pipe transport against C git upload-pack:
    the second answer carries `unshallow`, and the shallow file must not run ahead of the pack."""
    from dulwich.client import SubprocessGitClient
    from dulwich.repo import Repo

    i = ids(root)
    r = Repo(os.path.join(root, "wt"))
    try:
        for depth in (1, 3):
            c = SubprocessGitClient()
            c.fetch(os.path.join(root, "src"), r, determine_wants=lambda refs, depth=None: [i["s3"]], depth=depth)
            r.refs[b"refs/heads/fetched"] = i["s3"]
    finally:
        r.close()


def op_push(root):
    """receive-pack of one new commit: local push src -> wt (branch 'incoming')."""
    from dulwich.client import LocalGitClient
    from dulwich.repo import Repo

    i = ids(root)
    src = Repo(os.path.join(root, "src"))
    try:
        c = LocalGitClient()

        def update_refs(refs):
            return {b"refs/heads/incoming": i["c3"]}

        def gen(have, want, ofs_delta=False, progress=None):
            return src.generate_pack_data(have, want, ofs_delta=ofs_delta, progress=progress)

        c.send_pack(os.path.join(root, "wt"), update_refs, gen)
    finally:
        src.close()


def op_stage(root):
    """porcelain.add of a modified file: loose object + index write."""
    from dulwich import porcelain

    wt = os.path.join(root, "wt")
    with open(os.path.join(wt, "a"), "wb") as f:
        f.write(b"changed content\n")
    porcelain.add(wt, [os.path.join(wt, "a")])


OPS = {
    "add_object x3": op_add_loose,
    "WorkTree.commit": op_commit,
    "set_if_equals(master)": op_set_ref,
    "set_if_equals(side)": op_set_side,
    "remove_if_equals(side)": op_remove_side,
    "del refs[tag]": op_remove_tag,
    "remove_if_equals(both)": op_remove_both,
    "del refs[both]": op_del_both,
    "locked_ref.delete(both)": op_locked_delete_both,
    "set_if_equals(both)": op_set_both,
    "set_symbolic_ref(HEAD)": op_symref,
    "pack_refs(all)": op_pack_refs,
    "add_pack+commit": op_add_pack,
    "add_thin_pack": op_add_thin_pack,
    "add_objects": op_add_objects,
    "pack_loose_objects": op_pack_loose,
    "repack": op_repack,
    "garbage_collect(grace=0)": op_gc,
    "Index.write": op_index_write,
    "Index.write(conflict)": op_index_conflict,
    "ConfigFile.write_to_path": op_config_write,
    "write_commit_graph": op_commit_graph,
    "write_midx": op_midx,
    "porcelain.fetch": op_fetch,
    "fetch depth=1 then deepen (git upload-pack)": op_fetch_deepen,
    "local push (receive)": op_push,
    "porcelain.add": op_stage,
}
QUICK_OPS = [
    "add_object x3", "WorkTree.commit", "set_if_equals(master)", "remove_if_equals(side)", "pack_refs(all)",
    "add_objects", "add_thin_pack", "pack_loose_objects", "repack", "garbage_collect(grace=0)", "Index.write",
    "ConfigFile.write_to_path", "set_symbolic_ref(HEAD)", "local push (receive)",
    "remove_if_equals(both)", "del refs[both]", "locked_ref.delete(both)", "set_if_equals(both)",
    "porcelain.add", "fetch depth=1 then deepen (git upload-pack)",
]


# --------------------------------------------------------------------------- recovery observation


def observe(root):
    """Everything the statement speaks about, seen through *fresh* dulwich objects."""
    from dulwich.config import ConfigFile
    from dulwich.index import Index
    from dulwich.repo import Repo

    out = {"open": "ok", "refs": {}, "objects": {}, "visible_bad": [], "index": None, "config": None, "symrefs": {}}
    p = os.path.join(root, "wt")
    try:
        r = Repo(p)
    except Exception as e:
        out["open"] = "%s: %s" % (type(e).__name__, str(e)[:100])
        return out
    try:
        try:
            for name in sorted(r.refs.allkeys()):
                try:
                    out["refs"][name] = r.refs[name]
                except KeyError:
                    out["refs"][name] = None
                except Exception as e:
                    out["refs"][name] = "ERR %s" % type(e).__name__
            out["symrefs"] = dict(r.refs.get_symrefs())
        except Exception as e:
            out["refs_error"] = "%s: %s" % (type(e).__name__, str(e)[:100])
        try:
            visible = sorted(r.object_store)
        except Exception as e:
            visible = []
            out["iter_error"] = "%s: %s" % (type(e).__name__, str(e)[:100])
        for oid in visible:
            try:
                o = r.object_store[oid]
                raw = o.as_raw_string()
                h = hashlib.sha1(o.type_name + b" " + str(len(raw)).encode() + b"\0" + raw).hexdigest().encode()
                if h != oid:
                    out["visible_bad"].append((oid, "hashes to %s" % h.decode()))
                out["objects"][oid] = h
            except Exception as e:
                out["visible_bad"].append((oid, "%s: %s" % (type(e).__name__, str(e)[:60])))
        # objects that are not listed but can still be looked up are fine; record lookups of known ids
        i = ids(root)
        for k, oid in i.items():
            if oid in out["objects"]:
                continue
            try:
                o = r.object_store[oid]
                raw = o.as_raw_string()
                out["objects"][oid] = hashlib.sha1(o.type_name + b" " + str(len(raw)).encode() + b"\0" + raw).hexdigest().encode()
            except KeyError:
                pass
            except Exception as e:
                out["visible_bad"].append((oid, "lookup %s: %s" % (type(e).__name__, str(e)[:60])))
    finally:
        r.close()
    try:
        idx = Index(os.path.join(p, ".git", "index"))
        # stat fields (times, inode, device) depend on the scratch copy the operation ran in, not on the operation
        def _ent(v):
            if hasattr(v, "sha"):
                return (v.mode, v.sha, v.size, v.flags & ~0x3000, getattr(v, "extended_flags", 0))
            if hasattr(v, "ancestor"):  # unresolved conflict: the three stages
                return ("conflict",) + tuple(None if st is None else _ent(st) for st in (v.ancestor, v.this, v.other))
            return repr(v)

        out["index"] = sorted((k, _ent(v)) for k, v in idx.items())
    except Exception as e:
        out["index"] = "ERR %s: %s" % (type(e).__name__, str(e)[:80])
    try:
        with open(os.path.join(p, ".git", "config"), "rb") as f:
            raw = f.read()
        ConfigFile.from_path(os.path.join(p, ".git", "config"))
        out["config"] = raw
    except Exception as e:
        out["config"] = "ERR %s: %s" % (type(e).__name__, str(e)[:80])
    return out


def closure(root, tips):
    """Ids reachable from tips through a fresh repo; returns (set, problems)."""
    from dulwich.objects import Commit, Tag, Tree
    from dulwich.repo import Repo

    seen = set()
    bad = []
    r = Repo(os.path.join(root, "wt"))
    try:
        try:
            shallow = set(r.get_shallow())  # history is cut below these commits on purpose
        except Exception:
            shallow = set()
        todo = [t for t in tips if t]
        while todo:
            oid = todo.pop()
            if oid in seen:
                continue
            seen.add(oid)
            try:
                o = r.object_store[oid]
            except Exception as e:
                bad.append((oid, "%s" % type(e).__name__))
                continue
            if isinstance(o, Commit):
                todo.append(o.tree)
                if oid not in shallow:
                    todo.extend(o.parents)
            elif isinstance(o, Tree):
                for e in o.items():
                    if e.mode != 0o160000:
                        todo.append(e.sha)
            elif isinstance(o, Tag):
                todo.append(o.object[1])
    finally:
        r.close()
    return seen, bad


def judge(name, start, old, new, now, root, where):
    out = []
    K = "crash:%s:" % name
    if now["open"] != "ok":
        return [(K + "repository-does-not-open", "%s: Repo() raised %s" % (where, now["open"]))]
    if "refs_error" in now:
        out.append((K + "refs-unreadable", "%s: %s" % (where, now["refs_error"])))
    for ref in sorted(set(old["refs"]) | set(new["refs"]) | set(now["refs"])):
        o, n, c = old["refs"].get(ref), new["refs"].get(ref), now["refs"].get(ref)
        if c != o and c != n:
            out.append((K + "ref-neither-old-nor-new", "%s: %s is %s (old %s, new %s)" % (where, ref.decode(), _s(c), _s(o), _s(n))))
    tips = [v for v in now["refs"].values() if isinstance(v, bytes) and len(v) == 40]
    seen, bad = closure(root, tips)
    for oid, why in bad:
        out.append((K + "ref-closure-object-unreadable", "%s: object %s reachable from the refs: %s" % (where, oid[:10].decode(), why)))
    # everything reachable before is still readable
    for oid in old["_closure"]:
        if now["objects"].get(oid) != oid:
            out.append((K + "previously-reachable-object-lost", "%s: %s was reachable before the operation and is now %s" % (
                where, oid[:10].decode(), "unreadable" if oid not in now["objects"] else "corrupt")))
            break
    for oid, why in now["visible_bad"]:
        out.append((K + "half-written-data-taken-for-valid", "%s: object %s is offered by the store but %s" % (where, oid[:10].decode(), why)))
        break
    if "iter_error" in now:
        out.append((K + "object-store-unlistable", "%s: iterating the store raised %s" % (where, now["iter_error"])))
    if isinstance(now["index"], list):
        for path_, ent in now["index"]:
            shas = [ent[1]] if ent and ent[0] != "conflict" else [st[1] for st in ent[1:] if st]
            gone = [x for x in shas if isinstance(x, bytes) and now["objects"].get(x) != x and ent[0] != 0o160000]
            if gone:
                out.append((K + "index-names-missing-object", "%s: index entry %r names %s, which is not in the store" % (where, path_, gone[0][:10].decode())))
                break
    if now["index"] != old["index"] and now["index"] != new["index"]:
        out.append((K + "index-neither-old-nor-new", "%s: index is %s" % (where, str(now["index"])[:120])))
    if now["config"] != old["config"] and now["config"] != new["config"]:
        out.append((K + "config-neither-old-nor-new", "%s: config is %s" % (where, str(now["config"])[:120])))
    return out


def _s(v):
    if v is None:
        return "absent"
    if isinstance(v, bytes):
        return v[:10].decode()
    return str(v)


# --------------------------------------------------------------------------- enumeration


def _site(op, rel, info):
    return True


def _run(en, op, **kw):
    tempfile._name_sequence = _DetNames()
    root = en.fresh()
    ctl, outcome = crashfs.run_op(root, op, **kw)
    return root, ctl, outcome


def case_crash(acc, name, start, k, variant=None):
    """variant: None (process crash) | ('zero'|'missing', relpath) power-loss damage of one unsynced file |
    ('torn', m): the write the kill lands in has written its first m bytes."""
    en = crashfs.Enumerator(_setup_for(start))
    try:
        base = _baseline(en, name)
        _crash_one(acc, en, name, start, k, base, variant)
    finally:
        en.close()


def _baseline(en, name):
    op = OPS[name]
    root0 = en.fresh()
    old = observe(root0)
    old["_closure"], bad = closure(root0, [v for v in old["refs"].values() if isinstance(v, bytes) and len(v) == 40])
    if bad or old["visible_bad"] or old["open"] != "ok":
        raise HarnessError("start state is not consistent: %r %r" % (bad, old["visible_bad"]))
    root, ctl, outcome = _run(en, op)
    if outcome[0] != "ok":
        raise HarnessError("crash-free run of %s failed: %r" % (name, outcome))
    new = observe(root)
    if new["visible_bad"]:
        raise HarnessError("crash-free run of %s leaves bad objects: %r" % (name, new["visible_bad"]))
    return old, new, list(ctl.steps)


def _crash_one(acc, en, name, start, k, base, variant=None):
    old, new, steps = base
    op = OPS[name]
    if k == len(steps):
        # the operation returned (was acknowledged); power fails before unsynced data reaches the disk
        root, ctl, outcome = _run(en, op)
        if outcome[0] != "ok":
            raise HarnessError("crash-free run of %s failed: %r" % (name, outcome))
        where = "%s [%s] completed" % (name, start)
    elif variant is not None and variant[0] == "torn":
        root, ctl, outcome = _run(en, op, crash_at=k, torn=variant[1])
        if outcome[0] != "crash":
            raise HarnessError("crash point %d of %s not reached (outcome %r)" % (k, name, outcome))
        where = "%s [%s] killed during step %d/%d (%s %s): only the first %d of %d bytes were written" % (
            name, start, k, len(steps), steps[k][0], steps[k][1], variant[1], steps[k][2])
    else:
        root, ctl, outcome = _run(en, op, crash_at=k)
        if outcome[0] != "crash":
            raise HarnessError("crash point %d of %s not reached (outcome %r)" % (k, name, outcome))
        where = "%s [%s] killed before step %d/%d (%s %s)" % (name, start, k, len(steps), steps[k][0], steps[k][1])
    dirty = sorted(r for r, n in ctl.dirty.items() if os.path.lexists(os.path.join(root, r)))
    if variant is not None and variant[0] != "torn":
        kind, rel = variant
        p = os.path.join(root, rel)
        if not os.path.lexists(p):
            raise HarnessError("power-loss variant names a missing file %s" % rel)
        if kind == "zero":
            fsint.real("open")(p, "wb").close()
        else:
            fsint.real("remove")(p)
        where += " + power loss: unsynced %s %s" % (rel, "is zero-length" if kind == "zero" else "is missing")
    now = observe(root)
    if os.environ.get("VERIF_C09_GIT") == "1" and variant is None:
        # second opinion (thorough tier): C git must open the post-crash repository and find every
        # ref's history connected and every object intact (dangling objects are fine)
        p = git(["fsck", "--no-dangling", "--no-progress"], cwd=os.path.join(root, "wt"), check=False)
        acc.count("git_fsck_runs")
        if p.returncode != 0:
            acc.violation("crash:%s:git-fsck-fails" % name, "%s: git fsck exit %d: %s" % (where, p.returncode, (p.stderr + p.stdout)[-300:].decode("utf-8", "replace").replace(root, "<root>")),
                          rp(case_crash, name, start, k, variant))
    acc.count("crash_points" if variant is None else "torn_write_variants" if variant[0] == "torn" else "power_loss_variants")
    acc.outcome("%s:%s" % (name, "same-as-old" if _same(now, old) else "same-as-new" if _same(now, new) else "intermediate"))
    for key, summary in judge(name, start, old, new, now, root, where):
        if variant is not None:
            key += ":torn-write" if variant[0] == "torn" else ":power-loss"
        acc.violation(key, summary, rp(case_crash, name, start, k, variant))
    return dirty


def _same(a, b):
    return a["refs"] == b["refs"] and set(a["objects"]) == set(b["objects"]) and a["index"] == b["index"] and a["config"] == b["config"]


def _setup_for(start):
    """start = '<loose|packed>[+fsync][ after <operation>]' (the optional operation has completed before the crash test)."""
    first = None
    if " after " in start:
        start, first = start.split(" after ", 1)
    fs = start.endswith("+fsync")

    def setup(r):
        build_repo(r, start.startswith("packed"), fsync=fs)
        if first is not None:
            tempfile._name_sequence = _DetNames()
            OPS[first](r)

    return setup


def work(task):
    name, start, power = task
    acc = Acc()
    try:
        en = crashfs.Enumerator(_setup_for(start))
    except Exception as e:
        raise HarnessError("setup %r failed: %r" % (start, e))
    try:
        try:
            base = _baseline(en, name)
        except HarnessError as e:
            if " after " in start and "crash-free run of" in str(e):
                acc.outcome("history:second-operation-not-applicable")
                return acc
            raise
        if " after " in start and os.environ.get("VERIF_C09_GIT") == "1":
            # the state the first operation left must itself be acceptable to git: otherwise the crash is not to blame
            p0 = git(["fsck", "--no-dangling", "--no-progress"], cwd=os.path.join(en.fresh(), "wt"), check=False)
            if p0.returncode != 0:
                first = start.split(" after ", 1)[1]
                acc.violation("history:git-fsck-rejects-the-state-left-by:%s" % first, "%s (completed, no crash): git fsck exit %d: %s" % (
                    first, p0.returncode, (p0.stderr + p0.stdout)[-300:].decode("utf-8", "replace")), None)
                return acc
        if " after " in start:
            acc.count("two_operation_histories")
            if _same(base[0], base[1]):
                acc.outcome("history:second-operation-changes-nothing")
                return acc
        steps = base[2]
        acc.count("scenarios")
        acc.sample({"scenario": name, "start": start, "mutating_steps": len(steps), "first_steps": [list(s) for s in steps[:8]]}, cap=4)
        if _same(base[0], base[1]) and name not in ("write_commit_graph", "write_midx", "pack_loose_objects", "repack", "pack_refs(all)"):
            raise HarnessError("operation %s changed nothing observable: vacuous" % name)
        for k in range(len(steps) + (1 if power else 0)):
            dirty = _crash_one(acc, en, name, start, k, base)
            if k < len(steps) and steps[k][0] == "write" and (steps[k][2] or 0) > 1:
                # the kill lands inside the write(2): a prefix of it has reached the file
                for m in sorted({1, steps[k][2] // 2}):
                    _crash_one(acc, en, name, start, k, base, ("torn", m))
            if power:
                for rel in dirty:
                    for kind in ("zero", "missing"):
                        _crash_one(acc, en, name, start, k, base, (kind, rel))
    finally:
        en.close()
    return acc


def run(ctx):
    q = ctx.quick
    if not q:
        os.environ["VERIF_C09_GIT"] = "1"
    names = QUICK_OPS if q else sorted(OPS)
    tasks = [(n, s, False) for n in names for s in ("loose", "packed")]
    # power-loss model only where the statement has it: fsync of object files enabled
    pl = ["add_object x3", "WorkTree.commit", "add_objects", "add_thin_pack"] if q else ["add_object x3", "WorkTree.commit", "add_objects", "add_thin_pack",
                                                                       "pack_loose_objects", "repack", "local push (receive)", "porcelain.add"]
    tasks += [(n, "loose+fsync", True) for n in pl]
    if not q:
        # histories of two operations: the first has completed, the process is killed inside the second
        firsts = [n for n in sorted(OPS) if n not in ("porcelain.fetch",)]
        tasks += [(n2, "%s after %s" % (s, n1), False) for n1 in firsts for n2 in sorted(OPS) for s in ("loose", "packed")]
    pmap_acc(work, ctx.order(tasks), ctx.acc, jobs=ctx.jobs)
    n = ctx.acc.n
    ctx.level = "fault_enumeration"
    ctx.coverage.update(
        evaluations=n.get("crash_points", 0) + n.get("power_loss_variants", 0) + n.get("torn_write_variants", 0),
        distinct_nontrivial=len(ctx.acc.classes),
        rule="E2: for each of %d operations x {loose, packed} start states, the process is killed before each mutating system call "
             "(open-for-write, raw write(2), fsync, rename/replace, unlink, mkdir, rmdir, chmod, utime, link) in turn; buffered data is lost, "
             "completed writes survive; recovery predicate evaluated with fresh dulwich objects. With core.fsyncObjectFiles=true: every "
             "unsynced file at the crash point additionally zero-length / missing (one file at a time, ordered metadata). "
             "distinct_nontrivial = distinct (operation, recovered-as old|new|intermediate) classes." % len(names),
        exhaustive=True,
        scenarios=n.get("scenarios", 0),
        crash_points=n.get("crash_points", 0),
        power_loss_variants=n.get("power_loss_variants", 0),
        torn_write_variants=n.get("torn_write_variants", 0),
    )
    ctx.assumptions += [
        "process-crash model: a system call either happened completely or not at all, except that the write(2) the kill lands in "
        "may have written a prefix (its first byte / its first half are enumerated)",
        "power-loss model: metadata operations persist in order; data not fsynced may be missing or zero-length, one file at a time",
        "leftover lock/temp files that merely block later writers are a liveness matter outside the statement",
        "tempfile names made deterministic (tempfile._name_sequence) so that step numbering is stable",
    ]


def replay(ctx, obj):
    import sys

    from engines.common import replay_generic

    return replay_generic(sys.modules[__name__], ctx, obj)
