"""C07 — lock files: mutual exclusion and all-or-nothing replacement.

(1) E1 schedules: 2–3 actors run real GitFile programs (open; write*; close|abort) on the same
    path, every interleaving at system-call granularity up to the preemption bound, with the
    lock-protocol invariants of engines/lockinv.py evaluated at every point.
(2) E1 schedules with real dulwich writers contending for the same protected file.
(3) E2 fault enumeration: every interposed mutating call inside every lock-protocol writer is made
    to raise ENOSPC/EIO/EPERM/KeyboardInterrupt; afterwards the target must be the complete old or
    complete new content, the lock released, and the error propagated.
"""

from __future__ import annotations

import itertools
import os

from engines.common import Acc, HarnessError, pmap_acc, rp
from engines import sysched
from engines.lockinv import LockInvariants, _read

INITIAL = b"initial-content\n"


def payload(actor, rnd):
    return (b"actor%d-round%d|" % (actor, rnd)) * 3 + b"\n"


class GitFileScenario(sysched.Scenario):
    """programs[i] = list of rounds; a round = (n_writes, how, bufsize) with how in close|abort."""

    def __init__(self, programs):
        self.programs = programs
        self.nactors = len(programs)
        self.name = "gitfile:" + "|".join(
            ",".join("%dw%s%s" % (n, how[0], "u" if buf == 0 else "") for n, how, buf in prog) for prog in programs
        )

    def setup(self, root):
        with open(os.path.join(root, "f"), "wb") as f:
            f.write(INITIAL)

    def begin(self, ex, ctl, root):
        ex.extra["inv"] = LockInvariants(root, [os.path.join(root, "f")])

    def actor(self, i, root, rec):
        from dulwich.file import FileLocked, GitFile

        path = os.path.join(root, "f")
        inv = None
        for rnd, (nw, how, buf) in enumerate(self.programs[i]):
            data = payload(i, rnd)
            try:
                f = GitFile(path, "wb", bufsize=buf)
            except FileLocked:
                rec("locked", rnd)
                continue
            rec("acquired", rnd)
            inv = rec.ex.extra["inv"]
            inv.intended[i] = (data if nw else b"") if how == "close" else None
            try:
                if nw:
                    step = (len(data) + nw - 1) // nw
                    for k in range(0, len(data), step):
                        f.write(data[k : k + step])
                if how == "close":
                    f.close()
                    rec("closed", rnd)
                else:
                    f.abort()
                    rec("aborted", rnd)
            except Exception as e:
                rec("release-exc", "%s %s: %s" % (how, type(e).__name__, str(e).replace(root, "<root>")))
            inv.gave_up(i)
        return None

    def after_op(self, ex, ctl, actor, op, path, info, res, root):
        ex.extra["inv"].after_op(actor, op, path, info, res)

    def on_point(self, ex, ctl, actor, op, path, root):
        inv = ex.extra["inv"]
        inv.at_point()
        v = inv.drain()
        for x in v[1:]:
            ex.point_viol.append(x)
        return v[0] if v else None

    def check(self, ex, root):
        inv = ex.extra["inv"]
        inv.at_point()
        out = inv.drain()
        tgt = os.path.join(root, "f")
        final = _read(tgt)
        if os.path.exists(tgt + ".lock"):
            out.append(("lock:left-behind", "f.lock exists after all actors finished"))
        # final content: that of the last successful commit (or the initial content)
        commits = [(a, c) for a, p, c in inv.installs if p == tgt]
        want = commits[-1][1] if commits else INITIAL
        if final != want:
            out.append(("file:final-content-wrong", "final %r, expected %r" % (final, want)))
        nwrit = sum(1 for nw, how, buf in self.programs[0] if how == "close")
        for a, kind, pl, _ in ex.history:
            if kind == "release-exc":
                out.append(("lock:release-failed-without-fault", "actor %d: %s" % (a, pl)))
        closed = sum(1 for a, kind, pl, _ in ex.history if kind == "closed")
        if closed != len(commits):
            out.append(("lock:commit-count-mismatch", "%d close() returned normally but %d renames installed content" % (closed, len(commits))))
        # outcome class for vacuity statistics
        ex.extra["outcome"] = "%s/final=%s" % (
            ",".join("%d%s" % (a, k[0]) for a, k, _, _ in ex.history if k in ("locked", "closed", "aborted", "release-exc")),
            "init" if final == INITIAL else (final[:13].decode() if isinstance(final, bytes) else str(final)),
        )
        return out


def gitfile_programs(quick):
    rounds1 = [(1, "close", -1), (2, "close", 0), (1, "abort", -1), (0, "close", -1), (2, "abort", 0)]
    out = []
    # 2 actors x 1 round: all pairs
    for a, b in itertools.product(rounds1, repeat=2):
        out.append(([a], [b], 3 if quick else 5))
    # 2 actors, first has 2 rounds (re-acquisition is what the third-acquisition race needs)
    two = [(1, "close", -1), (1, "abort", -1)]
    for a1, a2, b in itertools.product(two, two, rounds1[:3]):
        out.append(([a1, a2], [b], 3 if quick else 4))
    for a1, a2, b1, b2 in itertools.product(two, repeat=4):
        out.append(([a1, a2], [b1, b2], 2 if quick else 3))
    # 3 actors x 1 round
    for a, b, c in itertools.product(two, repeat=3):
        out.append(([a], [b], [c], 2 if quick else 3))
    return out


def work_sched(task):
    acc = Acc()
    for item in task:
        *programs, bound = item
        sc = GitFileScenario(programs)
        st = sysched.explore_scenario(sc, bound)
        _absorb(acc, st, ("gitfile", programs, bound))
    return acc


def _absorb(acc, st, desc):
    acc.count("scenarios")
    acc.count("executions", st["executions"])
    acc.count("points", st["points_total"])
    for k, v in st["per_preemptions"].items():
        acc.count("executions_with_%d_preemptions" % k, v)
    for oc, n in st["outcomes"].items():
        acc.outcome(oc, n)
    if st["uninterposed"]:
        raise HarnessError("uninterposed file-system access in %s: %r" % (st["scenario"], st["uninterposed"]))
    if st["capped"]:
        acc.count("capped_scenarios")
    acc.sample({"scenario": st["scenario"], "bound": st["bound"], "executions": st["executions"],
                "per_preemptions": st["per_preemptions"], "max_points": st["max_points"]}, cap=3)
    for v in st["violations"]:
        acc.violation(v["key"], "%s: %s [schedule %s, %d schedule(s)]" % (st["scenario"], v["summary"], v["choices"], v["count"]),
                      rp("case_replay_schedule", list(desc), v["choices"]))


def case_replay_schedule(acc, desc, choices):
    kind = desc[0]
    if kind == "gitfile":
        sc = GitFileScenario([[tuple(r) for r in p] for p in desc[1]])
    elif kind == "writers":
        sc = WritersScenario(desc[1])
    else:
        raise HarnessError("unknown scenario kind %r" % (kind,))
    exp = sysched.Explorer(sc, 99)
    try:
        ex, viol = exp.replay(choices)
        for key, summary in viol:
            acc.violation(key, "%s: %s trace=%r" % (sc.name, summary, ex.trace))
    finally:
        exp.close()


def run(ctx):
    from engines.common import split

    progs = gitfile_programs(ctx.quick)
    tasks = split(ctx.order(progs), ctx.jobs * 3)
    pmap_acc(work_sched, tasks, ctx.acc, jobs=ctx.jobs)
    wb = 2 if ctx.quick else 3
    wtasks = [(p, wb) for p in WRITER_PAIRS] + [(t, 1 if ctx.quick else 2) for t in WRITER_TRIPLES]
    pmap_acc(work_writers, ctx.order(wtasks), ctx.acc, jobs=ctx.jobs)
    pmap_acc(work_process_exit, [[b] for b in sorted(_B_PROGRAMS)], ctx.acc, jobs=ctx.jobs)
    tla_conformance(ctx)
    kinds = ["ENOSPC", "EIO", "EPERM", "KeyboardInterrupt"]
    ftasks = [(name, kinds, not ctx.quick) for name in ctx.order(sorted(FAULT_SCENARIOS))]
    pmap_acc(work_faults, ftasks, ctx.acc, jobs=ctx.jobs)
    n = ctx.acc.n
    ctx.level = "model_checking"
    ctx.coverage.update(
        states=n.get("points", 0),
        transitions=n.get("points", 0),
        traces_validated_against_impl=n.get("executions", 0) + n.get("tla_transitions_validated_against_impl", 0),
        tla_model={"file": "models/LockFile.tla", "states": n.get("tla_states", 0), "transitions": n.get("tla_transitions", 0),
                   "transitions_replayed_on_implementation": n.get("tla_transitions_validated_against_impl", 0)},
        evaluations=n.get("executions", 0),
        distinct_nontrivial=len(ctx.acc.classes),
        rule="E1: every interleaving at system-call granularity with <= bound preemptions of real GitFile programs; "
             "states/transitions = scheduling points visited (stateless search: one state per point per execution); "
             "every execution runs the real implementation, so traces validated = executions. "
             "distinct_nontrivial = distinct observed outcome vectors (who got FileLocked / closed / aborted, final content).",
        exhaustive=not n.get("capped_scenarios"),
        bounds={"preemptions": "GitFile programs: 2 actors x 1 round <=3 (quick) / <=5 (thorough); 2 actors x 2 rounds <=2-3 / <=3-4; "
                               "3 actors <=2 / <=3; real writer pairs <=2 / <=3, triples <=1 / <=2",
                "fault_deviations": 1 if ctx.quick else 2},
    )
    ctx.assumptions += [
        "actors are processes sharing only the file system; system calls are atomic and sequentially consistent",
        "reads/writes through an already open fd of a private lock file are not scheduling points (they commute)",
        "tmpfs; inode numbers pinned within an execution",
    ]


def replay(ctx, obj):
    import sys

    from engines.common import replay_generic

    return replay_generic(sys.modules[__name__], ctx, obj)


# =========================================================================== (3) fault enumeration

from engines import crashfs  # noqa: E402


def _mkrepo(root):
    """Small non-bare repository with loose + packed refs, an index, a config and a commit."""
    from dulwich.objects import Blob, Commit, Tree
    from dulwich.repo import Repo

    p = os.path.join(root, "wt")
    os.mkdir(p)
    r = Repo.init(p)
    b = Blob.from_string(b"hello\n")
    t = Tree()
    t.add(b"a", 0o100644, b.id)
    c = Commit()
    c.tree = t.id
    c.author = c.committer = b"A <a@example.com>"
    c.author_time = c.commit_time = 1000000000
    c.author_timezone = c.commit_timezone = 0
    c.message = b"one\n"
    c2 = Commit()
    c2.tree = t.id
    c2.parents = [c.id]
    c2.author = c2.committer = b"A <a@example.com>"
    c2.author_time = c2.commit_time = 1000000100
    c2.author_timezone = c2.commit_timezone = 0
    c2.message = b"two\n"
    for o in (b, t, c, c2):
        r.object_store.add_object(o)
    r.refs[b"refs/heads/master"] = c.id
    r.refs[b"refs/heads/packed"] = c.id
    r.refs[b"refs/heads/both"] = c.id
    r.refs.pack_refs(all=True)
    r.refs[b"refs/heads/both"] = c2.id
    r.refs[b"refs/heads/loose"] = c.id
    idx = r.open_index()
    from dulwich.index import IndexEntry

    for name in (b"a", b"b/c", b"d"):
        idx[name] = IndexEntry(
            ctime=(1000000000, 0), mtime=(1000000000, 0), dev=1, ino=2, mode=0o100644, uid=0, gid=0,
            size=6, sha=b.id, flags=0, extended_flags=0,
        )
    idx.write()
    r.close()
    with open(os.path.join(root, "ids"), "w") as f:
        f.write("%s %s %s %s" % (b.id.decode(), t.id.decode(), c.id.decode(), c2.id.decode()))


def _ids(root):
    with open(os.path.join(root, "ids")) as f:
        return [x.encode() for x in f.read().split()]


def _refs(root):
    from dulwich.refs import DiskRefsContainer

    return DiskRefsContainer(os.path.join(root, "wt", ".git"))


def op_gitfile_with(root):
    from dulwich.file import GitFile

    with GitFile(os.path.join(root, "wt", ".git", "description"), "wb") as f:
        f.write(b"x" * 5000)
        f.write(b"y" * 9000)  # larger than the buffer: raw writes happen before close
        f.write(b"z\n")


def op_gitfile_close(root):
    from dulwich.file import GitFile

    f = GitFile(os.path.join(root, "wt", ".git", "description"), "wb")
    try:
        f.write(b"new description\n")
    except BaseException:
        f.abort()
        raise
    f.close()


def op_index_write(root):
    from dulwich.index import Index, IndexEntry

    idx = Index(os.path.join(root, "wt", ".git", "index"))
    e = idx[b"a"]
    for i in range(300):  # > 8 KiB of entries so that raw writes precede the final flush
        idx[b"dir/file%04d" % i] = e
    idx.write()


def op_index_write_trailer_on_device(root):
    """An index sized so that the 20-byte checksum trailer does not fit into what is left of the write
    buffer: the write() of the trailer itself hits the device (and can fail), not the final flush."""
    import io

    from dulwich.index import Index, IndexEntry, write_index_dict

    path = os.path.join(root, "wt", ".git", "index")
    blk = getattr(os.stat(os.path.dirname(path)), "st_blksize", 4096) or 4096
    idx = Index(path)
    e = idx[b"a"]
    for i in range(40):
        idx[b"dir/file%04d" % i] = e
    for pad in range(1, 4200):
        name = b"pad/" + b"x" * pad
        idx[name] = e
        buf = io.BytesIO()
        write_index_dict(buf, dict(idx._byname), version=idx._version)
        if blk - 20 < buf.tell() % blk:
            break
        del idx[name]
    else:
        raise HarnessError("could not size the index so that its trailer straddles the write buffer")
    idx.write()


def op_locked_index(root):
    from dulwich.index import locked_index

    with locked_index(os.path.join(root, "wt", ".git", "index")) as idx:
        e = idx[b"a"]
        for i in range(300):
            idx[b"dir/file%04d" % i] = e


def op_locked_index_trailer_on_device(root):
    import io

    from dulwich.index import locked_index, write_index_dict

    path = os.path.join(root, "wt", ".git", "index")
    blk = getattr(os.stat(os.path.dirname(path)), "st_blksize", 4096) or 4096
    with locked_index(path) as idx:
        e = idx[b"a"]
        for i in range(40):
            idx[b"dir/file%04d" % i] = e
        for pad in range(1, 4200):
            name = b"pad/" + b"x" * pad
            idx[name] = e
            buf = io.BytesIO()
            write_index_dict(buf, dict(idx._byname))
            if blk - 20 < buf.tell() % blk:
                break
            del idx[name]
        else:
            raise HarnessError("could not size the index so that its trailer straddles the write buffer")


def _mkrepo_shared(root):
    _mkrepo(root)
    from dulwich.config import ConfigFile

    path = os.path.join(root, "wt", ".git", "config")
    cf = ConfigFile.from_path(path)
    cf.set((b"core",), b"sharedRepository", b"group")
    cf.write_to_path(path)


def op_shallow_shared(root):
    old = os.umask(0o022)  # files are created 0644, "group" asks for 0664: a chmod is needed
    try:
        return op_shallow(root)
    finally:
        os.umask(old)


def op_set_if_equals(root):
    b, t, c, c2 = _ids(root)
    return _refs(root).set_if_equals(b"refs/heads/master", c, c2)


def op_set_packed_ref(root):
    b, t, c, c2 = _ids(root)
    return _refs(root).set_if_equals(b"refs/heads/packed", c, c2)


def op_add_if_new(root):
    b, t, c, c2 = _ids(root)
    return _refs(root).add_if_new(b"refs/heads/new/deep", c2)


def op_remove_loose(root):
    b, t, c, c2 = _ids(root)
    return _refs(root).remove_if_equals(b"refs/heads/loose", c)


def op_remove_both(root):
    b, t, c, c2 = _ids(root)
    return _refs(root).remove_if_equals(b"refs/heads/both", c2)


def op_remove_packed(root):
    b, t, c, c2 = _ids(root)
    return _refs(root).remove_if_equals(b"refs/heads/packed", c)


def op_set_symbolic(root):
    return _refs(root).set_symbolic_ref(b"HEAD", b"refs/heads/loose")


def op_pack_refs(root):
    return _refs(root).pack_refs(all=True)


def op_add_packed_refs(root):
    b, t, c, c2 = _ids(root)
    return _refs(root).add_packed_refs({b"refs/heads/loose": c, b"refs/heads/packed": None})


def op_config_write(root):
    from dulwich.config import ConfigFile

    path = os.path.join(root, "wt", ".git", "config")
    cf = ConfigFile.from_path(path)
    for i in range(400):
        cf.set((b"section%d" % i,), b"key", b"value-%d" % i)
    cf.write_to_path(path)


def op_add_object(root):
    from dulwich.object_store import DiskObjectStore
    from dulwich.objects import Blob

    s = DiskObjectStore(os.path.join(root, "wt", ".git", "objects"))
    try:
        s.add_object(Blob.from_string(bytes(range(256)) * 200))
    finally:
        s.close()


def op_add_objects_pack(root):
    from dulwich.object_store import DiskObjectStore
    from dulwich.objects import Blob

    s = DiskObjectStore(os.path.join(root, "wt", ".git", "objects"))
    try:
        s.add_objects([(Blob.from_string(b"packed-%d\n" % i), None) for i in range(3)])
    finally:
        s.close()


def op_commit_graph(root):
    from dulwich.repo import Repo

    r = Repo(os.path.join(root, "wt"))
    try:
        r.object_store.write_commit_graph()
    finally:
        r.close()


def op_alternates(root):
    from dulwich.object_store import DiskObjectStore

    alt = os.path.join(root, "alt-objects")
    s = DiskObjectStore(os.path.join(root, "wt", ".git", "objects"))
    try:
        s.add_alternate_path(alt)
    finally:
        s.close()


def op_shallow(root):
    from dulwich.repo import Repo

    b, t, c, c2 = _ids(root)
    r = Repo(os.path.join(root, "wt"))
    try:
        r.update_shallow({c2}, None)
    finally:
        r.close()


def _setup_alt(root):
    _mkrepo(root)
    os.makedirs(os.path.join(root, "alt-objects", "pack"))
    os.makedirs(os.path.join(root, "alt-objects", "info"))


FAULT_SCENARIOS = {
    "GitFile.with": (_mkrepo, op_gitfile_with),
    "GitFile.close": (_mkrepo, op_gitfile_close),
    "Index.write": (_mkrepo, op_index_write),
    "Index.write(trailer write hits the device)": (_mkrepo, op_index_write_trailer_on_device),
    "Repo.update_shallow(sharedRepository)": (_mkrepo_shared, op_shallow_shared),
    "locked_index": (_mkrepo, op_locked_index),
    "locked_index(trailer write hits the device)": (_mkrepo, op_locked_index_trailer_on_device),
    "refs.set_if_equals": (_mkrepo, op_set_if_equals),
    "refs.set_if_equals(packed)": (_mkrepo, op_set_packed_ref),
    "refs.add_if_new": (_mkrepo, op_add_if_new),
    "refs.remove_if_equals(loose)": (_mkrepo, op_remove_loose),
    "refs.remove_if_equals(loose+packed)": (_mkrepo, op_remove_both),
    "refs.remove_if_equals(packed)": (_mkrepo, op_remove_packed),
    "refs.set_symbolic_ref": (_mkrepo, op_set_symbolic),
    "refs.pack_refs": (_mkrepo, op_pack_refs),
    "refs.add_packed_refs": (_mkrepo, op_add_packed_refs),
    "ConfigFile.write_to_path": (_mkrepo, op_config_write),
    "DiskObjectStore.add_object": (_mkrepo, op_add_object),
    "DiskObjectStore.add_objects(pack+idx)": (_mkrepo, op_add_objects_pack),
    "write_commit_graph": (_mkrepo, op_commit_graph),
    "add_alternate_path": (_setup_alt, op_alternates),
    "Repo.update_shallow": (_mkrepo, op_shallow),
}


def _site_ok(op, rel, info):
    # Being unable to unlink the lock file itself cannot leave the lock released: not demanded.
    if op in ("remove",) and rel.endswith(".lock"):
        return False
    return True


def _is_temp(rel):
    base = os.path.basename(rel)
    return base.startswith("tmp") or ".tmp" in base or base.startswith(".tmp")


def _judge_fault(name, old, new, now, outcome, fault_desc, protected=None, failed_write_of=None):
    """Statement clauses: protected files are whole-old or whole-new; lock released; a write
    reported as successful really happened; a write that fails leaves the old content in place
    (failed_write_of: protected file whose own write protocol received the OSError)."""
    out = []
    if failed_write_of is not None and outcome[0] == "exc" and now.get(failed_write_of) != old.get(failed_write_of):
        out.append(("fault:%s:failed-write-replaced-the-target" % name,
                    "%s: %s propagated to the caller after %s, yet %s already has its new content" % (
                        name, outcome[1].split(":")[0], fault_desc, failed_write_of)))
    for rel in sorted(set(old) | set(new) | set(now)):
        o, n, c = old.get(rel), new.get(rel), now.get(rel)
        if rel.endswith(".lock"):
            if c is not None:
                out.append(("fault:%s:lock-left-behind" % name, "%s still exists after %s (outcome %s)" % (rel, fault_desc, outcome[0])))
            continue
        if c == o or c == n:
            continue
        if o is None and n is None and _is_temp(rel):
            continue  # leftover temp file nobody reads
        out.append(("fault:%s:torn-or-foreign-content" % name,
                    "%s is neither the old (%s) nor the new (%s) content after %s: %s" % (
                        rel, _d(o), _d(n), fault_desc, _d(c))))
    if outcome[0] == "ok":
        # the operation claims success although a step failed: then everything must be new
        for rel in sorted(set(new) | set(old)):
            if rel.endswith(".lock") or _is_temp(rel):
                continue
            if protected is not None and rel not in protected:
                # best-effort clean-up of files outside the lock protocol (e.g. pruning a loose ref
                # that has just been packed with the same value) may be skipped silently
                continue
            if now.get(rel) != new.get(rel) and old.get(rel) != new.get(rel):
                out.append(("fault:%s:success-reported-but-write-lost" % name,
                            "%s: operation returned normally after %s but %s still has its old content" % (name, fault_desc, rel)))
                break
    return out


def _d(x):
    if x is None:
        return "absent"
    if isinstance(x, bytes):
        return "%d bytes %r" % (len(x), x[:24])
    return repr(x)


def _protected(steps):
    """Files the fault-free run really (re)writes through the lock protocol: X such that X.lock is
    created and later renamed onto X.  A lock taken only to guard a best-effort clean-up (pruning a
    loose ref that has just been packed with the same value) does not make X a protected write."""
    locks = {s[1][: -len(".lock")] for s in steps if s[0] == "open_w" and s[1].endswith(".lock")}
    return {s[1] for s in steps if s[0] in ("replace", "rename") and s[1] in locks}


def case_fault(acc, name, idx, kind, idx2=None):
    setup, op = FAULT_SCENARIOS[name]
    en = crashfs.Enumerator(setup)
    try:
        _fault_one(acc, en, name, op, idx, kind, idx2)
    finally:
        en.close()


def _baseline(en, op):
    root = en.fresh()
    old = crashfs.snapshot(root)
    ctl, outcome = crashfs.run_op(root, op, site_filter=_site_ok, all_ops=True)
    if outcome[0] != "ok":
        raise HarnessError("fault-free run of the operation failed: %r" % (outcome,))
    new = crashfs.snapshot(root)
    return old, new, list(ctl.steps)


def _fault_one(acc, en, name, op, idx, kind, idx2=None, base=None):
    old, new, steps = base or _baseline(en, op)
    root = en.fresh()
    protected = _protected(steps)
    seen_bad = []

    def probe(ctl, op_, rel_):
        # a reader between any two system calls of the failure handling sees whole-old or whole-new
        for rel in protected:
            c = _read(os.path.join(root, rel))
            if c != old.get(rel) and c != new.get(rel) and not seen_bad:
                seen_bad.append((rel, c, op_, rel_))

    ctl, outcome = crashfs.run_op(root, op, probe=probe, fault_at=idx, fault_kind=kind, site_filter=_site_ok, second_fault_at=idx2, all_ops=True)
    if not ctl.injected:
        raise HarnessError("fault site %d not reached in %s" % (idx, name))
    now = crashfs.snapshot(root)
    site = steps[idx] if idx < len(steps) else ("?", "?", None)
    desc = "%s at step %d (%s %s)%s" % (kind, idx, site[0], site[1], "" if idx2 is None else " and step %d" % idx2)
    if seen_bad:
        rel, c, op_, rel_ = seen_bad[0]
        acc.violation("fault:%s:reader-sees-neither-old-nor-new-during-failure-handling" % name,
                      "after %s, before the next call (%s %s), %s is %s (old %s, new %s)" % (desc, op_, rel_, rel, _d(c), _d(old.get(rel)), _d(new.get(rel))),
                      rp(case_fault, name, idx, kind, idx2))
    if ctl.locks_at_raise:
        acc.violation("fault:%s:lock-still-held-when-error-reaches-caller" % name,
                      "%s propagated out of %s while %r still exist(s); a retry by the caller fails with FileLocked" % (
                          outcome[1].split(":")[0], name, ctl.locks_at_raise) + " [" + desc + "]",
                      rp(case_fault, name, idx, kind, idx2))
    acc.count("fault_executions")
    acc.outcome("fault:%s:%s:%s" % (name, site[0], outcome[0] if outcome[0] != "exc" else "exc:" + outcome[1].split(":")[0]))
    failed_write_of = None
    if kind != "KeyboardInterrupt" and idx2 is None and idx < len(steps):
        tgt = site[1][: -len(".lock")] if site[1].endswith(".lock") else site[1]
        if tgt in protected:
            failed_write_of = tgt
    for key, summary in _judge_fault(name, old, new, now, outcome, desc, protected, failed_write_of):
        acc.violation(key, summary, rp(case_fault, name, idx, kind, idx2))


def work_faults(task):
    acc = Acc()
    name, kinds, depth2 = task
    setup, op = FAULT_SCENARIOS[name]
    en = crashfs.Enumerator(setup)
    try:
        base = _baseline(en, op)
        steps = base[2]
        acc.count("fault_scenarios")
        acc.count("fault_sites", len(steps))
        acc.sample({"fault_scenario": name, "mutating_steps": [list(s) for s in steps][:12], "n_steps": len(steps)}, cap=4)
        if base[0] == base[1]:
            raise HarnessError("operation %s changed nothing: vacuous scenario" % name)
        from engines import fsint as _fs

        for i in range(len(steps)):
            # OSError faults where the statement puts them (mutating calls); an asynchronous
            # KeyboardInterrupt can land before any call, reads included
            for kind in (kinds if steps[i][0] in _fs.MUTATING else ["KeyboardInterrupt"]):
                _fault_one(acc, en, name, op, i, kind, None, base)
        if depth2:
            for i in range(len(steps)):
                if steps[i][0] not in _fs.MUTATING:
                    continue
                # second fault: any later site of the *faulted* run (clean-up path); discover by index
                for j in range(i + 1, i + 6):
                    root = en.fresh()
                    ctl, outcome = crashfs.run_op(root, op, fault_at=i, fault_kind="EIO", site_filter=_site_ok, second_fault_at=j, all_ops=True)
                    if len(ctl.steps) > j and ctl.steps[j][0] not in _fs.MUTATING:
                        continue
                    if len(ctl.steps) <= j:
                        break
                    now = crashfs.snapshot(root)
                    acc.count("fault_executions")
                    acc.count("double_fault_executions")
                    desc = "EIO at step %d (%s %s) and at step %d (%s %s)" % (i, steps[i][0], steps[i][1], j, ctl.steps[j][0], ctl.steps[j][1])
                    protected = _protected(steps)
                    viol = _judge_fault(name, base[0], base[1], now, outcome, desc, protected)
                    # a second fault on the unlink of the lock is filtered by _site_ok; anything else must still hold
                    for key, summary in viol:
                        acc.violation(key + ":double-fault", summary, rp(case_fault, name, i, "EIO", j))
    finally:
        en.close()
    return acc


# =========================================================================== (2) real writers racing


def _readable(root):
    """None, or (file, why) if a fresh reader cannot load one of the protected files."""
    from dulwich.config import ConfigFile
    from dulwich.index import Index
    from dulwich.refs import DiskRefsContainer

    g = os.path.join(root, "wt", ".git")
    steps = [
        ("packed-refs/refs", lambda: dict(DiskRefsContainer(g).as_dict())),
        ("packed-refs", lambda: DiskRefsContainer(g).get_packed_refs()),
        ("index", lambda: Index(os.path.join(g, "index"))),
        ("config", lambda: ConfigFile.from_path(os.path.join(g, "config"))),
    ]
    for what, fn in steps:
        try:
            fn()
        except BaseException as e:  # StopIteration from an empty packed-refs included
            return what, "%s: %s" % (type(e).__name__, str(e)[:100])
    for rel in ("shallow", "description", os.path.join("objects", "info", "alternates")):
        p = os.path.join(g, rel)
        if os.path.exists(p) and os.path.getsize(p) == 0:
            return rel, "zero-length file"
    return None


class WritersScenario(sysched.Scenario):
    """Real dulwich writers (ops from FAULT_SCENARIOS) racing on one repository."""

    def __init__(self, names):
        self.names = list(names)
        self.nactors = len(names)
        self.name = "writers:" + "|".join(names)

    def setup(self, root):
        _setup_alt(root)

    def begin(self, ex, ctl, root):
        ex.extra["inv"] = LockInvariants(root)

    def actor(self, i, root, rec):
        from dulwich.file import FileLocked

        try:
            v = FAULT_SCENARIOS[self.names[i]][1](root)
            rec("ok", repr(v))
        except FileLocked:
            rec("locked")
        except Exception as e:
            rec("exc", "%s: %s" % (type(e).__name__, str(e).replace(root, "<root>")[:120]))
        finally:
            rec.ex.extra["inv"].gave_up(i)

    def after_op(self, ex, ctl, actor, op, path, info, res, root):
        ex.extra["inv"].after_op(actor, op, path, info, res)

    def on_point(self, ex, ctl, actor, op, path, root):
        inv = ex.extra["inv"]
        inv.at_point()
        v = inv.drain()
        for x in v[1:]:
            ex.point_viol.append(x)
        return v[0] if v else None

    def check(self, ex, root):
        inv = ex.extra["inv"]
        inv.at_point()
        out = inv.drain()
        for d, _, files in os.walk(root):
            for f in files:
                if f.endswith(".lock"):
                    out.append(("lock:left-behind", "%s exists after all writers finished" % os.path.relpath(os.path.join(d, f), root)))
        # all-or-nothing replacement: whatever the writers did, every protected file is a complete file of
        # its kind afterwards (a fresh reader can load it).  NOT demanded: equality with a sequential run —
        # a writer that lost the race for a lock is a no-op and a packer may skip a ref that is being deleted,
        # so non-sequential but perfectly valid contents exist (lost updates are property C08's business).
        why = _readable(root)
        if why:
            out.append(("writers:%s:unreadable-after-race" % why[0], "%s after %s: %s" % (why[0], " || ".join(self.names), why[1])))
        ex.extra["outcome"] = ",".join("%d:%s" % (a, k if k != "exc" else "exc:" + (pl or "").split(":")[0]) for a, k, pl, _ in ex.history)
        return out


WRITER_PAIRS = [
    ("Index.write", "Index.write"),
    ("refs.set_if_equals", "refs.set_if_equals"),
    ("refs.set_if_equals(packed)", "refs.pack_refs"),
    ("refs.remove_if_equals(loose+packed)", "refs.pack_refs"),
    ("refs.remove_if_equals(packed)", "refs.set_if_equals(packed)"),
    ("refs.remove_if_equals(packed)", "refs.remove_if_equals(packed)"),
    ("refs.remove_if_equals(packed)", "refs.add_packed_refs"),
    ("refs.remove_if_equals(loose+packed)", "refs.remove_if_equals(loose+packed)"),
    ("refs.add_packed_refs", "refs.pack_refs"),
    ("refs.set_symbolic_ref", "refs.set_symbolic_ref"),
    ("ConfigFile.write_to_path", "ConfigFile.write_to_path"),
    ("DiskObjectStore.add_object", "DiskObjectStore.add_object"),
    ("add_alternate_path", "add_alternate_path"),
    ("Repo.update_shallow", "Repo.update_shallow"),
    ("GitFile.with", "GitFile.close"),
]
WRITER_TRIPLES = [
    ("refs.set_if_equals", "refs.set_if_equals", "refs.set_if_equals"),
    ("refs.pack_refs", "refs.remove_if_equals(packed)", "refs.set_if_equals(packed)"),
    ("GitFile.close", "GitFile.close", "GitFile.with"),
]


def work_writers(task):
    acc = Acc()
    names, bound = task
    sc = WritersScenario(names)
    st = sysched.explore_scenario(sc, bound)
    _absorb(acc, st, ("writers", list(names), bound))
    return acc


# =========================================================================== (4) real process exit

import subprocess  # noqa: E402
import sys as _sys  # noqa: E402

_B_PROGRAMS = {
    "tries-same-lock-then-exits": "try:\n    GitFile(p, 'wb')\nexcept FileLocked:\n    pass\n",
    "tries-same-lock-unhandled-exception": "GitFile(p, 'wb')\n",
    "tries-same-lock-sys-exit-1": "try:\n    GitFile(p, 'wb')\nexcept FileLocked:\n    sys.exit(1)\n",
    "writes-other-file-closes": "f = GitFile(p + '2', 'wb'); f.write(b'other'); f.close()\n",
    "writes-other-file-aborts": "f = GitFile(p + '2', 'wb'); f.write(b'other'); f.abort()\n",
    "reads-target": "open(p, 'rb').read()\n",
}


def case_process_exit(acc, bname):
    """Actor A (this process) holds the lock on a file while actor B — a real OS process, so that
    interpreter-exit handlers run — executes a short program and terminates.  Releasing, failing to
    obtain, or merely exiting must not disturb A's lock."""
    from dulwich.file import GitFile
    from engines.common import REPO, fresh_dir, rmtree

    d = fresh_dir("px")
    try:
        p = os.path.join(d, "f")
        with open(p, "wb") as f:
            f.write(INITIAL)
        a = GitFile(p, "wb")
        a.write(b"from-A\n")
        ino = os.lstat(p + ".lock").st_ino
        script = "import sys\nsys.path.insert(0, %r)\nfrom dulwich.file import GitFile, FileLocked\np = %r\n%s" % (REPO, p, _B_PROGRAMS[bname])
        r = subprocess.run([_sys.executable, "-c", script], capture_output=True, timeout=60,
                           env={"PATH": os.environ.get("PATH", ""), "PYTHONHASHSEED": "0", "PYTHONDONTWRITEBYTECODE": "1"})
        acc.count("process_exit_cases")
        acc.outcome("process-exit:%s:rc=%d" % (bname, r.returncode))
        try:
            st = os.lstat(p + ".lock")
        except FileNotFoundError:
            st = None
        if st is None or st.st_ino != ino:
            acc.violation("process-exit:lock-of-another-process-removed",
                          "B (%s) terminated (rc=%d) and A's lock file %s" % (bname, r.returncode, "is gone" if st is None else "was replaced"),
                          rp(case_process_exit, bname))
        try:
            a.close()
            ok = _read(p) == b"from-A\n"
            why = "content %r" % _read(p)
        except Exception as e:
            ok = False
            why = "%s: %s" % (type(e).__name__, e)
        if not ok:
            acc.violation("process-exit:holder-cannot-commit", "after B (%s) terminated, A.close(): %s" % (bname, why.replace(d, "<d>")),
                          rp(case_process_exit, bname))
    finally:
        rmtree(d)


def work_process_exit(task):
    acc = Acc()
    for b in task:
        case_process_exit(acc, b)
    return acc


# =========================================================================== (5) TLA+ model, conformance-replayed

import re  # noqa: E402


def _parse_tlc_dot(text):
    """-> (init_id, {id: state dict}, [(src, label, dst)]) from TLC's `-dump dot,actionlabels` output."""
    states = {}
    edges = []
    init = None
    for m in re.finditer(r'^(-?\d+) \[label="((?:[^"\\]|\\.)*)"(,style = filled)?', text, re.M):
        sid, label, filled = m.group(1), m.group(2), m.group(3)
        lab = label.replace('\\n', '\n').replace('\\"', '"').replace('\\\\', '\\')
        st = {}
        st["lock"] = re.search(r"lock = (\w+)", lab).group(1)
        mm = re.search(r'last = <<(\w+), "(\w+)">>', lab)
        st["last"] = (mm.group(1), mm.group(2))
        st["round"] = {a: int(n) for a, n in re.findall(r"(a\d) :> (\d+)", re.search(r"round = \(([^)]*)\)", lab).group(1))}
        mm = re.search(r"content = (None|<<(a\d), (\d+)>>)", lab)
        st["content"] = None if mm.group(1) == "None" else (mm.group(2), int(mm.group(3)))
        st["pc"] = dict(re.findall(r'(a\d) :> "(\w+)"', re.search(r"pc = \(([^)]*)\)", lab).group(1)))
        states[sid] = st
        if filled:
            init = sid
    for m in re.finditer(r'^(-?\d+) -> (-?\d+) \[label="(\w+)\((a\d)\)"', text, re.M):
        edges.append((m.group(1), (m.group(3), m.group(4)), m.group(2)))
    return init, states, edges


class _LockImpl:
    """The real implementation driven at API-call granularity, with the abstraction function to model states."""

    def __init__(self, d, rounds):
        from dulwich.file import GitFile  # noqa: F401

        self.path = os.path.join(d, "f")
        with open(self.path, "wb") as f:
            f.write(INITIAL)
        self.handles = {}
        self.round = {}
        self.last = ("None", "init")

    def step(self, act, a):
        from dulwich.file import FileLocked, GitFile

        r = self.round.get(a, 0)
        if act == "Acquire":
            try:
                self.handles[a] = GitFile(self.path, "wb")
                self.last = (a, "acquired")
            except FileLocked:
                self.round[a] = r + 1
                self.last = (a, "locked")
        elif act == "Commit":
            f = self.handles.pop(a)
            f.write(b"payload-%s-%d\n" % (a.encode(), r))
            f.close()
            self.round[a] = r + 1
            self.last = (a, "committed")
        elif act == "Abort":
            f = self.handles.pop(a)
            f.write(b"discarded-%s-%d\n" % (a.encode(), r))
            f.abort()
            self.round[a] = r + 1
            self.last = (a, "aborted")

    def abstract(self, actors):
        with open(self.path, "rb") as f:
            raw = f.read()
        if raw == INITIAL:
            content = None
        else:
            m = re.fullmatch(rb"payload-(a\d)-(\d+)\n", raw)
            content = (m.group(1).decode(), int(m.group(2))) if m else ("?", raw[:30])
        lock_exists = os.path.exists(self.path + ".lock")
        holders = sorted(self.handles)
        lock = holders[0] if lock_exists and len(holders) == 1 else ("None" if not lock_exists and not holders else "INCONSISTENT lockfile=%s holders=%r" % (lock_exists, holders))
        return {"lock": lock, "last": self.last, "round": {a: self.round.get(a, 0) for a in actors}, "content": content,
                "pc": {a: ("holding" if a in self.handles else "idle") for a in actors}}

    def close(self):
        for f in self.handles.values():
            try:
                f.abort()
            except Exception:
                pass


def tla_conformance(ctx):
    """TLC explores the complete state graph of models/LockFile.tla (3 actors x 2 rounds, no preemption bound at
    API-call granularity) with its invariants; then EVERY transition of the dumped graph is replayed on the real
    _GitFile: the implementation is driven along a shortest model path to the source state, the abstraction of the
    real state must equal the model state, the action is executed and the result must equal the destination state."""
    from engines.common import VERIF, fresh_dir, rmtree

    acc = ctx.acc
    d = fresh_dir("tla")
    try:
        dot = os.path.join(d, "graph.dot")
        p = subprocess.run(["tlc", "-workers", "1", "-noGenerateSpecTE", "-metadir", os.path.join(d, "meta"), "-dump", "dot,actionlabels", dot,
                            "-config", "LockFile.cfg", "LockFile.tla"], cwd=os.path.join(VERIF, "models"), capture_output=True, text=True, timeout=600)
        if "Model checking completed. No error has been found." not in p.stdout:
            raise HarnessError("TLC did not complete cleanly:\n" + p.stdout[-1500:] + p.stderr[-500:])
        init, states, edges = _parse_tlc_dot(open(dot).read())
        if init is None or not edges:
            raise HarnessError("could not parse TLC's state graph")
        actors = sorted(states[init]["pc"])
        # shortest path (as action list) to every state
        out = {}
        for s, lab, t in edges:
            out.setdefault(s, []).append((lab, t))
        path = {init: []}
        frontier = [init]
        while frontier:
            nxt = []
            for s in frontier:
                for lab, t in sorted(out.get(s, [])):
                    if t not in path:
                        path[t] = path[s] + [lab]
                        nxt.append(t)
            frontier = nxt
        if set(path) != set(states):
            raise HarnessError("unreachable states in TLC's dump")
        acc.count("tla_states", len(states))
        acc.count("tla_transitions", len(edges))
        n_ok = 0
        for s, (act, a), t in sorted(edges):
            dd = os.path.join(d, "r%d" % n_ok)
            os.makedirs(dd, exist_ok=True)
            impl = _LockImpl(dd, 2)
            try:
                try:
                    for pa, paa in path[s]:
                        impl.step(pa, paa)
                    got_s = impl.abstract(actors)
                except Exception as e:
                    acc.violation("tla:conformance:implementation-raises-on-model-path",
                                  "model path %r: %s: %s" % (path[s], type(e).__name__, str(e).replace(dd, "<d>")),
                                  rp("case_tla_path", [list(x) for x in path[s][:-1]], list(path[s][-1]) if path[s] else [act, a]))
                    continue
                # `last` of the source state depends on which path reached it; compare the path-independent part
                cmp_s = {k: v for k, v in got_s.items() if k != "last"}
                if cmp_s != {k: v for k, v in states[s].items() if k != "last"}:
                    acc.violation("tla:conformance:implementation-state-differs-from-model-state",
                                  "after model path %r the implementation is %r, the model %r" % (path[s], got_s, states[s]),
                                  rp("case_tla_path", [list(x) for x in path[s]], [act, a]))
                    continue
                try:
                    impl.step(act, a)
                    got_t = impl.abstract(actors)
                except Exception as e:
                    got_t = {"raised": "%s: %s" % (type(e).__name__, e)}
                if got_t != states[t]:
                    acc.violation("tla:conformance:%s-differs-from-model" % act,
                                  "from %r, %s(%s): implementation %r, model %r" % (states[s], act, a, got_t, states[t]),
                                  rp("case_tla_path", [list(x) for x in path[s]], [act, a]))
                    continue
                n_ok += 1
            finally:
                impl.close()
                rmtree(dd)
        acc.count("tla_transitions_validated_against_impl", n_ok)
        acc.outcome("tla:states=%d transitions=%d" % (len(states), len(edges)))
        acc.sample({"tla_model": "models/LockFile.tla (3 actors x 2 rounds)", "states": len(states), "transitions": len(edges),
                    "transitions_replayed_on_GitFile": n_ok, "longest_path": max(len(v) for v in path.values())}, cap=20)
    finally:
        rmtree(d)


def case_tla_path(acc, prefix, last):
    """Replay: drive the real _GitFile along a model path and report what the abstraction shows."""
    from engines.common import fresh_dir, rmtree

    d = fresh_dir("tlar")
    impl = _LockImpl(d, 2)
    try:
        for act, a in list(prefix) + [last]:
            impl.step(act, a)
        acc.note("tla_replay_state", repr(impl.abstract(sorted({a for _, a in list(prefix) + [last]}))))
    finally:
        impl.close()
        rmtree(d)
