"""C17 — checkout never writes outside the work tree or into .git; unsafe entries are refused.

E3 (explicit-state search): a state is a sandbox directory S/ holding a work tree S/wt (with .git),
canary files and directories next to it (S/canary-file, S/canary-dir), under an absolute path
(S/abs, addressed position-independently as /proc/self/cwd/abs with the worker's cwd = S) and inside
S/wt/.git.  A transition runs ONE real dulwich operation (clone, checkout, switch, reset
--hard/--mixed/--soft, WorkTree.reset_index, stash push/pop, pop of a planted stash, apply_patch,
am, am --abort) whose tree argument is built FROM RAW BYTES out of an adversarial name/kind alphabet.

Oracle, evaluated on every transition (the snapshot comparison decides, nothing else):
  1. the recursive snapshot (names, types, permission bits, contents, link targets) of S minus S/wt
     and of S/wt/.git minus a fixed allow-list of bookkeeping files is identical before and after;
  2. no entry whose path is unsafe (independent model engines/refmodels/pathsafety.py, cross-checked
     against C git's verify_path through `git update-index --cacheinfo`) is materialised: nothing with
     an unsafe name exists below S/wt, the joined path of an unsafe entry does not come into existence,
     and the (unique) content of an unsafe file entry does not appear anywhere in S.
Mode bits of files created inside the work tree are informational counters only.
A violating transition is re-run under a mutation tracer (engines/confine.py) only to *name* the
dulwich function that issued the system call; the key is <entry point>:<dulwich function>:<predicate>.
"""

from __future__ import annotations

import hashlib
import io
import logging
import os
import pickle
import sys
import warnings
import zlib

from engines import common, confine
from engines.common import Acc, HarnessError, fresh_dir, git, pmap, rmtree, rp, scratch_root, split
from engines.refmodels import pathsafety

# --------------------------------------------------------------------------- alphabet

ABS = b"/proc/self/cwd/abs"  # == S/abs for a process whose cwd is S: absolute, yet position independent
ABSNAME = ABS + b"/new"

NAMES = [
    b"a", b"dir", b".gitmodules", b"a\\b", b"C:", b"C:x", b"\xffx",  # ordinary names on POSIX
    b"a/b",  # slash inside ONE name (malformed tree); joins to the ordinary path a/b
    b"", b".", b"..", b".git", b".GIT", ABSNAME,  # unsafe in every configuration
    b".git ", b".git.", b"git~1", b"GIT~1.", b".git::$INDEX_ALLOCATION", b"a\\.git",  # unsafe under core.protectNTFS
    b".g\xe2\x80\x8cit",  # unsafe under core.protectHFS
]

FILE_MODES = {"f": 0o100644, "x": 0o100755, "f4755": 0o104755, "f2755": 0o102755, "f1644": 0o101644, "f0666": 0o100666}
LINK_IDS = ["updir", "absdir", "upfile", "upnew", "git", "hooks", "gitfile", "gitnew", "sib", "dir"]
LEAF_KINDS = list(FILE_MODES) + ["L:" + t for t in LINK_IDS] + ["G"]
# "mirror" kinds (only used for the re-used slot 'a' of the sequence families, never in the names matrix): an executable
# regular file whose bytes EQUAL the canary file a symlink of an earlier tree points at, that canary being exactly as long
# as the link text at depth 1.  A shortcut "same size, same bytes -> leave the file alone, just fix the mode" that is taken
# before the symlink standing at the path has been replaced then chmods the canary outside the work tree / inside .git.
CANARY_UPFILE = b"canary file 1\n"  # len == len(b"../canary-file")
CANARY_GITFILE = b"git/a\n"  # len == len(b".git/a")
MIRROR = {"mx:upfile": CANARY_UPFILE, "mx:gitfile": CANARY_GITFILE}
FILE_MODES.update({k: 0o100755 for k in MIRROR})
GITLINK_SHA = "11" * 20

CONFIGS = {  # id -> (protectNTFS, protectHFS); None = leave the default (NTFS on, HFS off on Linux)
    "default": (None, None),
    "ntfs-off": (False, None),
    "ntfs-off+hfs-on": (False, True),
    "ntfs-on+hfs-on": (True, True),
}


def cfg_flags(cfg):
    n, h = CONFIGS[cfg]
    return (True if n is None else n), (False if h is None else h)


def link_target(t, depth):
    up = b"../" * (depth - 1)  # climbs from the entry's directory to the work tree root
    return {
        "absdir": ABS + b"/canary-dir",
        "updir": up + b"../canary-dir",
        "upfile": up + b"../canary-file",
        "upnew": up + b"../canary-dir/new",
        "git": up + b".git",
        "hooks": up + b".git/hooks",
        "gitfile": up + b".git/a",
        "gitnew": up + b".git/hooks/new",
        "sib": b".gitmodules",
        "dir": up + b"dir",
    }[t]


def payload(path, kind, depth):
    if kind in MIRROR:
        return MIRROR[kind]
    if kind in FILE_MODES:
        return b"%s %s\n" % (kind.encode(), path.hex().encode())  # unique per (path, kind)
    return link_target(kind[2:], depth)


# A tree spec is a tuple of entries (name, kind, children); kind 'D' = directory (children = spec),
# otherwise a leaf kind and children == ().  Entries are serialised in the order given.


def E(name, kind, children=()):
    return (bytes(name), kind, tuple(children))


def canon(entries):
    """git's canonical entry order (directories compare as name + '/')."""
    return tuple(sorted(entries, key=lambda e: e[0] + (b"/" if e[1] == "D" else b"")))


def norm_spec(spec):
    return tuple((bytes(n), str(k), norm_spec(c)) for n, k, c in spec)


def jpath(base, name):
    return name if base is None else base + b"/" + name


def leaves(spec, base=None, depth=1):
    """[(path, kind, depth)] of every non-directory entry; path = names joined with '/'."""
    out = []
    for name, kind, children in spec:
        p = jpath(base, name)
        if kind == "D":
            out += leaves(children, p, depth + 1)
        else:
            out.append((p, kind, depth))
    return out


def show(spec):
    def one(e):
        n, k, c = e
        s = repr(n)[1:]
        return "%s/{%s}" % (s, show(c)) if k == "D" else "%s=%s" % (s, k)
    return ", ".join(one(e) for e in spec) or "(empty)"


# --------------------------------------------------------------------------- objects from raw bytes

_OBJ = {}


def _obj(kind, body):
    full = kind + b" %d\0" % len(body) + body
    return hashlib.sha1(full).hexdigest(), zlib.compress(full, 1)


def _build_tree(entries, base, depth, out):
    raw = b""
    for name, kind, children in entries:
        p = jpath(base, name)
        if kind == "D":
            sha, mode = _build_tree(children, p, depth + 1, out), 0o40000
        elif kind == "G":
            sha, mode = GITLINK_SHA, 0o160000
        else:
            sha, z = _obj(b"blob", payload(p, kind, depth))
            out[sha] = z
            mode = FILE_MODES.get(kind, 0o120000)
        raw += b"%o %s\0" % (mode, name) + bytes.fromhex(sha)
    sha, z = _obj(b"tree", raw)
    out[sha] = z
    return sha


def commit_body(tree, parents=(), msg=b"c17"):
    return (b"tree " + tree.encode() + b"\n" + b"".join(b"parent " + p.encode() + b"\n" for p in parents)
            + b"author A <a@example.com> 1000000000 +0000\ncommitter C <c@example.com> 1000000000 +0000\n\n" + msg + b"\n")


def objects_for(spec):
    """(commit hex, tree hex, {hex: zlib bytes}) — every object written without dulwich."""
    r = _OBJ.get(spec)
    if r is None:
        out = {}
        tree = _build_tree(spec, None, 1, out)
        c, z = _obj(b"commit", commit_body(tree))
        out[c] = z
        r = _OBJ[spec] = (c, tree, out)
    return r


def write_objects(objdir, objs):
    for sha, z in objs.items():
        d = os.path.join(objdir, sha[:2])
        p = os.path.join(d, sha[2:])
        if not os.path.exists(p):
            os.makedirs(d, exist_ok=True)
            with open(p, "wb") as f:
                f.write(z)


def patch_text(spec, how):
    """A git-style patch that adds (how='add') or deletes without content check (how='del') every
    file/symlink leaf of the spec."""
    out = []
    for p, kind, depth in leaves(spec):
        if kind == "G":
            continue
        mode = FILE_MODES.get(kind, 0o120000)
        body = payload(p, kind, depth)
        if how == "add":
            out.append(b"diff --git a/%s b/%s\nnew file mode %o\nindex 0000000..1111111\n--- /dev/null\n+++ b/%s\n@@ -0,0 +1 @@\n+%s\n"
                       % (p, p, mode, p, body.rstrip(b"\n")))
            if not body.endswith(b"\n"):
                out.append(b"\\ No newline at end of file\n")
        else:
            out.append(b"diff --git a/%s b/%s\ndeleted file mode %o\nindex 1111111..0000000\n--- a/%s\n+++ /dev/null\n" % (p, p, mode, p))
    return b"".join(out)


def rename_patch_text(spec, how):
    """Pure rename / copy patches (no hunks), paths carry the one component that strip=1 removes.
    how='rename': every leaf path of the spec is the hostile SOURCE, moved to the harmless moved<i>;
    how='copy_to': a new file zsrc is added and copied to every leaf path (hostile DESTINATION)."""
    out = []
    if how == "copy_to":
        out.append(b"diff --git a/zsrc b/zsrc\nnew file mode 100644\nindex 0000000..1111111\n--- /dev/null\n+++ b/zsrc\n@@ -0,0 +1 @@\n+zsrc\n\n")
    for i, (p, kind, _depth) in enumerate(leaves(spec)):
        if kind == "G":
            continue
        if how == "rename":
            src, dst, verb = p, b"moved%d" % i, b"rename"
        else:
            src, dst, verb = b"zsrc", p, b"copy"
        out.append(b"diff --git x/%s x/%s\nsimilarity index 100%%\n%s from x/%s\n%s to x/%s\n\n" % (src, dst, verb, src, verb, dst))
    return b"".join(out)


def mail_text(spec):
    return (b"From: A <a@example.com>\nDate: Sun, 09 Sep 2001 01:46:40 +0000\nSubject: [PATCH] c17\n\nc17\n---\n"
            + patch_text(spec, "add") + b"-- \n2.39.5\n")


# --------------------------------------------------------------------------- sandbox

WT = b"wt"
GITDIR = b"wt/.git"
# what a checkout-like command may legitimately write below .git (bookkeeping of the command itself)
ALLOW_EXACT = {b"index", b"HEAD", b"ORIG_HEAD", b"packed-refs", b"refs", b"logs", b"objects", b"rebase-apply", b"info/sparse-checkout"}
ALLOW_PREFIX = (b"refs/", b"logs/", b"objects/", b"rebase-apply/")


def region(rel):
    """'wt' | 'gitbook' (allow-listed bookkeeping below .git) | 'gitdir' (rest of .git) | 'outside'."""
    if rel == WT:
        return "wt"
    if rel == GITDIR:
        return "gitdir"
    if rel.startswith(GITDIR + b"/"):
        sub = rel[len(GITDIR) + 1:]
        if sub in ALLOW_EXACT or sub.startswith(ALLOW_PREFIX):
            return "gitbook"
        return "gitdir"
    if rel.startswith(WT + b"/"):
        return "wt"
    return "outside"


def protected(rel):
    return region(rel) in ("outside", "gitdir")


_ENV_DONE = [None]


def setup_process():
    """Own the environment dulwich reads (idempotent, per process)."""
    if _ENV_DONE[0] == os.getpid():
        return
    _ENV_DONE[0] = os.getpid()
    home = os.path.join(scratch_root(), "home")
    os.makedirs(home, exist_ok=True)
    os.environ.update(
        HOME=home, XDG_CONFIG_HOME=os.path.join(home, "xdg"), GIT_CONFIG_NOSYSTEM="1", TMPDIR=home,
        GIT_AUTHOR_NAME="A", GIT_AUTHOR_EMAIL="a@example.com", GIT_COMMITTER_NAME="C", GIT_COMMITTER_EMAIL="c@example.com",
    )
    for k in ("GIT_DIR", "GIT_WORK_TREE", "GIT_INDEX_FILE", "GIT_REFLOG_ACTION", "GIT_CONFIG_GLOBAL", "GIT_CONFIG_SYSTEM"):
        os.environ.pop(k, None)
    import multiprocessing
    import tempfile

    tempfile.tempdir = home
    os.umask(0o022)
    if multiprocessing.parent_process() is not None:  # pool worker: see confine.drop_privileges
        os.chmod(scratch_root(), 0o755)
        os.chown(home, 65534, 65534) if os.getuid() == 0 else None
        confine.drop_privileges(scratch_root())
    logging.disable(logging.CRITICAL)
    warnings.simplefilter("ignore")
    if not os.path.isdir("/proc/self/cwd"):
        raise HarnessError("/proc/self/cwd is not available; the position-independent absolute canary needs it")


def _w(path, data, mode=0o644):
    os.makedirs(os.path.dirname(path), exist_ok=True)
    with open(path, "wb") as f:
        f.write(data)
    os.chmod(path, mode)


def add_git_canaries(S):
    g = os.path.join(S, "wt", ".git")
    _w(os.path.join(g, "a"), CANARY_GITFILE)
    _w(os.path.join(g, "dir", "a"), b"canary .git/dir/a\n")
    _w(os.path.join(g, "hooks", "a"), b"#!/bin/sh\n# canary .git/hooks/a\n", 0o755)


_INIT = {}


def initial_state(cfg, with_wt=True):
    """Snapshot of the start sandbox: canaries + (optionally) an empty, initialised work tree."""
    key = (cfg, with_wt)
    if key in _INIT:
        return _INIT[key]
    setup_process()
    S = fresh_dir("c17init")
    _w(os.path.join(S, "canary-file"), CANARY_UPFILE)
    _w(os.path.join(S, "canary-dir", "a"), b"canary ../canary-dir/a\n")
    _w(os.path.join(S, "canary-dir", "dir", "a"), b"canary ../canary-dir/dir/a\n")
    _w(os.path.join(S, "abs", "canary-dir", "a"), b"canary /abs/canary-dir/a\n")
    os.makedirs(os.path.join(S, "abs", "canary-dir", "dir"))  # an EMPTY directory a stray rmdir would remove
    if with_wt:
        from dulwich.repo import Repo

        os.makedirs(os.path.join(S, "wt"))
        Repo.init(os.path.join(S, "wt")).close()
        ntfs, hfs = CONFIGS[cfg]
        with open(os.path.join(S, "wt", ".git", "config"), "ab") as f:  # the file ends inside [core]
            if ntfs is not None:
                f.write(b"\tprotectNTFS = %s\n" % (b"true" if ntfs else b"false"))
            if hfs is not None:
                f.write(b"\tprotectHFS = %s\n" % (b"true" if hfs else b"false"))
        add_git_canaries(S)
    s = confine.snap(S)
    rmtree(S)
    _INIT[key] = s
    return s


# --------------------------------------------------------------------------- operations
#
# op = (kind, spec | None).  Kinds with a tree argument:
#   clone, checkout, checkout_force, switch, reset_hard, reset_mixed, reset_soft, stash_apply, patch_add,
#   patch_del, am, checkout_paths, restore_paths, patch_rename, patch_copy_to
# without: reset_index, stash_push, stash_pop, am_abort

TREE_OPS = ["checkout", "checkout_force", "switch", "reset_hard", "reset_mixed", "reset_soft", "stash_apply", "patch_add", "patch_del", "am",
            "checkout_paths", "restore_paths", "patch_rename", "patch_copy_to"]
PLAIN_OPS = ["reset_index", "stash_push", "stash_pop", "am_abort", "sparse_all", "sparse_none"]
ENTRY = {
    "clone": "clone", "checkout": "checkout", "checkout_force": "checkout", "switch": "switch", "reset_hard": "reset-hard",
    "reset_mixed": "reset-mixed", "reset_soft": "reset-soft", "reset_index": "reset_index", "stash_push": "stash_push",
    "stash_pop": "stash_pop", "stash_apply": "stash_pop", "patch_add": "apply_patch", "patch_del": "apply_patch", "am": "am", "am_abort": "am_abort",
    "checkout_paths": "checkout-paths", "restore_paths": "restore", "patch_rename": "apply_patch", "patch_copy_to": "apply_patch",
    "sparse_all": "sparse_checkout", "sparse_none": "sparse_checkout",
}


def prepare(S, op):
    """Harness-side preparation that is not part of the judged window: make the objects of the
    target tree available (what a fetch does), build the clone source, plant a stash."""
    kind, spec = op
    wt = os.path.join(S, "wt")
    if kind == "clone":
        c, _t, objs = objects_for(spec)
        src = os.path.join(S, "src")
        os.makedirs(os.path.join(src, "refs", "heads"))
        os.makedirs(os.path.join(src, "objects", "pack"))
        _w(os.path.join(src, "HEAD"), b"ref: refs/heads/master\n")
        _w(os.path.join(src, "config"), b"[core]\n\trepositoryformatversion = 0\n\tfilemode = true\n\tbare = true\n")
        _w(os.path.join(src, "refs", "heads", "master"), c.encode() + b"\n")
        write_objects(os.path.join(src, "objects"), objs)
        return
    if spec is not None:
        c, t, objs = objects_for(spec)
        objdir = os.path.join(wt, ".git", "objects")
        write_objects(objdir, objs)
        if kind == "stash_apply":
            head = _read_head(S)
            if head is None:
                return
            ic, iz = _obj(b"commit", commit_body(t, [head], b"index on c17"))
            sc, sz = _obj(b"commit", commit_body(t, [head, ic], b"WIP on c17"))
            write_objects(objdir, {ic: iz, sc: sz})
            g = os.path.join(wt, ".git")
            old = b"0" * 40
            try:
                with open(os.path.join(g, "refs", "stash"), "rb") as f:
                    old = f.read().strip()
            except FileNotFoundError:
                pass
            _w(os.path.join(g, "refs", "stash"), sc.encode() + b"\n")
            os.makedirs(os.path.join(g, "logs", "refs"), exist_ok=True)
            with open(os.path.join(g, "logs", "refs", "stash"), "ab") as f:
                f.write(old + b" " + sc.encode() + b" C <c@example.com> 1000000000 +0000\tWIP on c17\n")


def _read_head(S):
    """Commit id HEAD resolves to (harness-side, through dulwich's ref reader), or None."""
    from dulwich.repo import Repo

    try:
        r = Repo(os.path.join(S, "wt"))
    except Exception:
        return None
    try:
        return r.refs[b"HEAD"].decode()
    except KeyError:
        return None
    finally:
        r.close()


def perform(S, op):
    """Run the one real dulwich operation.  Returns 'ok' or 'raised:<ExceptionType>'."""
    from dulwich import porcelain

    kind, spec = op
    wt = os.path.join(S, "wt")
    c = objects_for(spec)[0].encode() if spec is not None else None
    os.chdir(S)
    try:
        if kind == "clone":
            porcelain.clone("src", "wt", errstream=io.BytesIO()).close()
        elif kind == "checkout":
            porcelain.checkout(wt, target=c)
        elif kind == "checkout_force":
            porcelain.checkout(wt, target=c, force=True)
        elif kind == "switch":
            porcelain.switch(wt, target=c, detach=True, force=True)
        elif kind == "checkout_paths":  # git checkout <commit> -- <every path of the tree>
            porcelain.checkout(wt, target=c, paths=[p for p, _k, _d in leaves(spec)])
        elif kind == "restore_paths":  # git restore --source=<commit> -- <every path of the tree>
            porcelain.restore(wt, paths=[p for p, _k, _d in leaves(spec)], source=c)
        elif kind in ("reset_hard", "reset_mixed", "reset_soft"):
            porcelain.reset(wt, kind[6:], c)
        elif kind == "reset_index":
            from dulwich.repo import Repo

            r = Repo(wt)
            try:
                r.get_worktree().reset_index()
            finally:
                r.close()
        elif kind == "stash_push":
            porcelain.stash_push(wt)
        elif kind in ("stash_pop", "stash_apply"):
            porcelain.stash_pop(wt)
        elif kind in ("patch_add", "patch_del"):
            porcelain.apply_patch(wt, patch_file=io.BytesIO(patch_text(spec, kind[6:])))
        elif kind in ("patch_rename", "patch_copy_to"):
            porcelain.apply_patch(wt, patch_file=io.BytesIO(rename_patch_text(spec, kind[6:])))
        elif kind == "am":
            porcelain.am(wt, patches=io.BytesIO(mail_text(spec)), committer=b"C <c@example.com>", commit_timestamp=1000000000, commit_timezone=0)
        elif kind == "am_abort":
            porcelain.am_abort(wt)
        elif kind == "sparse_all":  # every index entry included: missing ones are materialised
            porcelain.sparse_checkout(wt, patterns=["*"], force=True, cone=False)
        elif kind == "sparse_none":  # no index entry included: present ones are removed
            porcelain.sparse_checkout(wt, patterns=["/c17-no-such-path"], force=True, cone=False)
        else:
            raise HarnessError("unknown op %r" % (kind,))
        return "ok"
    except HarnessError:
        raise
    except ImportError as e:  # privilege-dropped workers cannot import what warmup() did not load
        raise HarnessError("import inside a worker failed (extend warmup()): %r" % (e,))
    except Exception as e:  # a refusal is an observation
        return "raised:" + type(e).__name__
    finally:
        os.chdir("/")


def finish_clone(S):
    """After the judged window of a clone: the source goes away, the new .git gets its canaries."""
    rmtree(os.path.join(S, "src"))
    if os.path.isdir(os.path.join(S, "wt", ".git")):
        add_git_canaries(S)


_PRISTINE = {}


def pristine_clone_gitdir():
    """The non-bookkeeping part of .git right after cloning the EMPTY tree (nothing to materialise):
    what a clone legitimately creates there."""
    if "x" not in _PRISTINE:
        S = fresh_dir("c17pc")
        confine.restore(initial_state("default", with_wt=False), S)
        prepare(S, ("clone", ()))
        if perform(S, ("clone", ())) != "ok":
            raise HarnessError("cloning the empty tree failed")
        _PRISTINE["x"] = tuple(e for e in confine.snap(S) if region(e[0]) == "gitdir")
        rmtree(S)
    return _PRISTINE["x"]


# --------------------------------------------------------------------------- abstraction (state key)


def _loose(files, S, sha):
    """(type, body) of an object: from the snapshot's loose objects, else through dulwich (packs)."""
    e = files.get(GITDIR + b"/objects/" + sha[:2] + b"/" + sha[2:])
    if e is not None:
        full = zlib.decompress(e[3])
        hdr, body = full.split(b"\0", 1)
        return hdr.split(b" ")[0], body
    from dulwich.repo import Repo

    r = Repo(os.path.join(S, "wt"))
    try:
        o = r.object_store[sha]
        return o.type_name, o.as_raw_string()
    finally:
        r.close()


def _commit_tree(files, S, sha):
    t, body = _loose(files, S, sha)
    if t != b"commit":
        raise HarnessError("expected a commit: %r" % sha)
    lines = body.split(b"\n")
    return lines[0][5:], [ln[7:] for ln in lines[1:4] if ln.startswith(b"parent ")]


def _resolve(files, name):
    for _ in range(6):
        e = files.get(GITDIR + b"/" + name)
        if e is None or e[1] != "f":
            pk = files.get(GITDIR + b"/packed-refs")
            if pk is not None:
                for ln in pk[3].split(b"\n"):
                    if ln.endswith(b" " + name):
                        return ln.split(b" ")[0]
            return None
        c = e[3].strip()
        if c.startswith(b"ref: "):
            name = c[5:]
            continue
        return c
    return None


def state_key(S, snapshot):
    """Canonical key of a sandbox: work tree image, HEAD *tree*, index entries (stat fields dropped),
    stash stack as trees, am state, and everything protected.  Dropped: commit ids / branch names /
    reflogs (no operation in the menu reads them: targets are given as commit ids, checkout/switch
    diff against HEAD's tree, reset --hard and stash against the index), index stat fields (a stat
    match is only a shortcut for the content comparison that is otherwise made), objects/.
    Computed from the snapshot by independent readers (refmodels.indexfile; loose objects by zlib)."""
    from engines.refmodels import indexfile

    files = {e[0]: e for e in snapshot}
    wtpart = tuple(e for e in snapshot if e[0].startswith(WT + b"/") and region(e[0]) == "wt")
    prot = tuple(e for e in snapshot if protected(e[0]))
    am = tuple(e for e in snapshot if e[0].startswith(GITDIR + b"/rebase-apply/"))
    has_git = GITDIR in files
    head_tree = None
    index_items = None
    stash = []
    if has_git:
        h = _resolve(files, b"HEAD")
        if h is not None:
            head_tree = _commit_tree(files, S, h)[0]
        ix = files.get(GITDIR + b"/index")
        if ix is not None:
            try:
                index_items = tuple((e.name, e.mode, e.sha, e.stage, e.xflags) for e in indexfile.parse(ix[3]).entries)
            except indexfile.IndexFormatError as e:
                index_items = "unreadable:" + e.code
        lg = files.get(GITDIR + b"/logs/refs/stash")
        if lg is not None and (GITDIR + b"/refs/stash") in files:
            for ln in lg[3].split(b"\n"):
                if ln:
                    t, parents = _commit_tree(files, S, ln.split(b" ")[1])
                    stash.append((t, tuple(_commit_tree(files, S, p)[0] for p in parents)))
    k = hashlib.sha1(repr((wtpart, prot, am, head_tree, index_items, tuple(stash))).encode()).hexdigest()
    feats = {"head": head_tree is not None, "stash": bool(stash), "am": bool(am), "wt": has_git}
    return k, feats


# --------------------------------------------------------------------------- judge


def collapse(p):
    """The path with empty components removed (dulwich joins names with posixpath.join, which
    swallows them) — only used to find where an entry with an unsafe path was put."""
    return b"/".join(c for c in p.split(b"/") if c)


def placeholder(p):
    return b"gitdir: " + b"../" * (p.count(b"/") + 1) + b".git/modules/" + p + b"\n"


def gitlink_placeholders(specs):
    """{path of X/.git: expected content} for every gitlink entry X of the given specs."""
    out = {}
    for spec in specs:
        for p, kind, _d in leaves(spec):
            if kind == "G":
                out[collapse(p) + b"/.git"] = placeholder(collapse(p))
    return out


def judge(cfg, specs, op, before, after):
    """Returns None or (predicate, detail, focus_path) for the FIRST failing clause.
    specs: every tree spec used so far on this path including the current one."""
    ntfs, hfs = cfg_flags(cfg)
    kind = op[0]
    # 1. confinement
    pb = tuple(e for e in before if protected(e[0]))
    pa = tuple(e for e in after if protected(e[0]))
    if kind == "clone" and any(e[0] == GITDIR for e in after):
        pb = tuple(sorted(pb + pristine_clone_gitdir()))  # a failed fetch removes the target directory again
    d = confine.diff(pb, pa)
    if d:
        rel, what = d[0]
        verb = {"created": "creates", "deleted": "deletes", "retyped": "replaces", "content": "overwrites", "target": "retargets", "mode": "chmods"}[what.split(":")[0]]
        obj = {"f": "file", "d": "dir", "l": "symlink", "o": "special"}.get(what.split(":")[1][:1] if ":" in what else "", "")
        where = "in-gitdir" if region(rel) == "gitdir" else "outside-wt"
        pred = "%s-%s%s" % (verb, (obj + "-") if obj else "", where)
        return pred, "%s %r (%d protected entr%s changed: %s)" % (what, rel, len(d), "y" if len(d) == 1 else "ies", ", ".join("%s %r" % (w, r) for r, w in d[:4])), rel
    # 2. unsafe entries are refused
    exempt = gitlink_placeholders(specs)
    bpaths = {e[0] for e in before}
    for e in after:
        rel = e[0]
        if region(rel) != "wt" or rel == WT or rel in bpaths:
            continue
        tp = rel[len(WT) + 1:]
        why = pathsafety.unsafe(tp, ntfs, hfs)
        if why is None:
            continue
        if tp in exempt and e[1] == "f" and e[3] == exempt[tp] and pathsafety.unsafe(tp[: -len(b"/.git")], ntfs, hfs) is None:
            continue  # the .git file of a submodule placeholder, as git itself writes it
        if any(pathsafety.unsafe(b"/".join(tp.split(b"/")[:i]), ntfs, hfs) for i in range(1, tp.count(b"/") + 1)):
            continue  # reported at the shallowest unsafe component
        return "unsafe-name(%s)" % why, "%r exists in the work tree after the operation" % tp, rel
    if kind == "patch_rename":
        return None  # a rename patch relocates existing content on request: where content ends up says nothing about refusal
    # entries of the tree being materialised (an operation without a tree argument materialises one of the earlier ones)
    bcontent = {(e[0], e[3]) for e in before if e[1] == "f"}
    for cur in ([op[1]] if op[1] is not None else _dedupe(specs)):
        safe_paths = {collapse(p) for p, _k, _d in leaves(cur) if pathsafety.unsafe(p, ntfs, hfs) is None}
        for p, k, depth in leaves(cur):
            why = pathsafety.unsafe(p, ntfs, hfs)
            if why is None:
                continue
            if k in FILE_MODES:
                body = payload(p, k, depth)
                for e in after:
                    if e[1] == "f" and e[3] == body and (e[0], e[3]) not in bcontent:
                        return "unsafe-path(%s)" % why, "content of entry %r (%s) written to %r" % (p, k, e[0]), e[0]
            elif collapse(p) and collapse(p) not in safe_paths:
                # link targets / placeholders are not unique per entry: look where dulwich's path join puts the entry,
                # unless a safe entry of the same tree legitimately lives there
                cp = collapse(p)
                rel = WT + b"/" + cp + (b"/.git" if k == "G" else b"")
                want = ("f", placeholder(cp)) if k == "G" else ("l", payload(p, k, depth))
                for e in after:
                    if e[0] == rel and (e[1], e[3]) == want and rel not in bpaths:
                        return "unsafe-path(%s)" % why, "%s of entry %r created at %r" % ("submodule placeholder" if k == "G" else "symlink", p, rel), rel
    return None


def special_mode_files(after):
    return sum(1 for e in after if region(e[0]) == "wt" and e[0] != WT and e[1] == "f" and e[2] & 0o7002)


# --------------------------------------------------------------------------- one transition


def op_name(op):
    return "%s(%s)" % (op[0], show(op[1])) if op[1] is not None else op[0]


def history_specs(history):
    return [o[1] for o in history if o[1] is not None]


def transition(acc, cfg, snapshot, history, op, sb, diagnose=True):
    """Bring the sandbox to `snapshot`, run op, judge.  Returns (after_snapshot, outcome) —
    after_snapshot is None when the transition violated the property (successors are not explored)."""
    S = os.fsdecode(sb.root)
    sb.sync(snapshot)
    sb.invalidate()
    prepare(S, op)
    # prepare() only touches allow-listed bookkeeping (objects/, refs/stash, its reflog) — except for clone (S/src)
    before = confine.snap(S) if op[0] == "clone" else snapshot
    res = perform(S, op)
    after = confine.snap(S)
    sb.observed(after)
    acc.count("transitions")
    acc.count("op:" + op[0])
    specs = history_specs(history) + ([op[1]] if op[1] is not None else [])
    verdict = judge(cfg, specs, op, before, after)
    wt_changed = tuple(e for e in before if region(e[0]) == "wt") != tuple(e for e in after if region(e[0]) == "wt")
    n_special = special_mode_files(after)
    if n_special:
        acc.count("info_transitions_leaving_setid_sticky_or_other_writable_files_in_worktree")
    ntfs, hfs = cfg_flags(cfg)
    has_unsafe = op[1] is not None and any(pathsafety.unsafe(p, ntfs, hfs) for p, _k, _d in leaves(op[1]))
    acc.outcome("%s:%s:%s%s%s" % (op[0], res, "wt-changed" if wt_changed else "wt-same", ":unsafe-entry-in-tree" if has_unsafe else "",
                                  ":VIOLATION" if verdict else ""))
    if verdict is None:
        if has_unsafe:
            acc.count("unsafe_trees_refused_or_skipped")
        if op[0] == "clone":
            finish_clone(S)
            after = confine.snap(S)
            sb.observed(after)
        elif op[0] == "stash_apply" and res != "ok":
            # a planted stash that could not be popped is withdrawn again (the menu can plant it again)
            for rel in (GITDIR + b"/refs/stash", GITDIR + b"/logs/refs/stash"):
                old = [e for e in snapshot if e[0] == rel]
                p = os.path.join(os.fsencode(S), rel)
                if old:
                    with open(p, "wb") as f:
                        f.write(old[0][3])
                elif os.path.lexists(p):
                    os.unlink(p)
            after = confine.snap(S)
            sb.observed(after)
        return after, res
    pred, detail, focus = verdict
    site, how = ("unattributed", "")
    if diagnose:
        sb.invalidate()
        site, how = attribute(S, snapshot, op, focus, before, pred.startswith("unsafe-"))
    if how and not pred.startswith("unsafe-"):
        pred += "-" + how
    key = "%s:%s:%s" % (ENTRY[op[0]], site, pred)
    steps = list(history) + [op]
    acc.violation(key, "[%s] %s => %s; %s" % (cfg, " ; ".join(op_name(o) for o in steps), res, detail), rp("case_sequence", cfg, steps))
    return None, res


def attribute(S, snapshot, op, focus, expect_before, must_exist):
    """Re-run the transition under the mutation tracer and name the dulwich frames that touched
    `focus` (sandbox-relative path)."""
    import dulwich

    confine.restore(snapshot, S)
    prepare(S, op)
    realS = os.path.realpath(os.fsencode(S))
    target = os.path.join(realS, focus)

    def is_prot(eff):
        return eff == target or eff.startswith(target + b"/") or target.startswith(eff + b"/")

    pkg = os.path.dirname(os.path.dirname(os.path.abspath(dulwich.__file__)))
    with confine.MutationTracer(is_prot, os.path.join(pkg, "dulwich")) as t:
        perform(S, op)
    # replay before report: the re-execution must show the same forbidden effect
    if must_exist:  # an unsafe entry was materialised at `focus`
        again = os.path.lexists(os.path.join(os.fsencode(S), focus))
    else:  # the protected entry `focus` changed
        was = [x for x in expect_before if x[0] == focus]
        now = [x for x in confine.snap(S) if x[0] == focus]
        again = was != now
    if not again:
        raise HarnessError("violation at %r did not reproduce when the transition %s was re-executed" % (focus, op_name(op)))
    hits = [h for h in t.hits if h["effective"] == target] or t.hits
    if not hits:
        return "unattributed", ""
    h = hits[0]
    names = [f.rsplit(".", 1)[1] for f in h["frames"]]
    alias = None
    while len(names) > 1 and names[-1] in GENERIC:
        alias = GENERIC[names.pop()]
    site = names[-1] + (">" + alias if alias else "") if names else "unattributed"
    how = {"through-symlinked-dir": "via-symlinked-dir", "through-final-symlink": "via-final-symlink"}.get(h["how"], "direct")
    lit = os.path.abspath(h["literal"])  # lexical; an absolute / dot-dot path that never was below the work tree is 'direct'
    if not (lit + b"/").startswith(os.path.join(os.path.abspath(os.fsencode(S)), WT) + b"/"):
        how = "direct"
    return site, how


# helpers that only wrap one system call: the violation is named after their caller
GENERIC = {"_remove_file_with_readonly_handling": "unlink", "build_file_from_blob": "write", "ensure_submodule_placeholder": "placeholder",
           "_ensure_parent_dir_exists": "mkdirs", "_remove_empty_parents": "rmdirs", "symlink_wrapper": "symlink", "symlink_fallback": "symlink",
           "symlink_fn": "symlink"}


def case_sequence(acc, cfg, steps):
    """Replay: run the operations from the initial state; judge every step, report the first failure."""
    setup_process()
    steps = [(k, norm_spec(s) if s is not None else None) for k, s in steps]
    S = confine.Sandbox(fresh_dir("c17r"))
    try:
        snapshot = initial_state(cfg, with_wt=steps[0][0] != "clone")
        hist = []
        for op in steps:
            snapshot, _res = transition(acc, cfg, snapshot, hist, op, S)
            if snapshot is None:
                return
            hist.append(op)
    finally:
        rmtree(S.root)


# --------------------------------------------------------------------------- tree families


def fam_single(kinds):
    """One top-level entry: every name x every leaf kind."""
    return [(E(n, k),) for n in NAMES for k in kinds]


def fam_nested(names_outer, names_inner, kinds):
    """One top-level directory with one child."""
    return [(E(o, "D", (E(i, k),)),) for o in names_outer for i in names_inner for k in kinds]


def fam_same_name(kinds):
    """Malformed: TWO entries with the same name 'a' (every ordered pair of kinds, directory included),
    and unsorted two-entry trees."""
    opts = [E(b"a", k) for k in kinds] + [E(b"a", "D", (E(b"a", "f"),))]
    out = [(x, y) for x in opts for y in opts if x != y]
    out += [(E(b"dir", "D", (E(b"a", "f"),)), E(b"a", k)) for k in kinds]  # 'dir' before 'a': unsorted
    return out


def fam_slash_name(kinds):
    """An entry whose NAME contains a slash or backslash next to an entry it aliases or runs through."""
    out = []
    for k in kinds:
        for other in (E(b"a/b", "f"), E(b"a/a", "f"), E(b"a\\b", "f"), E(b"a", "D", (E(b"b", "x"),)), E(b"a/b/c", "f")):
            out.append(canon((E(b"a", k), other)))
    return out


def fam_pairs(names, kinds):
    """Two distinct top-level names."""
    out = []
    for i, n1 in enumerate(names):
        for n2 in names[i + 1:]:
            for k1 in kinds:
                for k2 in kinds:
                    out.append(canon((E(n1, k1), E(n2, k2))))
    return out


def fam_triples(kinds):
    """Three top-level entries (thorough): the slot 'a', a directory, and a third name that is unsafe,
    aliases the directory's child, or is a link."""
    out = []
    for k in kinds:
        for second in (E(b"dir", "D", (E(b"a", "f"),)), E(b"dir", "D", (E(b".git", "f"),)), E(b"dir", "D", (E(b"a", "L:updir"),))):
            for third in (E(b"git~1", "f"), E(b".git", "f"), E(b"..", "L:updir"), E(b"dir/a", "x")):
                out.append(canon((E(b"a", k), second, third)))
    return out


def fam_prefix(link_ids):
    """Sibling names that share leading CHARACTERS but are different path components (ab / ac, a / ab,
    a/bc / a/bd): a real directory under the earlier name, the link (or, in the next tree, a directory
    of the link's name) under the later one, plus the mirrored order as control.  For routes that keep
    one verified-prefix cache over a whole sorted iteration (build_index_from_tree, Stash.pop)."""
    def d(n, *extra):
        return E(n, "D", (E(b"a", "f"),) + extra)
    out = [()]
    for t in link_ids:
        lk = "L:" + t
        out += [canon((d(b"ab"), E(b"ac", lk))), canon((E(b"ab", lk), d(b"ac"))), canon((d(b"a"), E(b"ab", lk))),
                (E(b"a", "D", canon((d(b"bc"), E(b"bd", lk)))),)]
    out += [canon((d(b"ab"), d(b"ac"))), canon((d(b"ab", E(b"b", "f")), d(b"ac"))), canon((d(b"a"), d(b"ab"))),
            (E(b"a", "D", canon((d(b"bc"), d(b"bd")))),)]
    return _dedupe(out)


POISON = E(b"git~1", "f")  # sorts after 'a' and 'dir'; refused under the default configuration
POISON_NESTED = E(b"dir", "D", (E(b".git", "f"),))  # refused in every configuration; sorts after 'a'


def fam_reuse(link_ids, file_kinds, nested_links, poison, poison_for=None, in_tree=True, slash_for=(), deep=False):
    """The name-reuse family for sequences: the slot 'a' takes every kind (absent, file, symlink,
    directory with child 'a', gitlink); optional companions."""
    slot = [()]
    slot += [(E(b"a", k),) for k in file_kinds]
    slot += [(E(b"a", "L:" + t),) for t in link_ids]
    slot += [(E(b"a", "D", (E(b"a", "f"),)),)]
    slot += [(E(b"a", "D", (E(b"a", "L:" + t),)),) for t in nested_links]
    slot += [(E(b"a", "G"),)]
    out = list(slot)
    for comp in poison:
        out += [canon(s + (comp,)) for s in slot if s and (poison_for is None or s[0][1] in poison_for)]
    # the link next to an entry whose NAME runs through it ('a/b': one raw name with a slash inside)
    out += [canon((E(b"a", "L:" + t), E(b"a/b", "f"))) for t in slash_for]
    if deep:  # the slot as a directory two levels deep: a/dir/a
        out += [(E(b"a", "D", (E(b"dir", "D", (E(b"a", "f"),)),)),)]
    if in_tree:  # an in-tree link target comes with its target
        out += [canon((E(b"a", "L:dir"), E(b"dir", "D", (E(b"a", "f"),))))]
    seen, res = set(), []
    for s in out:
        if s not in seen:
            seen.add(s)
            res.append(s)
    return res


# --------------------------------------------------------------------------- level-parallel BFS


def pmap_forked(fn, tasks, jobs):
    """common.pmap, except that a single job also runs in a forked (privilege-dropped) child, so that
    every transition of every run — any --jobs value, replay included — executes under the same user."""
    tasks = list(tasks)
    if jobs and jobs > 1 and len(tasks) > 1:
        yield from pmap(fn, tasks, jobs=jobs)
        return
    import multiprocessing as mp

    with mp.get_context("fork").Pool(1, initializer=common._pool_init) as pool:
        for st, r in pool.imap(common._worker_entry, [(fn.__name__, fn.__module__, t) for t in tasks]):
            if st == "err":
                pool.terminate()
                raise HarnessError("worker failed: " + r)
            yield r



BOOKKEEPING_ONLY = ("reset_soft", "reset_mixed")  # move HEAD / rewrite the index, never touch the work tree


def menu(feats, universe, tree_ops, plain_ops, last=False):
    """Operations offered in a state.  At the last level of a search the two bookkeeping-only
    operations are left out: they only matter as state makers for a later operation."""
    if not feats["wt"]:
        return []
    if last:
        tree_ops = [k for k in tree_ops if k not in BOOKKEEPING_ONLY]
    ops = []
    for k in plain_ops:
        if k == "reset_index" and not feats["head"]:
            continue
        if k == "stash_push" and not feats["head"]:
            continue
        if k == "stash_pop" and not feats["stash"]:
            continue
        if k == "am_abort" and not feats["am"]:
            continue
        ops.append((k, None))
    for k in tree_ops:
        if k in ("stash_apply", "am") and not feats["head"]:
            continue
        if k == "am" and feats["am"]:
            continue
        for s in universe:
            ops.append((k, s))
    return ops


def work_prefix(task):
    setup_process()
    cfg, prefix = task
    acc = Acc()
    S = confine.Sandbox(fresh_dir("c17pre"))
    snapshot = initial_state(cfg)
    hist = []
    for op in prefix:
        snapshot, _r = transition(acc, cfg, snapshot, hist, op, S)
        if snapshot is None:
            raise HarnessError("prefix %r violates the property: %r" % (prefix, list(acc.viol)))
        hist.append(op)
    key, feats = state_key(os.fsdecode(S.root), snapshot)
    rmtree(S.root)
    return acc, snapshot, key, feats


def _store_path(store, key, hist):
    return os.path.join(store, "%s-%s.pkl" % (key, hashlib.sha1(repr(hist).encode()).hexdigest()[:16]))


def work_level(task):
    """Expand a list of nodes.  node = (state file | inline snapshot, feats, history)."""
    setup_process()
    cfg, nodes, universe, tree_ops, plain_ops, store, keep, explicit_ops = task
    last = not keep
    acc = Acc()
    S = confine.Sandbox(fresh_dir("c17w"))
    best = {}
    try:
        for ref, feats, hist in nodes:
            if isinstance(ref, str):
                with open(ref, "rb") as f:
                    snapshot = pickle.load(f)
            else:
                snapshot = ref
            ops = explicit_ops if explicit_ops is not None else menu(feats, universe, tree_ops, plain_ops, last)
            for op in ops:
                after, res = transition(acc, cfg, snapshot, hist, op, S)
                if after is None:
                    continue
                key, nf = state_key(os.fsdecode(S.root), after)
                h2 = list(hist) + [op]
                cur = best.get(key)
                if cur is None or repr(h2) < repr(cur[1]):
                    best[key] = (after if keep else None, h2, nf)
    finally:
        rmtree(S.root)
    found = []
    for key in sorted(best):
        snapshot, h2, nf = best[key]
        path = None
        if keep:
            path = _store_path(store, key, h2)
            tmp = path + ".tmp%d" % os.getpid()
            with open(tmp, "wb") as f:
                pickle.dump(snapshot, f, protocol=4)
            os.replace(tmp, path)
        found.append((key, path, nf, h2))
    return acc, found


def bfs(ctx, label, cfg, universe, tree_ops, plain_ops, max_depth, first_ops=None, with_wt=True, max_states=None, prefix=()):
    """Breadth-first search from the initial sandbox (after running `prefix`).  first_ops: explicit
    operation list for depth 1 (otherwise the menu).  max_depth counts operations after the prefix."""
    setup_process()
    store = fresh_dir("c17store")
    os.chmod(store, 0o777)
    init = initial_state(cfg, with_wt=with_wt)
    feats0 = {"head": False, "stash": False, "am": False, "wt": with_wt}
    hist0 = []
    if prefix:
        (acc0, init, key0, feats0), = list(pmap_forked(work_prefix, [(cfg, list(prefix))], 1))
        ctx.acc.merge(acc0)
        hist0 = list(prefix)
        seen = {key0}
    else:
        seen = {state_key(None, init)[0]}
    level = [(init, feats0, hist0)]
    depth = 0
    states = 1
    per_level = []
    capped = False
    while level and depth < max_depth:
        keep = depth + 1 < max_depth
        tasks = []
        if depth == 0 and first_ops is not None:
            for part in split(ctx.order(first_ops), ctx.jobs * 3):
                tasks.append((cfg, level, None, None, None, store, keep, part))
        elif len(level) < ctx.jobs * 2:
            # few nodes: split the menu instead of the node list
            for node in level:
                ops = menu(node[1], universe, tree_ops, plain_ops, not keep)
                for part in split(ctx.order(ops), ctx.jobs * 3):
                    tasks.append((cfg, [node], None, None, None, store, keep, part))
        else:
            for part in split(ctx.order(level), ctx.jobs * 4):
                tasks.append((cfg, part, universe, tree_ops, plain_ops, store, keep, None))
        best = {}
        for acc, found in pmap_forked(work_level, tasks, ctx.jobs):
            ctx.acc.merge(acc)
            for key, path, nf, hist in found:
                if key in seen:
                    if path:
                        _rm(path)
                    continue
                cur = best.get(key)
                if cur is None or repr(hist) < repr(cur[2]):
                    if cur is not None and cur[0]:
                        _rm(cur[0])
                    best[key] = (path, nf, hist)
                elif path:
                    _rm(path)
        nxt = []
        for key in sorted(best, key=lambda k: repr(best[k][2])):
            if max_states is not None and states >= max_states:
                capped = True
                if best[key][0]:
                    _rm(best[key][0])
                continue
            seen.add(key)
            states += 1
            path, nf, hist = best[key]
            nxt.append((path, nf, hist))
        per_level.append(len(nxt))
        level = nxt if keep else []
        depth += 1
    rmtree(store)
    return {"search": label, "config": cfg, "prefix": [op_name(o) for o in prefix], "universe": len(universe) if universe else 0,
            "first_ops": len(first_ops) if first_ops else None, "states": states, "new_states_per_level": per_level, "depth_completed": depth, "capped": capped}


def _rm(p):
    try:
        os.unlink(p)
    except OSError:
        pass


# --------------------------------------------------------------------------- model cross-check


def check_model_against_git(acc):
    """The path-safety reference model must agree with C git's verify_path (update-index --cacheinfo)
    on every name of the alphabet in three positions and all four configurations."""
    d = fresh_dir("c17git")
    git(["init", "-q", "."], cwd=d)
    sha = git(["hash-object", "-w", "--stdin"], cwd=d, input=b"x").stdout.strip()
    for ntfs in (True, False):
        for hfs in (True, False):
            for n in NAMES:
                for path in (n, b"dir/" + n, n + b"/a"):
                    if path == b"" or b"\0" in path:
                        continue
                    _rm(os.path.join(d, ".git", "index"))
                    p = git([b"-c", b"core.protectNTFS=" + str(ntfs).lower().encode(), b"-c", b"core.protectHFS=" + str(hfs).lower().encode(),
                             b"update-index", b"--add", b"--cacheinfo", b"100644," + sha + b"," + path], cwd=d, check=False)
                    g = p.returncode != 0
                    m = pathsafety.unsafe(path, ntfs, hfs) is not None
                    acc.count("model_vs_git_paths")
                    if g != m:
                        raise HarnessError("path-safety model disagrees with git on %r (ntfs=%s hfs=%s): git %s, model %s"
                                           % (path, ntfs, hfs, "refuses" if g else "accepts", pathsafety.unsafe(path, ntfs, hfs)))
    rmtree(d)


# --------------------------------------------------------------------------- run


def single_step_ops(trees, kinds):
    return [(k, t) for t in trees for k in kinds]


def run(ctx):
    common.preload_rust()
    setup_process()
    q = ctx.quick
    check_model_against_git(ctx.acc)
    ctx.coverage["warmup_outcomes"] = dict(sorted(warmup().classes.items()))
    stats = []

    all_links = ["L:" + t for t in LINK_IDS]
    few = ["f", "L:updir", "G"]
    mid = ["f", "x", "f4755", "f0666", "L:updir", "L:absdir", "L:upfile", "L:gitfile", "L:gitnew", "G"]

    # ---- A. refusal matrix: ONE checkout of every adversarial tree through every entry point
    nestedT = ["f", "f4755", "L:updir", "L:absdir", "L:gitfile", "L:gitnew", "G"]
    famNames = _dedupe(fam_single(LEAF_KINDS) + fam_nested(NAMES, NAMES, few if q else nestedT))  # the names matrix
    famShapes = fam_same_name(mid if q else LEAF_KINDS) + fam_slash_name(mid if q else LEAF_KINDS)
    famShapes += fam_pairs([b"a", b".git", b"git~1", b"dir"] if q else [b"a", b"dir", b".git", b".GIT", b"git~1", b"..", b"a/b", ABSNAME], few if q else mid)
    if not q:
        famShapes += fam_triples(mid)
    famA = _dedupe(famNames + famShapes)
    entryA = ["checkout", "reset_hard", "stash_apply", "patch_add", "checkout_paths", "patch_rename", "patch_copy_to"] if q else \
        ["checkout", "checkout_force", "switch", "reset_hard", "stash_apply", "patch_add", "patch_del", "am", "checkout_paths", "restore_paths",
         "patch_rename", "patch_copy_to"]
    unbornA = ["checkout"] if q else ["checkout", "reset_hard"]
    cfgsA = ["default", "ntfs-off", "ntfs-off+hfs-on"] if q else list(CONFIGS)
    famNames2 = _dedupe(fam_single(LEAF_KINDS) + fam_nested(NAMES, NAMES, ["f", "G"]))  # quick, non-default configurations
    base = (("reset_soft", ()),)  # HEAD = a commit of the empty tree, nothing checked out
    # clone: fresh directory, default configuration (a clone cannot carry a repository-local configuration)
    stats.append(bfs(ctx, "A-clone", "default", None, None, None, 1, first_ops=single_step_ops(famA, ["clone"]), with_wt=False))
    planA = []
    for cfg in cfgsA:
        full = cfg == "default"  # the other configurations: fewer entry points (quick: and only the names matrix)
        trees = famA if (full or not q) else famNames2
        eps = entryA if full else (["checkout", "stash_apply", "patch_add"] if q else ["checkout", "reset_hard", "stash_apply", "patch_add", "am", "checkout_paths"])
        planA.append({"config": cfg, "trees": len(trees), "entry_points": eps, "unborn": unbornA if full else [], "reset_index": True})
        stats.append(bfs(ctx, "A-entry-points", cfg, None, None, None, 1, first_ops=single_step_ops(trees, eps), prefix=base))
        if full:
            stats.append(bfs(ctx, "A-unborn-HEAD", cfg, None, None, None, 1, first_ops=single_step_ops(trees, unbornA)))
        # reset --soft T ; WorkTree.reset_index()  == the tail of a clone, under every configuration
        stats.append(bfs_pairs(ctx, "A-reset_index", cfg, [[("reset_soft", t), ("reset_index", None)] for t in trees]))
    # reset --mixed T ; sparse-checkout (all included / none included): the index entries of T are materialised / removed
    famSparse = _dedupe(fam_single(LEAF_KINDS) + fam_nested(NAMES, NAMES, ["f"])) if q else famA
    for cfg in (["default"] if q else ["default", "ntfs-off+hfs-on"]):
        stats.append(bfs_pairs(ctx, "A-sparse", cfg, [[("reset_mixed", t), (k, None)] for t in famSparse for k in ("sparse_all", "sparse_none")]))
    ctx.coverage["family_A_sparse_trees"] = len(famSparse)
    ctx.coverage["family_A"] = planA

    # ---- B. sequences: the same names come back with a different kind, through every entry point
    planB = []
    if q:
        planB.append(("B-depth2", "default", fam_reuse(["updir", "upfile", "hooks", "gitfile", "gitnew"], ["f"] + list(MIRROR), [], [POISON],
                                                      poison_for=("f", "L:updir", "D"), slash_for=("updir",)),
                      [k for k in TREE_OPS if k not in ("restore_paths",)], 2))
        planB.append(("B-depth3", "default", fam_reuse(["updir", "gitfile"], ["f"], [], [POISON], poison_for=("L:updir",), in_tree=False),
                      ["checkout", "checkout_force", "reset_hard", "reset_mixed", "reset_soft", "stash_apply", "patch_add", "checkout_paths"], 3))
    else:
        planB.append(("B-depth3", "default", fam_reuse(["updir", "absdir", "upfile", "hooks", "gitfile", "gitnew"], ["f"], ["updir"], [POISON],
                                                      poison_for=("L:updir", "D"), slash_for=("updir", "hooks"), deep=True),
                      [k for k in TREE_OPS if k not in ("switch", "restore_paths", "patch_copy_to")], 3))
        planB.append(("B-depth2", "default", fam_reuse(LINK_IDS, list(FILE_MODES), ["updir", "gitfile"], [POISON, POISON_NESTED],
                                                      poison_for=("f", "L:updir", "L:gitfile", "D"), slash_for=("updir", "absdir", "hooks", "git"), deep=True),
                      TREE_OPS, 2))
        planB.append(("B-depth2", "ntfs-off", fam_reuse(LINK_IDS, ["f", "x"], ["updir"], [POISON, POISON_NESTED],
                                                       poison_for=("f", "L:updir", "L:gitfile", "D")), TREE_OPS, 2))
    for label, cfg, uni, tops, depth in planB:
        stats.append(bfs(ctx, label, cfg, uni, tops, PLAIN_OPS, depth, prefix=base))
    # prefix-sharing sibling names: every ordered pair (T1, T2) of the family, T1 checked out, then T2 through the routes that
    # keep ONE verified-prefix cache over the whole iteration (reset_index -> build_index_from_tree, Stash.pop) and, as the
    # per-path control, through reset --hard
    famP = fam_prefix(["updir", "hooks"] if q else ["updir", "absdir", "hooks", "git"])
    seqP = []
    for t1 in famP:
        for t2 in famP:
            if t1 and t2 and t1 != t2:
                seqP.append([("reset_soft", ()), ("checkout_force", t1), ("reset_soft", t2), ("reset_index", None)])
                seqP.append([("reset_soft", ()), ("checkout_force", t1), ("stash_apply", t2)])
                if not q:
                    seqP.append([("reset_soft", ()), ("checkout_force", t1), ("reset_hard", t2)])
    for cfg in (["default"] if q else ["default", "ntfs-off"]):
        stats.append(bfs_pairs(ctx, "B-prefix-pairs", cfg, seqP))
    ctx.coverage["family_prefix_trees"] = len(famP)
    ctx.coverage["family_A_trees"] = len(famA)
    ctx.coverage["family_B"] = [{"search": p[0], "config": p[1], "trees": len(p[2]), "tree_ops": p[3], "plain_ops": PLAIN_OPS, "depth": p[4]} for p in planB]

    n = ctx.acc.n
    ctx.level = "model_checking"
    ctx.coverage.update(
        states=sum(s["states"] for s in stats),
        transitions=n.get("transitions", 0),
        traces_validated_against_impl=n.get("transitions", 0),
        evaluations=n.get("transitions", 0) + n.get("model_vs_git_paths", 0),
        distinct_nontrivial=len(ctx.acc.classes),
        searches=stats,
        exhaustive=all(not s["capped"] for s in stats),
        rule="E3: BFS over sandbox states (key = work-tree image + HEAD tree + index entries + stash trees + am state + every protected file); "
             "a transition restores the state, runs one real dulwich operation on a tree built from raw bytes and compares recursive snapshots "
             "of everything outside the work tree and of .git minus the bookkeeping allow-list; unsafe paths judged by an independent model "
             "cross-checked against C git.",
        bounds={"names": len(NAMES), "leaf_kinds": len(LEAF_KINDS), "link_targets": len(LINK_IDS), "max_entries_per_level": 2 if q else 3, "max_tree_depth": "2 (+ one depth-3 tree a/dir/a in the sequence universes)",
                "family_A_trees": len(famA), "family_A_names_matrix": len(famNames)},
    )
    for s in famA[:3] + planB[0][2][:3]:
        ctx.acc.sample(show(s))
    ctx.assumptions += [
        "absolute paths are represented by /proc/self/cwd/abs/... with the worker's cwd set to the sandbox (position independent, resolved by the kernel)",
        "states are merged when work tree, HEAD tree, index entries (without stat fields), stash trees, am state and all protected files agree; "
        "commit ids, branch names and reflogs are not part of the key",
        "a push into the non-bare repository / a fetch into the checked-out branch is modelled by porcelain.reset(mode='soft')",
        "'stash_apply' plants refs/stash + its reflog by hand (stash commit of the adversarial tree on top of HEAD) and then runs porcelain.stash_pop",
        "Linux semantics only: DOS drive prefixes, backslash separators and reserved device names are ordinary names here",
        "pool workers drop root privileges (uid nobody) so that a confinement failure cannot leave the scratch area",
    ]


def warmup():
    """Run every operation kind once in the parent so that all lazily imported modules are loaded
    before the pool forks (workers drop privileges and may not be able to read the interpreter's
    library directory afterwards)."""
    import dulwich.am  # noqa: F401
    import dulwich.patch  # noqa: F401
    import dulwich.porcelain  # noqa: F401
    import dulwich.stash  # noqa: F401
    import dulwich.submodule  # noqa: F401
    import unicodedata  # noqa: F401

    t1 = (E(b"a", "f"), E(b"b", "L:sib"), E(b"g", "G"))
    t2 = (E(b"a", "D", (E(b"a", "x"),)), E(b".g\xe2\x80\x8cit", "f"))
    sub = Acc()
    for cfg in ("default", "ntfs-on+hfs-on"):
        case_sequence(sub, cfg, [("clone", t1)])
        case_sequence(sub, cfg, [("reset_soft", ()), ("checkout", t1), ("switch", ()), ("checkout_force", t1), ("reset_mixed", t2), ("stash_push", None),
                                 ("stash_pop", None), ("reset_hard", t1), ("stash_apply", t1), ("patch_add", t2), ("patch_del", t1), ("reset_index", None),
                                 ("checkout_paths", t2), ("restore_paths", t1), ("patch_rename", t1), ("patch_copy_to", t2), ("sparse_none", None), ("sparse_all", None),
                                 ("am", t2), ("am", t2), ("am_abort", None), ("reset_soft", t2), ("reset_hard", ())])
    # a deliberately failing am leaves state for am_abort
    case_sequence(sub, "default", [("reset_soft", ()), ("am", (E(b".git", "f"),)), ("am_abort", None)])
    # the tracer path
    with confine.MutationTracer(lambda p: False, "/nonexistent"):
        pass
    return sub


def _dedupe(seq):
    seen, out = set(), []
    for s in seq:
        if s not in seen:
            seen.add(s)
            out.append(s)
    return out


def work_prefixed(task):
    """Run explicit sequences from the initial state, judging every step."""
    setup_process()
    cfg, seqs = task
    acc = Acc()
    S = confine.Sandbox(fresh_dir("c17p"))
    keys = set()
    try:
        for seq in seqs:
            snapshot = initial_state(cfg)
            hist = []
            for op in seq:
                snapshot, _r = transition(acc, cfg, snapshot, hist, op, S)
                if snapshot is None:
                    break
                hist.append(op)
            if snapshot is not None:
                keys.add(state_key(os.fsdecode(S.root), snapshot)[0])
    finally:
        rmtree(S.root)
    return acc, keys


def bfs_pairs(ctx, label, cfg, seqs):
    keys = set()
    tasks = [(cfg, part) for part in split(ctx.order(seqs), ctx.jobs * 3)]
    for acc, k in pmap_forked(work_prefixed, tasks, ctx.jobs):
        ctx.acc.merge(acc)
        keys |= k
    return {"search": label, "config": cfg, "sequences": len(seqs), "states": len(keys), "depth_completed": max(len(x) for x in seqs), "capped": False}


def work_replay(task):
    from engines.common import Ctx, replay_generic

    setup_process()
    prop, tier, seed, obj = task
    rc = replay_generic(sys.modules[__name__], Ctx(prop, tier, seed, 1), obj)
    sys.stdout.flush()
    return rc


def replay(ctx, obj):
    common.preload_rust()
    setup_process()
    warmup()
    rc, = list(pmap_forked(work_replay, [(ctx.prop, ctx.tier, ctx.seed, obj)], 1))
    return rc
